"""C01  Hologram = |scaling * E_s + unit reference|^2 on the detector.

Decides from the source:
  F1  calc_holo's value is  SUM_{v in x,y} | F_v * s + P_v |^2  with F the
      ImageFormation field, s = dict_to_array(detector, scaling), P the
      prepared schema's polarisation (E5, xarray idioms normalised);
  F2  calc_intensity's value is SUM_{v in x,y} |F_v|^2;
  F3  to_vector returns c / sqrt(sum c^2) for 2- and 3-vectors (unit
      reference => scaling 0 gives exactly 1); dict_to_array pairs labels and
      values in one consistent order;
  F4  every calc_* returns through finalize(D, .) whose metadata donor D
      carries the prepared optics (value of prep_schema, or of a calc_* that
      itself satisfies the rule); finalize ends in copy_metadata(D, .,
      do_coords=False); prep_schema / update_metadata route each optics
      argument to the attribute of the same name;
  F6  copy_metadata(old, data): the result is a copy of `data` carrying
      old's attrs (a copy of the dict) and name whenever old is a DataArray;
      coordinates are taken over only when do_coords; a non-xarray `old` leaves
      a plain copy of data;
  F7  prep_schema refuses exactly the missing optics (wavelength, medium
      index, polarisation unless the caller passes False) and otherwise returns
      the updated detector; interpret_theory's table: 'auto' -> the default
      theory, a theory class -> an instance, an instance -> itself;
  F5  nothing reachable from calc_* writes module-level or class-level state,
      no scattering theory stores on `self` during a calculation, and the one
      f2py routine with a legacy reuse switch (scsmfo_min.amncalc) is called
      with the literal 1.
Not decided: finiteness; history independence inside compiled Fortran
(COMMON /TMAT/ etc.); coordinate retention by xarray for point detectors.
"""
import ast

from hpstatic.callgraph import CallGraph
from hpstatic.effects import writes, describe
from hpstatic.interp import Interp, expr_term
from hpstatic.loader import AnalysisError, norm_src
from hpstatic.poly import Canon
from hpstatic.terms import (sym, intern, show, subterms, calls_in, TRUE, FALSE,
                            NONE, atoms_of, kw, num)
from hpstatic.xrnorm import atom_rewrite
from .common import THEORY, norm_cond, call_args, term_args
from hpstatic.logic import select

MUTATION_TARGETS = {'holopy/scattering/interface.py': ['calc_holo', 'calc_intensity', 'calc_field', 'calc_scat_matrix', 'finalize', 'prep_schema', 'scattered_field_to_hologram', 'interpret_theory'], 'holopy/core/metadata.py': ['to_vector', 'dict_to_array', 'update_metadata', 'copy_metadata']}

LEVEL = 'other'
META = dict(
    claimed=True,
    technique='canonical-form equality of the hologram / intensity expressions '
              'against the documented formula; return-path donor analysis '
              '(must-pass-through finalize / copy_metadata); whole-package call '
              'graph + effect analysis for module/class/instance state written '
              'during a calculation',
    level_text='Static: decides F1-F5 for every scatterer x theory x detector at '
               'once, because the clauses are about the Python expression that '
               'combines the field, scaling and reference and about which object '
               'donates the metadata -- not about the solver numerics.  F1-F3 are '
               'proofs of the formula clauses modulo numpy/xarray elementwise '
               'semantics; F5 decides history independence on the Python side.',
    level_note='Trusted: numpy/xarray arithmetic is elementwise with label '
               'alignment; DataArray.copy() is deep; my call-graph '
               'over-approximates dynamic dispatch.  Fortran COMMON state is '
               'inventoried by C10\'s scanner but not decided.',
)

I = 'holopy.scattering.interface.'
IF = 'holopy.scattering.imageformation.ImageFormation.'
M = 'holopy.core.metadata.'
OPAQUE = [I + 'validate_scatterer', I + 'prep_schema', I + 'interpret_theory',
          IF + 'calculate_scattered_field', IF + 'calculate_scattering_matrix',
          IF + 'calculate_cross_sections', I + 'finalize', M + 'dict_to_array',
          I + 'calc_field']
CALCS = ['calc_holo', 'calc_intensity', 'calc_field', 'calc_scat_matrix',
         'calc_cross_sections']


def analyze(prog, name, extra_opaque=()):
    it = Interp(prog, max_depth=3, opaque=[o for o in OPAQUE + list(extra_opaque)
                                           if not o.endswith('.' + name)])
    return it, it.analyze(I + name)


def run(check, prog):
    check.explanation = (
        'calc_holo / calc_intensity are evaluated into terms (callees such as '
        'prep_schema kept opaque) and compared, in canonical form, with the '
        'documented formulas; the metadata donor of each return is traced; the '
        'package call graph from calc_* is scanned for state writes.')
    check.trusted += ['numpy/xarray elementwise arithmetic', 'DataArray.copy() deep']
    canon = Canon(atom_rewrite=atom_rewrite)
    f1_f2(check, prog, canon)
    f3_vectors(check, prog, canon)
    f4_metadata(check, prog)
    f6_copy_metadata(check, prog)
    f7_prepared_schema(check, prog)
    # ... including its multi-channel branch (rule shared with C06)
    from . import c06
    c06.illumination_preparation(check, prog)
    # each channel's field under its own label (rule shared with C06)
    c06.channels(check, prog)
    c06.channel_axis_first(check, prog)
    f9_point_coordinates(check, prog)
    # the points the theory is asked at are the detector's, in units of 1/k, for
    # every kind of detector (rule shared with C07)
    from . import c07
    c07.coordinates(check, prog)
    f8_wiring(check, prog)
    f5_state(check, prog)
    # "finite", "depends only on the arguments": the compiled field routines do
    # not read back work arrays a failed helper left untouched, nor elements no
    # statement wrote (rules on the Fortran sources, shared with C02)
    from . import c02 as _c02f
    _c02f.status_examined(check, prog)
    _c02f.work_arrays_defined(check, prog)
    # the reference wave is the polarisation that was passed: a theory written
    # for one polarisation refuses every other (rule shared with C05)
    from . import c05 as _c05p
    _c05p.pin_exact(check, prog)
    nan_propagates(check, prog)
    zero_radius_refused(check, prog)


# ----------------------------------------------------------------------
def zero_radius_refused(check, prog):
    """F1d: "the result is finite": the Lorenz-Mie coefficient routines divide by
    each layer's size parameter, so a radius of zero *anywhere* -- the core of a
    layered sphere as much as a uniform sphere -- gives NaN coefficients and a NaN
    field at every pixel.  Mie._scat_coeffs refuses such a scatterer; the refusal
    has to look at every radius (`any`, or the smallest), not at the largest."""
    q = 'holopy.scattering.theory.mie.Mie._scat_coeffs'
    fd = prog.func(q)
    loc = prog.loc(q, fd)
    it = Interp(prog, max_depth=0)
    res = it.analyze(q)
    s_ = sym(fd.args.args[1].arg)
    hits = []
    for o in res.raises:
        if 'InvalidScatterer' not in show(o.value):
            continue
        for t, pol in o.cond:
            zero_cmp = [x for x in subterms(t) if x[0] == 'cmp' and x[1] in ('==', '<=')
                        and x[3] == num(0)]
            if zero_cmp and pol is True and any(
                    y == ('attr', s_, 'r') or y[0] in ('phi',) for y in subterms(t)):
                hits.append((t, pol))
    check.need('refusal of a zero radius in Mie._scat_coeffs', len(hits), 1,
               'F1-zero-radius-refused', 'Mie._scat_coeffs',
               'a scatterer with a radius of zero is refused', loc,
               missing='no InvalidScatterer is raised on a comparison of the radii with '
               '0: the coefficient routines divide by the size parameter')
    for t, pol in hits:
        every = False
        for x in subterms(t):
            # (r == 0).any() / np.any(r == 0) / r.min() == 0 / min(r) == 0
            if x[0] == 'call' and ((isinstance(x[1], tuple) and x[1][0] == 'attr' and
                                    x[1][2] == 'any') or x[1] in ('numpy.any', 'any')):
                every = True
            if x[0] == 'cmp' and x[3] == num(0):
                l = x[2]
                if l[0] == 'call' and ((isinstance(l[1], tuple) and l[1][0] == 'attr' and
                                        l[1][2] == 'min') or
                                       l[1] in ('numpy.min', 'min', 'numpy.amin')):
                    every = True
        check.require(every and pol is True, 'F1-zero-radius-refused',
                      'Mie._scat_coeffs refusal',
                      'the refusal fires if any radius is zero', loc,
                      fail_detail='refused when %s%s: only an all-zero (or largest) '
                      'radius is caught -- Sphere(n=(1.45, 1.59), r=(0, 0.5)) passes and '
                      'every pixel of its hologram is NaN' % (
                          '' if pol else 'not ', show(t)[:100]))


def nan_propagates(check, prog):
    """F1c: a field that could not be computed is not a dark pixel.  The hologram
    and the intensity are sums of squared moduli over the transverse components of
    a labelled array; xarray's reductions skip NaN by default, so NaN + NaN is 0:
    where the scattered field is NaN (a point the compiled Bessel routine cannot
    reach, r = inf, coefficients that overflowed) calc_intensity would report 0 and
    calc_holo 0 instead of anything near 1.  Rule: every labelled reduction on the
    path from the field to the result names skipna=False (a NumPy reduction of the
    bare values keeps NaN by itself)."""
    I = 'holopy.scattering.interface.'
    REDUCE = ('sum', 'mean', 'prod', 'max', 'min', 'std', 'var')
    n = 0
    for q in (I + 'calc_intensity', I + 'scattered_field_to_hologram'):
        fd = prog.func(q)
        loc = prog.loc(q, fd)
        # (helpers of the module are followed: the sum may live in a shared one)
        it = Interp(prog, max_depth=1, opaque=[I + 'calc_field', I + 'finalize',
                                               I + 'prep_schema'])
        res = it.analyze(q)
        reds = [x for o in res.returns for x in subterms(o.value)
                if x[0] == 'call' and isinstance(x[1], tuple) and x[1][0] == 'attr'
                and x[1][2] in REDUCE]
        for x in reds:
            n += 1
            kws = dict(x[3])
            recv = x[1][1]
            bare = recv[0] == 'attr' and recv[2] in ('values', 'data')
            ok = bare or kws.get('skipna') == FALSE
            check.require(ok, 'F1-nan-propagates', '%s .%s()' % (q.rpartition('.')[2],
                                                               x[1][2]),
                          'the reduction over the field components does not skip NaN',
                          loc, fail_detail='%s: xarray skips NaN by default -- with a NaN '
                          'scattered field (detector_points(theta=, phi=) at the default '
                          'r = inf; a point beyond the Bessel routine\'s range) '
                          'calc_intensity returns 0 and calc_holo 0, not NaN' % (
                              show(x)[:100]))
    check.floor('F1c labelled reductions between field and result', n, 2)


def f1_f2(check, prog, canon):
    it, res = analyze(prog, 'calc_holo')
    fd = prog.func(I + 'calc_holo')
    loc = prog.loc(I + 'calc_holo', fd)
    ret = res.ret
    if not (ret[0] == 'call' and ret[1] == I + 'finalize' and len(ret[2]) == 2):
        check.bad('F4-returns-through-finalize', 'calc_holo',
                  'calc_holo does not return finalize(., .): %s' % show(ret)[:200], loc)
        return
    donor, holo = ret[2]
    fields = calls_in(holo, 'calculate_scattered_field')
    scal = calls_in(holo, M + 'dict_to_array')
    if not fields or not scal:
        check.bad('F1-hologram-formula', 'calc_holo',
                  'the hologram does not combine the ImageFormation field with '
                  'dict_to_array(detector, scaling): %s' % show(holo)[:240], loc)
        return
    F, S = fields[0], scal[0]
    ok_s = len(S[2]) == 2 and S[2][1] == sym('scaling')
    check.require(ok_s, 'F1-hologram-formula', 'calc_holo scaling',
                  'the scaling factor is the scaling argument (dict -> array)', loc,
                  fail_detail='scaling term is %s' % show(S))
    P = intern(('attr', donor, 'illum_polarization'))
    env = {'F': F, 's': S, 'P': P}
    oracle = expr_term(prog, "(np.abs((F * s + P).sel(vector=['x', 'y']))**2)"
                             ".sum(dim='vector')", env)
    check.require(canon.equal(holo, oracle), 'F1-hologram-formula', 'calc_holo',
                  'holo = sum over x,y of |F*s + P|^2', loc,
                  fail_detail='calc_holo computes %s; documented: %s' % (
                      canon.show(holo)[:300], canon.show(oracle)[:300]))
    # F is computed for the validated scatterer on the prepared schema
    ok = len(F[2]) == 2 and F[2][1] == donor and \
        bool(calls_in(F[2][0], I + 'validate_scatterer'))
    check.require(ok, 'F1-field-arguments', 'calc_holo field',
                  'field computed for validate_scatterer(scatterer) on the prepared '
                  'schema', loc, fail_detail='field call is %s' % show(F)[:200])
    # F2 intensity
    it, res = analyze(prog, 'calc_intensity')
    fd = prog.func(I + 'calc_intensity')
    loc = prog.loc(I + 'calc_intensity', fd)
    ret = res.ret
    if not (ret[0] == 'call' and ret[1] == I + 'finalize' and len(ret[2]) == 2):
        check.bad('F4-returns-through-finalize', 'calc_intensity',
                  'calc_intensity does not return finalize(., .)', loc)
        return
    donor, inten = ret[2]
    cf = calls_in(inten, I + 'calc_field')
    if not cf:
        check.bad('F2-intensity-formula', 'calc_intensity',
                  'intensity is not computed from calc_field: %s' % show(inten)[:200],
                  loc)
        return
    oracle = expr_term(prog, "(np.abs(F.sel(vector=['x', 'y']))**2).sum(dim='vector')",
                       {'F': cf[0]})
    check.require(canon.equal(inten, oracle), 'F2-intensity-formula', 'calc_intensity',
                  'intensity = sum over x,y of |F|^2', loc,
                  fail_detail='calc_intensity computes %s; documented: %s' % (
                      canon.show(inten)[:300], canon.show(oracle)[:300]))
    # calc_field is called with the caller's arguments in the right slots
    c = cf[0]
    fdf = prog.func(I + 'calc_field')
    names = [a.arg for a in fdf.args.args]
    bound = dict(zip(names, c[2]))
    bound.update(dict(c[3]))
    ok = all(bound.get(n) == sym(n) for n in names)
    check.require(ok, 'F2-field-arguments', 'calc_intensity -> calc_field',
                  'every argument forwarded to the parameter of the same name', loc,
                  fail_detail='calc_field called with %s' % {
                      k: show(v) for k, v in bound.items()})


# ----------------------------------------------------------------------
def _dict_of_normalised(ret, c, q):
    """ret is {k: to_vector(v) for k, v in c.items()} in one of its spellings:
    a comprehension, or a loop that stores into a copy of c / a new dict.
    Returns (ok, detail, the result is a new dictionary)."""
    def items_of(t):
        # the mapping whose items / keys t iterates over, and whether elements
        # are (key, value) pairs
        if t[0] == 'call' and isinstance(t[1], tuple) and t[1][0] == 'attr' and \
                t[1][2] in ('items', 'keys') and not t[2]:
            return t[1][1], t[1][2] == 'items'
        return t, False

    def same_mapping(m):
        # c itself or a shallow copy of it
        if m == c:
            return True
        if m[0] == 'call' and isinstance(m[1], tuple) and m[1][0] == 'attr' and \
                m[1][2] == 'copy' and m[1][1] == c:
            return True
        if m[0] == 'call' and m[1] in ('dict', 'copy.copy') and m[2] == (c,):
            return True
        if m[0] == 'copy' and m[-1] == c:
            return True
        return False

    def good(K, V, itr):
        m, pairs = items_of(itr)
        if not same_mapping(m):
            return False, 'iterates over %s' % show(itr)[:80]
        el = [x for x in subterms(K) if x[0] == 'elem' and x[1] == itr]
        if not el:
            return False, 'key %s is not the iteration key' % show(K)[:80]
        e = el[0]
        key = intern(('idx', e, num(0))) if pairs else e
        if K != key:
            return False, 'key %s is not the iteration key' % show(K)[:80]
        if not (V[0] == 'call' and V[1] in (q, 'to_vector') and len(V[2]) == 1):
            return False, 'value %s is not to_vector(...) of the entry' % show(V)[:80]
        a = V[2][0]
        if pairs and a == intern(('idx', e, num(1))):
            return True, ''
        if a[0] == 'idx' and a[2] == key and same_mapping(a[1]):
            return True, ''
        return False, 'value is to_vector(%s), not of the entry under that key' % \
            show(a)[:80]
    t = ret
    if t[0] == 'call' and t[1] == 'dict' and len(t[2]) == 1 and t[2][0][0] == 'comp':
        t = ('comp', 'dict') + tuple(t[2][0][2:])
    if t[0] == 'comp' and t[1] == 'dict' and t[2][0] == 'tuple' and len(t[3]) == 1 \
            and not t[3][0][2]:
        K, V = t[2][1]
        return good(K, V, t[3][0][1]) + (True,)
    if t[0] == 'loop':
        init, step, itr = t[3], t[4], t[5]
        if not (same_mapping(init) or init == ('dict', ())):
            return False, 'starts from %s' % show(init)[:80], False
        if not (step[0] == 'upd' and step[1][0] == 'phi' and step[2] == 'item'):
            return False, 'loop step is %s' % show(step)[:100], False
        return good(step[3], step[4], itr) + (init != c,)
    return False, 'returns %s' % show(ret)[:120], False


def f3_vectors(check, prog, canon):
    q = M + 'to_vector'
    fd = prog.func(q)
    loc = prog.loc(q, fd)
    for two in (True, False):
        def decide(t, two=two):
            if t[0] == 'cmp' and t[1] == '==' and t[2][0] == 'attr' and \
                    t[2][2] == 'shape':
                return two
            if t[0] == 'cmp' and t[1] == 'is' and t[3] in (NONE, FALSE):
                return False
            if t[0] == 'call' and t[1] in ('hasattr', 'isinstance'):
                return False
            return None
        it = Interp(prog, max_depth=1, decide=decide)
        res = it.analyze(q)
        ret = res.ret
        construct = 'to_vector %s-vector' % ('2' if two else '3')
        if not (ret[0] == 'call' and ret[1] == 'xarray.DataArray' and ret[2]):
            check.bad('F3-unit-polarization', construct,
                      'does not return a DataArray: %s' % show(ret)[:160], loc)
            continue
        data = ret[2][0]
        c = sym('c')
        base = expr_term(prog, 'np.append(np.array(c), 0)' if two else 'np.array(c)',
                         {'c': c})
        oracle = intern(('bin', '/', base, expr_term(
            prog, 'np.sqrt(np.sum(X**2))', {'X': base})))
        c0 = Canon()      # keep np.array(c) as an atom here
        check.require(c0.equal(data, oracle), 'F3-unit-polarization', construct,
                      'returns c / sqrt(sum(c^2))%s' % (
                          ' after padding with a zero z component' if two else ''),
                      loc, fail_detail='returns %s; a unit vector is %s' % (
                          c0.show(data)[:200], c0.show(oracle)[:200]))
        coords = kw(ret, 'coords')
        ok = coords is not None and coords[0] == 'dict' and any(
            k == ('const', 'vector') and v == ('list', (('const', 'x'), ('const', 'y'),
                                                         ('const', 'z')))
            for k, v in coords[1])
        check.require(ok, 'F3-unit-polarization', construct + ' labels',
                      "components labelled vector = ['x', 'y', 'z']", loc)
    # ... and a polarisation that arrives as a labelled array (a user-built
    # DataArray, one or several channels) is normalised as well: every leaf of
    # to_vector other than the None / False pass-through and the per-key recursion
    # divides by the norm along `vector`
    def decide2(t):
        if t[0] == 'cmp' and t[1] == 'is' and t[3] in (NONE, FALSE):
            return False
        if t[0] == 'call' and t[1] == 'hasattr':
            return True
        return None
    it = Interp(prog, max_depth=1, decide=decide2)
    ret = it.analyze(q).ret
    c = sym(fd.args.args[0].arg)
    c0 = Canon()
    norms = [expr_term(prog, e_, {'c': c}) for e_ in (
        "c / np.sqrt((c**2).sum('vector'))", "c / np.sqrt((c*c).sum('vector'))",
        "c / np.sqrt((c**2).sum(dim='vector'))", "c / (c**2).sum('vector')**0.5",
        "c / np.sqrt(np.square(c).sum('vector'))")]
    ok = any(c0.equal(ret, w_) for w_ in norms)
    check.require(ok, 'F3-unit-polarization', 'to_vector labelled array',
                  'a polarisation given as a labelled array is divided by its norm '
                  'along `vector`', loc,
                  fail_detail='returns %s: xr.DataArray([3, 4, 0], dims=\'vector\') stays '
                  'of length 5 -- the reference wave of calc_holo is then 25 times too '
                  'strong at scaling 0, and update_metadata stores an unnormalised '
                  'polarisation' % c0.show(ret)[:120])
    # ... and per channel when it arrives as a dictionary: the result has the keys
    # of the argument, each value normalised by the same function
    def decide3(t):
        if t[0] == 'cmp' and t[1] == 'is' and t[3] in (NONE, FALSE):
            return False
        if t[0] == 'call' and t[1] == 'hasattr':
            return False
        if t[0] == 'call' and t[1] == 'isinstance':
            return True
        return None
    it = Interp(prog, max_depth=0, decide=decide3)
    ret = it.analyze(q).ret
    ok, detail, fresh_ = _dict_of_normalised(ret, c, q)
    check.require(ok, 'F3-unit-polarization', 'to_vector dictionary',
                  'a dictionary of polarisations comes back with the same keys, '
                  'each value passed through to_vector', loc, fail_detail=detail)
    # dict_to_array: labels and values in one order
    q = M + 'dict_to_array'
    fd = prog.func(q)
    loc = prog.loc(q, fd)
    it = Interp(prog, max_depth=1)
    res = it.analyze(q)
    n = 0
    for o in res.returns:
        v = o.value
        if v[0] == 'call' and v[1] == 'xarray.DataArray':
            n += 1
            data = v[2][0] if v[2] else kw(v, 'data')
            coords = kw(v, 'coords')
            labels = coords[1][0][1] if coords and coords[0] == 'dict' and coords[1] \
                else None
            check_order(check, 'dict_to_array scalar values', data, labels, loc)
        elif v[0] == 'call' and v[1] == 'xarray.concat':
            n += 1
            data = v[2][0]
            dim = kw(v, 'dim')
            labels = dim[2][0] if dim and dim[0] == 'call' and dim[2] else None
            check_order(check, 'dict_to_array DataArray values', data, labels, loc)
        elif v == sym('inval'):
            check.ok('F3-dict-to-array', 'dict_to_array non-dict',
                     'non-dictionary values pass through unchanged', loc)
    check.floor('DataArray constructions in dict_to_array', n, 2)


def check_order(check, construct, data, labels, loc):
    def order(t):
        if t is None:
            return None
        s = 'sorted' if calls_in(t, 'sorted') else 'insertion'
        src = None
        for x in subterms(t):
            if x[0] == 'call' and isinstance(x[1], tuple) and x[1][0] == 'attr' and \
                    x[1][2] in ('keys', 'values', 'items') and x[1][1] == sym('inval'):
                src = x[1][2]
        return (s, src)
    od, ol = order(data), order(labels)
    ok = od is not None and ol is not None and od[0] == ol[0] and \
        od[1] in ('values', 'items') and ol[1] in ('keys', 'items')
    check.require(ok, 'F3-dict-to-array', construct,
                  'labels and values enumerate the dictionary in the same order', loc,
                  fail_detail='values are taken in %s order (%s) but labels in %s '
                  'order (%s): channels get each other\'s values' % (
                      od and od[0], show(data)[:80] if data else None,
                      ol and ol[0], show(labels)[:80] if labels else None))


# ----------------------------------------------------------------------
def f4_metadata(check, prog):
    good = {}
    for name in ['calc_field', 'calc_scat_matrix', 'calc_holo', 'calc_intensity']:
        it, res = analyze(prog, name)
        fd = prog.func(I + name)
        loc = prog.loc(I + name, fd)
        rets = res.returns
        ok_all = True
        for o in rets:
            v = o.value
            if not (v[0] == 'call' and v[1] == I + 'finalize' and len(v[2]) == 2):
                check.bad('F4-returns-through-finalize', name,
                          'returns %s, not finalize(donor, result)' % show(v)[:160], loc)
                ok_all = False
                continue
            donor = v[2][0]
            if donor[0] == 'call' and donor[1] == I + 'prep_schema':
                fdp = prog.func(I + 'prep_schema')
                names = [a.arg for a in fdp.args.args]
                bound = dict(zip(names, donor[2]))
                bound.update(dict(donor[3]))
                okd = bound.get('detector') == sym('detector') and \
                    bound.get('medium_index') == sym('medium_index') and \
                    bound.get('illum_wavelen') == sym('illum_wavelen') and \
                    bound.get('illum_polarization') in (sym('illum_polarization'), FALSE)
                why = 'prep_schema(%s)' % ', '.join(
                    '%s=%s' % (k, show(x)) for k, x in bound.items())
            elif donor[0] == 'call' and donor[1] == I + 'calc_field' and \
                    good.get('calc_field'):
                okd, why = True, 'result of calc_field (which carries the prepared optics)'
            else:
                okd, why = False, show(donor)[:120]
            check.require(okd, 'F4-metadata-donor', name,
                          'metadata donor carries the optics passed in: ' + why, loc,
                          fail_detail='%s finalizes with %s, which does not carry the '
                          'optics passed as arguments (medium_index, illum_wavelen, '
                          'illum_polarization)' % (name, why))
            ok_all = ok_all and okd
        good[name] = ok_all and bool(rets)
    # finalize
    q = I + 'finalize'
    fd = prog.func(q)
    loc = prog.loc(q, fd)
    it = Interp(prog, max_depth=1, opaque=[M + 'copy_metadata', M + 'from_flat'])
    res = it.analyze(q)
    for o in res.returns:
        v = o.value
        ba = term_args(prog, v)
        ok = v[0] == 'call' and v[1] == M + 'copy_metadata' and len(v[2]) >= 2 and \
            ba.get('old') == sym('detector') and ba.get('do_coords') == FALSE
        check.require(ok, 'F4-finalize-copies-metadata', 'finalize',
                      'returns copy_metadata(detector, result, do_coords=False)', loc,
                      fail_detail='finalize returns %s' % show(v)[:160])
        if ok:
            r = v[2][1]
            ok2 = r == sym('result') or (r[0] == 'call' and r[1] == M + 'from_flat'
                                         and r[2] == (sym('result'),)) or (
                r[0] == 'ite' and {r[2], r[3]} <= {
                    sym('result'), intern(('call', M + 'from_flat', (sym('result'),), ()))})
            check.require(ok2, 'F4-finalize-copies-metadata', 'finalize data',
                          'the data is the result (un-flattened if the detector is '
                          'a grid)', loc, fail_detail='data is %s' % show(r)[:160])
    # copy_metadata: attrs and name of the donor
    q = M + 'copy_metadata'
    fd = prog.func(q)
    it = Interp(prog, max_depth=1)
    res = it.analyze(q)
    sets = {e['attr']: e['value'] for e in it.effects if e['kind'] == 'setattr'
            and e['func'] == q}
    ok = sets.get('attrs') in (('attr', sym('old'), 'attrs'),
                               ('copy', 'shallow', ('attr', sym('old'), 'attrs'))) and \
        sets.get('name') == ('attr', sym('old'), 'name')
    check.require(ok, 'F4-copy-metadata', 'copy_metadata',
                  'new.attrs = old.attrs and new.name = old.name', prog.loc(q, fd),
                  fail_detail='stores: %s' % {k: show(v) for k, v in sets.items()})
    rets = res.returns
    ok = all(any(x == intern(('call', ('attr', sym('data'), 'copy'), (), ()))
                 for x in subterms(o.value)) for o in rets)
    check.require(ok, 'F4-copy-metadata', 'copy_metadata data',
                  'the returned array is built from data.copy()', prog.loc(q, fd))
    # update_metadata: each optics argument lands under its own name
    q = M + 'update_metadata'
    fd = prog.func(q)
    loc = prog.loc(q, fd)
    it = Interp(prog, max_depth=1, opaque=[M + 'dict_to_array', M + 'to_vector',
                                           'holopy.core.utils.updated'])
    res = it.analyze(q)
    upd = [c for c in it.calls if c['name'] == 'holopy.core.utils.updated']
    okk = False
    if upd:
        d = upd[0]['args'][1] if len(upd[0]['args']) > 1 else None
        if d is not None and d[0] == 'dict':
            okk = True
            for k, v in d[1]:
                key = k[1]
                deps = {a[1] for a in atoms_of(v)} - {'a'}
                good_dep = deps == {key}
                check.require(good_dep, 'F4-update-metadata-routing',
                              'update_metadata[%s]' % key,
                              'attrs[%r] is computed from the argument %r' % (key, key),
                              loc, fail_detail='attrs[%r] = %s' % (key, show(v)[:120]))
            keys = [k[1] for k, v in d[1]]
            check.require(sorted(keys) == ['illum_polarization', 'illum_wavelen',
                                           'medium_index', 'noise_sd'],
                          'F4-update-metadata-routing', 'update_metadata keys',
                          'the four optics fields are updated', loc)
            pol = dict((k[1], v) for k, v in d[1]).get('illum_polarization')
            check.require(pol is not None and bool(calls_in(pol, M + 'to_vector')),
                          'F4-update-metadata-routing', 'update_metadata polarization',
                          'polarization is normalised through to_vector', loc)
    check.require(okk, 'F4-update-metadata-routing', 'update_metadata',
                  'attrs updated from a literal dict via updated()', loc)
    # prep_schema: update_metadata(detector, medium_index, illum_wavelen, illum_pol)
    q = I + 'prep_schema'
    fd = prog.func(q)
    it = Interp(prog, max_depth=1, opaque=[M + 'update_metadata'])
    res = it.analyze(q)
    first = [c for c in it.calls if c['name'] == M + 'update_metadata']
    ok = False
    if first:
        fdu = prog.func(M + 'update_metadata')
        names = [a.arg for a in fdu.args.args]
        bound = dict(zip(names, first[0]['args']))
        bound.update(dict(first[0]['kwargs']))
        ok = bound.get('a') == sym('detector') and all(
            bound.get(n) == sym(n) for n in ('medium_index', 'illum_wavelen',
                                             'illum_polarization'))
    check.require(ok, 'F4-prep-schema-routing', 'prep_schema',
                  'first step: update_metadata(detector, medium_index, illum_wavelen, '
                  'illum_polarization) with each optics argument in its own slot',
                  prog.loc(q, fd))
    for o in res.returns:
        rootok = any(x[0] == 'call' and x[1] == M + 'update_metadata'
                     for x in subterms(o.value))
        check.require(rootok, 'F4-prep-schema-routing', 'prep_schema return',
                      'returns the updated detector', prog.loc(q, fd))


# ----------------------------------------------------------------------
def f5_state(check, prog):
    cg = CallGraph(prog)
    entries = [I + n for n in CALCS]
    reach = cg.reachable(entries)
    check.floor('functions reachable from calc_*', len(reach), 150)
    check.note('functions reachable from calc_*', '%d functions' % len(reach))
    theory_classes = set(prog.subclasses(THEORY))
    theory_like = set(theory_classes)
    for q in prog.classes:
        if q.endswith('Calculator') or q.endswith('MieScatteringMatrix') or \
                q.endswith('ImageFormation'):
            theory_like.add(q)
    nchecked = 0
    modified_args = {}
    loads = {}
    for q in reach:
        fd, m, owner = cg.funcs[q]
        for n in ast.walk(fd):
            if isinstance(n, ast.Attribute) and isinstance(n.ctx, ast.Load):
                loads.setdefault(n.attr, '%s:%d' % (m.relpath, n.lineno))
            elif isinstance(n, ast.Call) and isinstance(n.func, ast.Name) and \
                    n.func.id in ('getattr', 'hasattr') and len(n.args) >= 2 and \
                    isinstance(n.args[1], ast.Constant):
                loads.setdefault(n.args[1].value, '%s:%d' % (m.relpath, n.lineno))
    for q, path in sorted(reach.items()):
        fd, m, owner = cg.funcs[q]
        short = q.replace('holopy.', '')
        nchecked += 1
        selfname = fd.args.args[0].arg if (owner and fd.args.args) else None
        is_cm = owner and 'classmethod' in prog.classes[owner].decorators.get(fd.name, [])
        via = ' -> '.join(p.rpartition('.')[2] for p in path[-4:])
        bad = []
        for n in ast.walk(fd):
            if isinstance(n, ast.Global):
                bad.append((n, 'declares global %s' % ', '.join(n.names)))
            tgt = None
            if isinstance(n, (ast.Attribute, ast.Subscript)) and \
                    isinstance(n.ctx, (ast.Store, ast.Del)):
                tgt = n
            elif isinstance(n, ast.Call) and isinstance(n.func, ast.Attribute) and \
                    n.func.attr in ('append', 'extend', 'update', 'pop', 'setdefault',
                                    'insert', 'clear', 'add', 'remove', 'popitem'):
                tgt = n.func
            if tgt is None:
                continue
            root = tgt.value
            chain = []
            while isinstance(root, (ast.Attribute, ast.Subscript)):
                chain.append(root.attr if isinstance(root, ast.Attribute) else '[]')
                root = root.value
            if isinstance(root, ast.Name):
                r = prog.resolve_name(m.name, root.id) \
                    if root.id not in local_names(fd) else ('local',)
                is_pkg_module = r[0] == 'module' and r[1].startswith('holopy') \
                    and not isinstance(n, ast.Call)
                if (r[0] in ('value', 'class') or is_pkg_module) and \
                        root.id != selfname:
                    bad.append((n, 'writes %s-level state %s' % (
                        {'value': 'module', 'class': 'class', 'module': 'module'}[r[0]],
                        norm_src(tgt))))
                    continue
                if root.id == selfname and owner:
                    # attribute reached through self: class-level mutable?
                    attr0 = None
                    t2 = tgt.value if not isinstance(n, ast.Call) else tgt.value
                    # find the attribute directly on self in the chain
                    node2 = tgt if isinstance(tgt, ast.Attribute) and \
                        isinstance(tgt.value, ast.Name) else None
                    cur = tgt
                    while isinstance(cur, (ast.Attribute, ast.Subscript)):
                        if isinstance(cur, ast.Attribute) and \
                                isinstance(cur.value, ast.Name) and \
                                cur.value.id == selfname:
                            attr0 = cur.attr
                        cur = cur.value
                    direct = isinstance(tgt, ast.Attribute) and \
                        isinstance(tgt.value, ast.Name) and not isinstance(n, ast.Call)
                    if is_cm or selfname == 'cls':
                        bad.append((n, 'writes class state %s' % norm_src(tgt)))
                        continue
                    if attr0 is not None and not direct:
                        hit = prog.lookup(owner, attr0)
                        if hit and hit[0] == 'classattr' and isinstance(
                                hit[2], (ast.Dict, ast.List, ast.Set, ast.Call)) and \
                                attr0 not in instance_assigned(prog, owner):
                            bad.append((n, 'mutates the class-level attribute %s.%s '
                                        '(shared by every instance) via %s' % (
                                            hit[1].rpartition('.')[2], attr0,
                                            norm_src(tgt))))
                            continue
                    if owner in theory_like and fd.name not in (
                            '__init__',) and not init_only(cg, prog, owner, q):
                        if attr0 in loads and call_local(cg, prog, entries, owner,
                                                        q, attr0):
                            check.note('state recomputed at the start of every '
                                       'calculation before it is read',
                                       '%s (%s)' % (norm_src(tgt), short))
                            continue
                        if attr0 in loads:
                            bad.append((n, 'caches on the theory object during a '
                                        'calculation (the attribute is read back at '
                                        '%s): %s' % (loads[attr0], norm_src(tgt))))
                        else:
                            check.note('write-only diagnostics on theory objects',
                                       '%s (%s)' % (norm_src(tgt), short))
                        continue
            elif isinstance(root, ast.Call):
                src = ast.unparse(root.func)
                if src == 'type' or src.endswith('__class__'):
                    bad.append((n, 'writes class state %s' % norm_src(tgt)))
        # in-place updates of something the object holds, through a local alias
        # (`phi = self._phi_pts; phi -= a`): the syntax above sees a local name,
        # the evaluator sees the storage it stands for
        if owner in theory_like and selfname and fd.name != '__init__' and \
                not init_only(cg, prog, owner, q):
            try:
                ite_ = Interp(prog, max_depth=1)
                ite_.analyze(q)
                ws = writes(ite_)
            except AnalysisError:
                ws = []
            for e, st_, rs in ws:
                if e['kind'] not in ('augassign', 'setitem', 'mutcall'):
                    continue
                if ('param', selfname) not in rs or ('fresh',) in rs or \
                        ('maybe-fresh',) in rs:
                    continue
                t_ = st_
                while t_[0] in ('attr', 'idx', 'upd') and t_[1][0] != 'sym':
                    t_ = t_[1]
                if not (t_[0] == 'attr' and t_[1] == sym(selfname)):
                    continue
                src_ = e.get('target_src') or e.get('method') or ''
                if isinstance(src_, str) and src_.startswith(selfname + '.'):
                    continue      # spelled on self: reported by the scan above
                attr_ = t_[2]
                hit_ = prog.lookup(owner, attr_)
                if hit_ and hit_[0] == 'property':
                    # a computed attribute the evaluator could not inline: what
                    # it hands out is not known to be the object's storage
                    continue
                bad.append((fd, 'updates self.%s in place through the local name '
                            '%s (line %d): the next use, in this calculation or the '
                            'next, starts from the updated array' % (
                                attr_, src_, e['lineno'])))
        # an argument updated in place (directly or through a local alias) is the
        # caller's object: harmless while the caller has no further use for it,
        # a wrong value as soon as the caller hands the same object on
        if owner in theory_like and fd.name != '__init__':
            try:
                itp_ = Interp(prog, max_depth=0)
                itp_.analyze(q)
                wsp = writes(itp_)
            except AnalysisError:
                wsp = []
            params_ = [a.arg for a in fd.args.args]
            for e, st_, rs in wsp:
                if e['kind'] not in ('augassign', 'setitem', 'mutcall'):
                    continue
                # (a value that is the argument on one path and freshly computed
                # on another -- `if amn is None: amn = ...` -- is the argument
                # whenever the caller supplies it)
                if ('maybe-fresh',) in rs:
                    continue
                for r_ in rs:
                    if r_[0] == 'param' and r_[1] != selfname and r_[1] in params_:
                        modified_args.setdefault(q, {}).setdefault(
                            r_[1], (e.get('target_src') or e.get('method'),
                                    e['lineno']))
        construct = short
        if bad:
            for n, why in bad:
                check.bad('F5-no-shared-state', '%s: %s' % (short, why),
                          '%s (reachable: %s)' % (why, via),
                          '%s:%d' % (m.relpath, n.lineno))
        else:
            check.ok('F5-no-shared-state', construct, 'writes no module/class state',
                     '%s:%d' % (m.relpath, fd.lineno))
    # amncalc's first argument (inew): literal 1 = do not reuse previous arrays
    n_am = 0
    for mm in prog.modules.values():
        for n in ast.walk(mm.tree):
            if isinstance(n, ast.Call) and isinstance(n.func, ast.Attribute) and \
                    n.func.attr == 'amncalc':
                n_am += 1
                ok = bool(n.args) and isinstance(n.args[0], ast.Constant) and \
                    n.args[0].value == 1
                check.require(ok, 'F5-amncalc-fresh', 'scsmfo_min.amncalc(inew, ...)',
                              'called with inew = 1 (0 would reuse the previous '
                              "call's work arrays)", '%s:%d' % (mm.relpath, n.lineno),
                              fail_detail='inew argument is %s' % (
                                  ast.unparse(n.args[0]) if n.args else None))
    check.floor('amncalc call sites', n_am, 1)


    # callers that go on using an object after handing it to a method that
    # updates it in place
    for q, pars in sorted(modified_args.items()):
        fdq, mq, ownq = cg.funcs[q]
        names = [a.arg for a in fdq.args.args]
        for f in sorted(reach):
            if not any(c == q for c, ln in cg.edges(f)):
                continue
            try:
                itc = Interp(prog, max_depth=0)
                itc.analyze(f)
            except AnalysisError:
                continue
            recs = list(itc.calls)
            for k, c in enumerate(recs):
                if c['name'] != q:
                    continue
                for pname, (src_, line_) in pars.items():
                    pos_ = names.index(pname)
                    arg = c['args'][pos_] if pos_ < len(c['args']) else \
                        dict(c['kwargs']).get(pname)
                    if arg is None or arg[0] in ('num', 'const'):
                        continue
                    later = [c2 for c2 in recs[k + 1:] if any(
                        x == arg for a in list(c2['args']) + [v for _, v in c2['kwargs']]
                        for x in subterms(a))]
                    if later:
                        check.bad('F5-arguments-not-reused-after-update',
                                  '%s updates its argument %s in place' % (
                                      q.replace('holopy.', ''), pname),
                                  '%s modifies %s in place (%s, line %d) and %s passes '
                                  'the same object on to %s afterwards: the second '
                                  'consumer works on the modified values' % (
                                      q.rpartition('.')[2], pname, src_, line_,
                                      f.rpartition('.')[2],
                                      later[0]['name'].rpartition('.')[2]),
                                  '%s:%d' % (mq.relpath, line_))
    check.note('methods that update an argument in place',
               ', '.join('%s(%s)' % (q.rpartition('.')[2], '/'.join(p))
                         for q, p in sorted(modified_args.items())) or 'none')


def local_names(fd):
    out = {a.arg for a in fd.args.args + fd.args.kwonlyargs + fd.args.posonlyargs}
    if fd.args.vararg:
        out.add(fd.args.vararg.arg)
    if fd.args.kwarg:
        out.add(fd.args.kwarg.arg)
    for n in ast.walk(fd):
        if isinstance(n, ast.Name) and isinstance(n.ctx, ast.Store):
            out.add(n.id)
        elif isinstance(n, (ast.FunctionDef, ast.ClassDef)) and n is not fd:
            out.add(n.name)
        elif isinstance(n, ast.ExceptHandler) and n.name:
            out.add(n.name)
    return out


def instance_assigned(prog, owner):
    """attributes assigned as self.X = ... somewhere in the MRO (instance state)"""
    out = set()
    for q in prog.mro(owner):
        c = prog.classes[q]
        for fd in c.methods.values():
            if not fd.args.args:
                continue
            sn = fd.args.args[0].arg
            for n in ast.walk(fd):
                if isinstance(n, ast.Attribute) and isinstance(n.ctx, ast.Store) and \
                        isinstance(n.value, ast.Name) and n.value.id == sn:
                    out.add(n.attr)
    return out


def call_local(cg, prog, entries, owner, w, attr):
    """True if the attribute `attr` that method `w` of the theory-like class
    `owner` writes on the instance is scratch state of one calculation, not
    something a later calculation can see: every caller of `w` outside the
    constructors calls it as its very first statement, `w` writes the attribute
    before reading it, and every other function that reads the attribute on an
    object of this class is reached from the public calculations only through
    such a caller (that is, after the rewrite)."""
    related = lambda c: c and (prog.is_subclass(c, owner) or prog.is_subclass(owner, c))
    wname = w.rpartition('.')[2]
    callers = [f for f in cg.funcs if any(c == w for c, ln in cg.edges(f))]
    firsts = set()
    for f in callers:
        fd, m, fo = cg.funcs[f]
        if fd.name == '__init__' and related(fo):
            continue
        body = [st for st in fd.body if not (
            isinstance(st, ast.Expr) and isinstance(st.value, ast.Constant))]
        st = body[0] if body else None
        selfn = fd.args.args[0].arg if fd.args.args else None
        ok = isinstance(st, ast.Expr) and isinstance(st.value, ast.Call) and \
            isinstance(st.value.func, ast.Attribute) and \
            st.value.func.attr == wname and \
            isinstance(st.value.func.value, ast.Name) and \
            st.value.func.value.id == selfn and related(fo)
        if not ok:
            return False
        firsts.add(f)
    if not firsts:
        return False
    # inside w: the attribute is stored before it is loaded
    fdw = cg.funcs[w][0]
    selfw = fdw.args.args[0].arg
    seen_store = False
    for st in fdw.body:
        # the value of an assignment is evaluated before its target is stored
        order = []
        if isinstance(st, ast.Assign):
            order = list(ast.walk(st.value)) + [n for t in st.targets for n in ast.walk(t)]
        else:
            order = list(ast.walk(st))
        for n in order:
            if isinstance(n, ast.Attribute) and n.attr == attr and \
                    isinstance(n.value, ast.Name) and n.value.id == selfw:
                if isinstance(n.ctx, ast.Store):
                    seen_store = True
                elif not seen_store:
                    return False
    if not seen_store:
        return False
    # readers elsewhere: only behind the rewrite
    without = cg.reachable(entries, stop=tuple(firsts))
    for f in without:
        if f in firsts or f == w:
            continue
        fd, m, fo = cg.funcs[f]
        if not related(fo):
            continue
        for n in ast.walk(fd):
            if isinstance(n, ast.Attribute) and n.attr == attr and \
                    isinstance(n.ctx, ast.Load):
                return False
    return True


def init_only(cg, prog, owner, q, _seen=None):
    """True if method q of a theory-like class is only ever called from the
    class's own __init__ chain (set-up code, e.g. Lens._setup_quadrature)."""
    _seen = set() if _seen is None else _seen
    if q in _seen:
        return False          # a cycle of callers never reaches a constructor
    _seen = _seen | {q}
    name = q.rpartition('.')[2]
    callers = []
    for f in cg.funcs:
        for c, ln in cg.edges(f):
            if c == q:
                callers.append(f)
    if not callers:
        return False
    ok = True
    for f in callers:
        fn = f.rpartition('.')[2]
        fo = cg.funcs[f][2]
        if fn == '__init__' and fo and (prog.is_subclass(fo, owner) or
                                        prog.is_subclass(owner, fo)):
            continue
        if fo and (prog.is_subclass(fo, owner) or prog.is_subclass(owner, fo)) and \
                f != q and init_only(cg, prog, fo, f, _seen):
            continue
        ok = False
    return ok


# ----------------------------------------------------------------------
def f6_copy_metadata(check, prog):
    q = M + 'copy_metadata'
    fd = prog.func(q)
    loc = prog.loc(q, fd)
    old, data, do = [sym(a.arg) for a in fd.args.args[:3]]
    it = Interp(prog, max_depth=1)
    res = it.analyze(q)
    cpy = intern(('call', ('attr', data, 'copy'), (), ()))
    isx = intern(('call', 'isinstance', (old, ('extref', 'xarray.DataArray')), ()))
    hasc = intern(('call', 'hasattr', (cpy, ('const', 'coords')), ()))
    oflat = intern(('call', 'hasattr', (old, ('const', 'flat')), ()))

    def hyp(isx_v, do_v):
        def h(t):
            if t == isx:
                return isx_v
            if t == hasc:
                return True
            if t == do:
                return do_v
            if t == oflat:
                return False
            return None
        return h
    plain = select(res.ret, hyp(False, True))
    check.require(plain == cpy, 'F6-copy-metadata', 'copy_metadata [old is not an xarray]',
                  'a plain copy of data', loc,
                  fail_detail='returns %s' % (show(plain)[:120] if plain else None))
    st = {e['attr']: e for e in it.effects if e['kind'] == 'setattr'}
    want = {'attrs': intern(('copy', 'shallow', ('attr', old, 'attrs'))),
            'name': intern(('attr', old, 'name'))}
    ok = set(st) == {'attrs', 'name'} and all(
        st[k]['value'] == want[k] and norm_cond(st[k]['cond']) == [(isx, True)]
        for k in want)
    if ok:
        for k in want:
            b = st[k]['base']
            leaves = set()

            def walk(t):
                if t[0] == 'ite':
                    walk(t[2])
                    walk(t[3])
                elif t[0] == 'upd':
                    walk(t[1])
                else:
                    leaves.add(t)
            walk(b)
            ok = ok and all(x == cpy or (x[0] == 'call' and x[1] == 'xarray.DataArray'
                                         and x[2] and x[2][0] == cpy) for x in leaves)
    check.require(ok, 'F6-copy-metadata', 'copy_metadata attrs and name',
                  'whenever old is a DataArray the copy of data gets old.attrs and '
                  'old.name', loc, fail_detail='stores: %s' % {
                      k: (show(e['value'])[:40], [(show(t)[:40], p) for t, p in e['cond']])
                      for k, e in st.items()})
    # a bare array (what scipy / numpy routines hand back) is given all of old's
    # coordinates: the ones along its axes and the scalar ones (the z of a
    # plane, the label of a channel taken out of a stack)
    ocoords = intern(('attr', old, 'coords'))
    for c in it.calls:
        if c['name'] != 'xarray.DataArray' or not c['args'] or c['args'][0] != cpy:
            continue
        given = dict(c['kwargs']).get('coords', c['args'][1] if len(c['args']) > 1
                                      else None)
        src = given
        while src is not None and src[0] == 'call' and src[1] in ('dict', 'list') \
                and len(src[2]) == 1:
            src = src[2][0]
        if src is not None and src[0] == 'call' and isinstance(src[1], tuple) and \
                src[1][2] == 'items' and not src[2]:
            src = src[1][1]
        whole = src == ocoords
        if not whole and src is not None and src[0] == 'comp':
            # {k: v for k, v in old.coords.items()} without a filter
            its = [x for x in subterms(src) if x == ocoords]
            whole = bool(its) and not any(x[0] == 'cmp' for x in subterms(src)) and \
                not any(x == ('attr', old, 'dims') for x in subterms(src))
        check.require(whole, 'F6-copy-metadata', 'copy_metadata bare array',
                      'a bare array is wrapped with every coordinate of old '
                      '(coords=old.coords)', loc,
                      fail_detail='coords=%s: scalar coordinates of old (the z of a '
                      'single plane, the label of a selected channel) are dropped' % (
                          show(given)[:80] if given else None))
    nocoords = select(res.ret, hyp(True, False))
    withcoords = select(res.ret, hyp(True, True))
    ok = nocoords is not None and withcoords is not None and \
        not calls_in(nocoords, 'rename') and bool(calls_in(withcoords, 'rename'))
    if ok:
        t = nocoords
        got = {}
        while t[0] == 'upd' and t[2] == 'attr':
            got[t[3]] = t[4]
            t = t[1]
        t = select(t, hyp(True, False))
        ok = t == cpy and got == want
    check.require(ok, 'F6-copy-metadata', 'copy_metadata coordinates',
                  'do_coords=False: exactly the copy of data with old\'s attrs and '
                  'name; do_coords=True: matching coordinates are additionally renamed '
                  'to old\'s', loc, fail_detail='without coords: %s' % (
                      show(nocoords)[:160] if nocoords else None))
    bad = [e for e, stt, rs in writes(it) if any(
        r[0] == 'param' and r[1] in (fd.args.args[0].arg, fd.args.args[1].arg)
        for r in rs) and ('maybe-fresh',) not in rs]
    check.require(not bad, 'F6-copy-metadata', 'copy_metadata inputs',
                  'neither old nor data is modified', loc,
                  fail_detail='stores into an input: %s' % [
                      (e.get('target_src'), e['lineno']) for e in bad])


def f7_prepared_schema(check, prog):
    q = I + 'prep_schema'
    fd = prog.func(q)
    loc = prog.loc(q, fd)
    P = [sym(a.arg) for a in fd.args.args[:4]]
    it = Interp(prog, max_depth=1, opaque=[M + 'update_metadata',
                                           'holopy.core.utils.ensure_array'])
    res = it.analyze(q)
    U = intern(('call', M + 'update_metadata', tuple(P), ()))

    def isnone(attr):
        return intern(('cmp', 'is', ('attr', U, attr), NONE))
    want = {
        'wavelength': [(isnone('illum_wavelen'), True)],
        'medium refractive index': [(isnone('illum_wavelen'), False),
                                    (isnone('medium_index'), True)],
    }
    got = {}
    for o in res.raises:
        v = o.value
        nm = None
        for x in subterms(v):
            if x[0] == 'const' and isinstance(x[1], str):
                nm = x[1]
        got[nm] = norm_cond(o.cond)
    ok = len(res.raises) == 3 and all(got.get(k) == w for k, w in want.items())
    pc = got.get('polarization')
    ok = ok and pc is not None and pc[:2] == [(isnone('illum_wavelen'), False),
                                             (isnone('medium_index'), False)]
    pc = pc[2:] if pc else pc
    ok = ok and pc is not None and len(pc) == 1 and pc[0][1] is True and \
        pc[0][0][0] == 'bool' and pc[0][0][1] == 'and' and \
        set(pc[0][0][2]) == {intern(('cmp', 'is not', P[3], FALSE)),
                             isnone('illum_polarization')}
    check.require(ok, 'F7-refuses-only-missing-optics', 'prep_schema',
                  'MissingParameter iff the updated detector has no wavelength / no '
                  'medium index / no polarisation (unless polarisation=False is passed)',
                  loc, fail_detail='raising paths: %s' % {
                      k: [(show(t)[:70], p) for t, p in c] for k, c in got.items()})
    # single illumination: the updated detector itself
    atoms = []
    t = res.ret
    single = None
    if t[0] == 'ite':
        single = t[3] if t[2] != U else t[2]
    elif t == U:
        single = U
    check.require(single == U, 'F7-single-channel-schema', 'prep_schema',
                  'with one illumination the prepared schema is the updated detector',
                  loc, fail_detail='returns %s' % show(res.ret)[:160])
    # interpret_theory
    q = I + 'interpret_theory'
    fd = prog.func(q)
    loc = prog.loc(q, fd)
    sc, th = [sym(a.arg) for a in fd.args.args[:2]]
    it = Interp(prog, max_depth=1, opaque=[I + 'determine_default_theory_for'])
    res = it.analyze(q)
    default = intern(('call', I + 'determine_default_theory_for', (sc,), ()))
    isstr = intern(('call', 'isinstance', (th, ('extref', 'str')), ()))
    auto = intern(('cmp', '==', th, ('const', 'auto')))
    rows = []
    import itertools
    ok = True
    detail = ''
    n = 0
    for s_v, a_v, c_v in itertools.product((True, False), repeat=3):
        if a_v and not s_v:
            continue

        def h(t, s_v=s_v, a_v=a_v, c_v=c_v):
            if t == isstr:
                return s_v
            if t == auto:
                return a_v
            if t[0] == 'call' and t[1] == 'isinstance' and \
                    'SerializableMetaclass' in show(t[2][1]):
                return c_v
            return None
        leaf = select(res.ret, h)
        n += 1
        base = default if (s_v and a_v) else th
        wantl = intern(('call', base, (), ())) if c_v else base
        if leaf != wantl:
            ok = False
            detail = 'string=%s auto=%s class=%s: %s' % (
                s_v, a_v, c_v, show(leaf)[:80] if leaf else None)
    check.require(ok, 'F7-theory-table', 'interpret_theory',
                  "'auto' -> the default theory for the scatterer; a class -> its "
                  'instance; anything else unchanged (%d rows)' % n, loc,
                  fail_detail=detail)


def f8_wiring(check, prog):
    """Every calc_* hands the *validated scatterer* and the *prepared schema* to
    the image former built on the *interpreted theory*, each in the slot the
    callee declares."""
    table = {'calc_holo': 'calculate_scattered_field',
             'calc_field': 'calculate_scattered_field',
             'calc_scat_matrix': 'calculate_scattering_matrix',
             'calc_cross_sections': 'calculate_cross_sections'}
    for name, method in table.items():
        it, res = analyze(prog, name)
        fd = prog.func(I + name)
        loc = prog.loc(I + name, fd)
        P = {a.arg: sym(a.arg) for a in fd.args.args}
        vs = intern(('call', I + 'validate_scatterer', (P['scatterer'],), ()))

        def one(q):
            cs = [c for c in it.calls if c['name'] == q]
            return cs[0] if len(cs) == 1 else None

        def bound(q, c, skip_self=False):
            fdc = prog.func(q)
            nm = [a.arg for a in fdc.args.args]
            args = list(c['args'])
            if skip_self:
                nm, args = nm[1:], args[1:]
            b = dict(zip(nm, args))
            b.update(dict(c['kwargs']))
            return b
        c = one(I + 'interpret_theory')
        ok = c is not None and bound(I + 'interpret_theory', c) == {
            'scatterer': vs, 'theory': P['theory']}
        th = intern(('call', I + 'interpret_theory', (vs, P['theory']), ()))
        im = one('holopy.scattering.imageformation.ImageFormation')
        ok = ok and im is not None and (tuple(im['args']) == (th,) or
                                        dict(im['kwargs']).get('scattering_theory') == th)
        c = one(IF + method)
        detail = ''
        if ok and c is not None:
            b = bound(IF + method, c, skip_self=True)
            recv = c['args'][0]
            okr = recv[0] == 'new' and dict(recv[3]).get('scattering_theory') == th
            sch = b.get('schema') if 'schema' in b else b.get('detector')
            if method == 'calculate_cross_sections':
                okc = b.get('scatterer') == vs and okr
            else:
                okc = b.get('scatterer') == vs and okr and sch is not None and \
                    sch[0] == 'call' and sch[1] == I + 'prep_schema'
            detail = '%s(%s)' % (method, ', '.join('%s=%s' % (k, show(x)[:40])
                                                   for k, x in b.items()))
            ok = okc
        else:
            ok = False
        check.require(ok, 'F8-calc-wiring', name,
                      'interpret_theory(validated scatterer, theory) -> '
                      'ImageFormation(theory).%s(validated scatterer, prepared schema)'
                      % method, loc, fail_detail=detail)
    # finalize: un-flatten exactly when the detector is not itself flat
    q = I + 'finalize'
    fd = prog.func(q)
    det, rs = [sym(a.arg) for a in fd.args.args[:2]]
    it = Interp(prog, max_depth=1, opaque=[M + 'copy_metadata', M + 'from_flat'])
    v = it.analyze(q).ret
    hf = intern(('call', 'hasattr', (det, ('const', 'flat')), ()))
    ok = v[0] == 'call' and v[1] == M + 'copy_metadata' and len(v[2]) >= 2 and \
        v[2][1] == ('ite', hf, rs, ('call', M + 'from_flat', (rs,), ()))
    check.require(ok, 'F4-finalize-copies-metadata', 'finalize un-flattening',
                  'the result is un-flattened iff the detector is a grid (has no '
                  '`flat` index)', prog.loc(q, fd),
                  fail_detail='data is %s' % (show(v[2][1])[:120] if len(v) > 2 and
                                              len(v[2]) > 1 else None))


def f9_point_coordinates(check, prog):
    """F9: a result computed on explicit detector points lies on those points.

    For a grid the flattened detector's positions are levels of the 'flat' index and
    travel with it.  For explicit points they are ordinary coordinates along 'point'
    (x, y, z or r, theta, phi); `coords['point']` alone is only the running number.
    A DataArray constructor ignores the coordinates attached to a coordinate it is
    given, so the field must be built with the detector's point coordinates named
    explicitly: something must range over the detector's coordinates."""
    q = 'holopy.scattering.imageformation.ImageFormation._pack_field_into_xarray'
    fd = prog.func(q)
    loc = prog.loc(q, fd)

    def decide(t):
        if t[0] == 'cmp' and t[1] == 'in' and t[2] == ('const', 'flat'):
            return False
        if t[0] == 'cmp' and t[1] == 'in' and t[2] == ('const', 'point'):
            return True
        return None
    it = Interp(prog, max_depth=1, decide=decide, opaque=['holopy.core.metadata.flat'])
    v = it.analyze(q).ret
    schema = sym(fd.args.args[2].arg)
    FS = intern(('call', 'holopy.core.metadata.flat', (schema,), ()))
    new = [x for x in subterms(v) if x[0] == 'call' and x[1] == 'xarray.DataArray']
    ok = bool(new)
    detail = 'no DataArray is built'
    if ok:
        co = kw(new[0], 'coords')
        carried = False
        if co is not None:
            for C in (intern(('attr', FS, 'coords')), intern(('attr', schema, 'coords'))):
                for x in subterms(co):
                    # ranges over all coordinates: .items() / iteration / passed whole
                    if x[0] == 'call' and isinstance(x[1], tuple) and x[1][0] == 'attr' \
                            and x[1][1] == C and x[1][2] in ('items', 'keys', 'values'):
                        carried = True
                    if x[0] == 'comp' and any(g[1] == C for g in x[3]):
                        carried = True
                    if x[0] in ('mut', 'call') and any(
                            a == C for a in (x[3] if x[0] == 'mut' else x[2])):
                        carried = True
                if co == C:
                    carried = True
        # ... or assigned afterwards
        for x in subterms(v):
            if x[0] == 'call' and isinstance(x[1], tuple) and x[1][0] == 'attr' and \
                    x[1][2] == 'assign_coords' and any(
                        y == ('attr', FS, 'coords') for a in x[2] for y in subterms(a)):
                carried = True
        ok = carried
        detail = 'for explicit points the field is built with coords = %s: the x, y, z ' \
            '(or r, theta, phi) of the points are not carried over, the result has only ' \
            'the running index `point`' % (show(co)[:160] if co is not None else None)
    check.require(ok, 'F9-point-coordinates', '_pack_field_into_xarray [points]',
                  'the positions of explicit detector points are carried into the result',
                  loc, fail_detail=detail)
