"""C16  Images keep values, coordinates and metadata through I/O and edits.

Decides from the source:
  U1  update_metadata returns a new image (the copy precedes every store),
      changes only fields whose argument is not None (`updated` filters on
      `is not None`), and normalises the polarisation through to_vector (unit
      length: C01's rule);
  U2  the attrs packer and unpacker agree: every plain attribute that is not
      None is written (the guard is implied by `val is not None`, so 0 / False /
      '' survive); labelled-array attributes are written with their coordinates
      and read back as DataArrays with those coordinates; side-channel keys
      written by the TIFF path (name, spacing, _image_scaling, _dummy_channel)
      are exactly the ones the reader consumes or ignores;
  U3  pixel (i, j) sits at (i * s_x, j * s_y): make_coords / data_grid;
  U4  averaging: Accumulator.push is Welford's recurrence (variance update uses
      the old mean, then the mean is updated), std = sqrt(S / n), the queries
      mean() / std() do not modify the accumulator, push does not alias its
      argument; load_average's relative noise is mean(std / mean) and its crop
      uses, for each axis, that axis' own spacing.
Not decided: HDF5 / TIFF byte-level round trips and quantisation (library).
"""
import ast

from hpstatic.effects import writes
from hpstatic.interp import Interp, expr_term
from hpstatic.logic import eval3
from hpstatic.loader import AnalysisError
from hpstatic.poly import Canon
from hpstatic.terms import (sym, intern, show, subterms, calls_in, NONE, num, kw, is_num,
                            FALSE, TRUE)
from hpstatic.xrnorm import atom_rewrite
from . import c01
from .common import const_list, norm_cond, beyond_guards, split_value_ite, call_args, term_args

MUTATION_TARGETS = {'holopy/core/io/io.py': ['pack_attrs', 'unpack_attrs', 'push', 'mean', 'std', 'load_average', 'save', 'load_image', 'load'], 'holopy/core/metadata.py': ['update_metadata', 'make_coords', 'data_grid', 'to_vector'], 'holopy/core/utils.py': ['updated']}

LEVEL = 'other'
META = dict(
    claimed=True,
    technique='effect analysis (copy-before-store, query purity), 3-valued '
              'evaluation of the writer\'s filter, writer/reader key-table '
              'agreement, canonical-form equality of the coordinate grid and of '
              'Welford\'s recurrence'
              '; colour-channel selection (planes and labels derived from one request'
              '); canonical-form equality of the TIFF restore step with the scale-fre'
              'e inverse of the export stretch'
              '; package-wide provenance scan of dimension-naming arguments (with a positive fixture); handler coverage of every yaml parse of the TIFF description; writer/reader agreement on the HDF5 file name; order of default-name store and attribute packing in the TIFF writer; effect analysis of the save / load / edit entry points against module- and class-level storage (shallow copies share their elements)',
    level_text='Static: U1-U4 hold for all images/metadata (they are about which keys '
               'are written under which guard, which object is stored into, and the '
               'algebra of the running mean/variance).  Byte-level HDF5/TIFF '
               'behaviour and 8/16-bit quantisation are not decided.',
    level_note='Trusted: DataArray.copy() is deep, the attrs setter copies; PyYAML '
               'dump/safe_load round-trip plain scalars; h5netcdf stores attrs '
               'verbatim.',
)

IO = 'holopy.core.io.io.'
MD = 'holopy.core.metadata.'


def run(check, prog):
    check.explanation = (
        'update_metadata, pack_attrs/unpack_attrs, make_coords and Accumulator are '
        'evaluated into terms; guards are evaluated under hypotheses, key tables '
        'are compared, recurrences are compared with Welford\'s formulas.')
    metadata_edit(check, prog)
    attrs_tables(check, prog)
    grid(check, prog)
    accumulator(check, prog)
    load_average(check, prog)
    save_dispatch(check, prog)
    tables_exact(check, prog)
    channel_selection(check, prog)
    tiff_scaling(check, prog)
    requested_channels(check, prog)
    depth_options(check, prog)
    load_unpacks(check, prog)
    # per-channel metadata given as a dictionary lands on the illumination axis
    from . import c06
    c06.channel_axis_first(check, prog)
    dimension_names(check, prog)
    description_probe(check, prog)
    tiff_description_name(check, prog)
    no_module_state(check, prog)
    dummy_marker(check, prog)
    export_leaves_image(check, prog)


def dummy_marker(check, prog):
    """U13: a two-colour image is written with a padded third channel, and the
    reader drops the plane named by `_dummy_channel` -- if the marker arrives.
    clean_concat keeps the metadata of the *first* array it is given, so the
    marker has to be stored on the array that leads the list: the one under the
    first key of the order in which the channels are concatenated."""
    from .common import list_builder
    q = 'holopy.core.io.vis.display_image'
    fd = prog.func(q)
    loc = prog.loc(q, fd)
    it = Interp(prog, max_depth=0)
    it.analyze(q)
    marks = []
    for e in it.effects:
        if e['kind'] == 'setitem' and e.get('key') == ('const', '_dummy_channel') and \
                e['base'][0] == 'attr' and e['base'][2] == 'attrs' and \
                e['base'][1][0] == 'idx':
            marks.append(e)
    check.need('stores of the padded-channel marker on one channel in display_image',
               len(marks), 1, 'U13-dummy-marker', 'display_image marker',
               'the plane added to a two-colour image is recorded', loc)
    orders = []
    for c in it.calls:
        if c['name'].endswith('clean_concat') and c['args']:
            lb = list_builder(c['args'][0])
            if lb is None:
                continue
            elt, itr, _ = lb
            first = None
            if itr[0] == 'const' and isinstance(itr[1], str) and itr[1]:
                first = ('const', itr[1][0])
            elif itr[0] in ('list', 'tuple') and itr[1] and itr[1][0][0] == 'const':
                first = itr[1][0]
            if first is not None and elt[0] == 'idx':
                orders.append(first)
    check.need('channel order of the concatenation in display_image', len(orders), 1,
               'U13-dummy-marker', 'display_image order',
               'the channels are concatenated in a fixed order of keys', loc)
    for e in marks:
        key = e['base'][1][2]
        check.require(bool(orders) and all(key == f for f in orders), 'U13-dummy-marker',
                      'display_image marker at line %d' % e['lineno'],
                      'the marker is stored on the channel that leads the concatenation '
                      '(clean_concat keeps the first array\'s metadata)', loc,
                      fail_detail='stored on channel %s, the list starts with %s: for a '
                      'green / red (or green / blue, blue / red) image the marker is '
                      'lost and the file reloads with a third, flat channel' % (
                          show(key), [show(f) for f in orders]))


def export_leaves_image(check, prog):
    """U14: exporting an image does not change it -- neither the caller's array
    nor, on the way, the values about to be written.  display_image prepares the
    array a TIFF is written from (scaling, a padded third channel for two-colour
    images, ...): every store it makes goes into storage it created itself.  A
    selection of a channel (`im[{axis: 0}]`) is a *view*: filled with the padding
    value without a copy, it overwrites the first colour channel."""
    n = 0
    for q in ('holopy.core.io.vis.display_image', IO + 'save_image'):
        try:
            fd = prog.func(q)
        except (KeyError, AnalysisError):
            continue
        n += 1
        loc = prog.loc(q, fd)
        arg = fd.args.args[1].arg if q.endswith('save_image') else fd.args.args[0].arg
        it = Interp(prog, max_depth=0)
        it.analyze(q)
        bad = []
        for e, st, rs in writes(it):
            # (the values: metadata stores go through `.attrs`, whose setter copies
            # the mapping -- trusted, see level_note -- and are U1's business)
            through_attrs = (e['kind'] == 'setattr' and e.get('attr') == 'attrs') or \
                any(x[0] == 'attr' and x[2] == 'attrs' for x in subterms(st))
            if through_attrs:
                continue
            if ('param', arg) in rs and ('maybe-fresh',) not in rs:
                bad.append('line %d `%s`' % (e['lineno'], e.get('target_src') or
                                             e.get('method', '')))
        check.require(not bad, 'U14-export-leaves-image', q.rpartition('.')[2],
                      'every store goes into storage the function created (copies), '
                      'none into the image or a view of it', loc,
                      fail_detail='%s store(s) into the image or a view of it: a '
                      'two-colour image comes back from a TIFF with its first channel '
                      'constant' % '; '.join(sorted(set(bad))[:3]))
    check.floor('U14 export functions analysed', n, 2)


STATELESS = (IO + 'pack_attrs', IO + 'unpack_attrs', IO + 'save', IO + 'save_image',
             IO + 'save_images', IO + 'load', IO + 'load_image', IO + 'load_average',
             IO + 'Accumulator.push', MD + 'update_metadata', MD + 'copy_metadata',
             MD + 'data_grid', MD + 'detector_grid',
             'holopy.inference.result.FitResult._serialize_as_dataset',
             'holopy.inference.result.FitResult._unserialize')


def no_module_state(check, prog):
    """U12: what one image's save / load / edit writes is its own: no store made
    by these functions lands in a module-level or class-level object (a table
    shared by every call would carry one image's metadata into the next
    image's file).  A shallow copy of a module-level container shares its
    elements (effects.element_roots)."""
    n = 0
    for q in STATELESS:
        try:
            fd = prog.func(q)
        except (KeyError, AnalysisError):
            continue
        n += 1
        loc = prog.loc(q, fd)
        it = Interp(prog, max_depth=2, module_values=False)
        try:
            it.analyze(q)
        except AnalysisError as e:
            check.note('U12-no-module-state: %s not evaluated (%s)' % (q, e))
            continue
        short = q.rpartition('.')[2]
        bad = []
        for e, st, rs in writes(it):
            shared = sorted(r for r in rs if r[0] in ('module', 'class')
                            and not str(r[1]).startswith(('numpy', 'warnings')))
            if shared:
                bad.append('%s:%d `%s` writes into %s' % (
                    e['module'].rpartition('/')[2], e['lineno'],
                    e.get('target_src') or e.get('method', ''),
                    ', '.join('%s-level %s' % (r[0], r[1]) for r in shared)))
        (check.bad if bad else check.ok)(
            'U12-no-module-state', short,
            '; '.join(sorted(set(bad))[:3]) if bad else
            'every store goes into an object of this call (or its arguments)', loc)
    check.floor('U12-no-module-state entry points', n, 12)


NAME_SINKS = ('transpose', 'rename', 'stack', 'unstack', 'expand_dims', 'swap_dims')
_FIXTURE = "def f(a):\n    return a.transpose(*np.roll(a.dims, -1))\n"


def _numpy_names(node, aliases=('np', 'numpy')):
    """the numpy calls inside `node` that are applied to an expression reading
    `.dims` (names of dimensions turned into a numpy string array)"""
    out = []

    def is_str_of(e, names):
        return isinstance(e, ast.Call) and isinstance(e.func, ast.Name) and \
            e.func.id == 'str' and len(e.args) == 1 and (
                names is None or (isinstance(e.args[0], ast.Name) and
                                  e.args[0].id in names))

    def visit(x):
        # str(<numpy string>) is a plain str again: whatever is computed inside
        # str(...), or iterated by a comprehension that yields str(element), is fine
        if is_str_of(x, None):
            return
        if isinstance(x, (ast.ListComp, ast.GeneratorExp)) and len(x.generators) == 1 \
                and isinstance(x.generators[0].target, ast.Name) and \
                is_str_of(x.elt, {x.generators[0].target.id}):
            return
        if isinstance(x, ast.Call) and isinstance(x.func, ast.Attribute) and \
                isinstance(x.func.value, ast.Name) and x.func.value.id in aliases and \
                any(isinstance(y, ast.Attribute) and y.attr == 'dims'
                    for a in x.args for y in ast.walk(a)):
            out.append(x)
        for k in ast.iter_child_nodes(x):
            visit(k)
    visit(node)
    return out


def dimension_names(check, prog):
    """U9: the names of dimensions stay plain Python strings.  An element of a
    numpy string array is a numpy.str_: as a dimension name it ends up in dims, in
    attrs['original_dims'] (make_subset_data) and from there in the yaml text of
    the attributes, where it is written with a python-object tag that the reader
    (yaml.safe_load) refuses.  Rule: no argument that names dimensions (transpose,
    rename, stack, ..., dims=) is computed by a numpy function from `.dims`."""
    def scan(tree, where):
        sites, bad = 0, []
        for x in ast.walk(tree):
            if not isinstance(x, ast.Call):
                continue
            named = []
            if isinstance(x.func, ast.Attribute) and x.func.attr in NAME_SINKS:
                named = list(x.args) + [k.value for k in x.keywords]
            named += [k.value for k in x.keywords if k.arg in ('dims', 'dim')]
            if not named:
                continue
            sites += 1
            for a in named:
                for c in _numpy_names(a):
                    bad.append((where, x.lineno, ast.unparse(c)))
        return sites, bad
    fs, fb = scan(ast.parse(_FIXTURE), 'fixture')
    if not fb:
        check.error('U9 fixture: the scanner no longer recognises '
                    'a.transpose(*np.roll(a.dims, -1))')
    total, bad = 0, []
    for name, m in sorted(prog.modules.items()):
        if '.tests' in name or '.third_party' in name:
            continue
        n, b = scan(m.tree, m.relpath)
        total += n
        bad += b
    check.floor('calls that name dimensions', total, 25)
    check.note('calls that name dimensions', '%d call sites in %d modules' % (
        total, len(prog.modules)))
    for where, line, src in bad:
        check.bad('U9-dimension-names-stay-str', '%s: %s' % (where, src),
                  'the dimension names pass through a numpy array and come back as '
                  'numpy.str_: a multi-channel hologram from calc_holo has such a '
                  'dimension, make_subset_data copies it into attrs["original_dims"], '
                  'pack_attrs writes it with a python-object tag, and hp.load of the '
                  'saved image or fit result raises ConstructorError',
                  '%s:%d' % (where, line))
    if not bad:
        check.ok('U9-dimension-names-stay-str', 'package',
                 'no dimension-naming argument is computed by numpy from .dims '
                 '(%d call sites)' % total)


def description_probe(check, prog):
    """U10: reading a raster image does not depend on what its description tag
    says.  load_image and load parse the TIFF ImageDescription (tag 270) as yaml
    to find HoloPy's own metadata; a description written by other software is
    free text and need not parse.  Rule: every yaml parse of a description tag
    sits in a try whose handlers catch the parser's errors (yaml.YAMLError or a
    base of it) -- in load_image the handler passes, in load it reports
    NoMetadata."""
    m = prog.modules['holopy.core.io.io']
    sites = []

    def handlers_of(path):
        out = []
        for node, field in path:
            if isinstance(node, ast.Try) and field == 'body':
                for h in node.handlers:
                    if h.type is None:
                        out.append('BaseException')
                    else:
                        ts = h.type.elts if isinstance(h.type, ast.Tuple) else [h.type]
                        out += [ast.unparse(t) for t in ts]
        return out

    def walk(node, path, fn):
        if isinstance(node, ast.FunctionDef):
            fn = node.name
        if isinstance(node, ast.Call) and ast.unparse(node.func) in (
                'yaml.safe_load', 'yaml.load') and any(
                isinstance(y, ast.Constant) and y.value == 270
                for a in node.args for y in ast.walk(a)):
            sites.append((fn, node.lineno, handlers_of(path)))
        for field, value in ast.iter_fields(node):
            kids = value if isinstance(value, list) else [value]
            for k in kids:
                if isinstance(k, ast.AST):
                    walk(k, path + [(node, field)], fn)
    walk(m.tree, [], None)
    check.need('yaml parses of the TIFF description tag', len(sites), 2,
               'U10-description-probe', 'holopy.core.io.io',
               'load_image and load look for HoloPy metadata in tag 270', m.relpath)
    good = ('yaml.YAMLError', 'YAMLError', 'Exception', 'BaseException',
            'yaml.error.YAMLError')
    for fn, line, hs in sites:
        check.require(any(h in good for h in hs), 'U10-description-probe',
                      '%s description parse' % fn,
                      'a description that is not valid yaml is handled (handlers: %s)'
                      % ', '.join(hs), '%s:%d' % (m.relpath, line),
                      fail_detail='the yaml parse of the description tag in %s is '
                      'guarded only by %s: an ordinary TIFF whose ImageDescription '
                      'holds free text of the acquisition software ("Exposure: 10 ms'
                      '\\nNote: gain: high", a leading tab, "@ 25 fps") raises '
                      'yaml.scanner.ScannerError and cannot be loaded' % (
                          fn, ', '.join(hs) or 'nothing'))


def tiff_description_name(check, prog):
    """U11: the description written into a TIFF carries the name the image is
    loaded under.  `load` reads `meta['name']` and treats a description without
    it as no metadata at all (spacing, optics, noise and the scaling needed to
    undo the quantisation are then lost), so `_save_im` must pack the attributes
    of the image *after* an unnamed image has been given its default name: the
    image handed to pack_attrs carries that store."""
    q = IO + '_save_im'
    fd = prog.func(q)
    loc = prog.loc(q, fd)
    im = sym(fd.args.args[1].arg)
    it = Interp(prog, max_depth=1, opaque=[IO + 'pack_attrs'])
    it.analyze(q)
    pk = [c for c in it.calls if c['name'] == IO + 'pack_attrs']
    check.need('pack_attrs calls in _save_im', len(pk), 1, 'U11-tiff-description-name',
               '_save_im packs the metadata', 'the TIFF description is built from '
               'pack_attrs(image)', loc)
    for c in pk:
        a = call_args(prog, c).get('a')
        named = a is not None and any(
            x[0] == 'upd' and x[2] == 'attr' and x[3] == 'name' and
            any(y == im for y in subterms(x[1])) for x in subterms(a))
        reads_name = any(y == ('attr', im, 'name') for e in it.effects
                         if e['kind'] == 'setattr' and e.get('attr') == 'name'
                         for t, p in e['cond'] for y in subterms(t))
        check.require(named, 'U11-tiff-description-name', '_save_im description',
                      'the image whose attributes are packed already has its '
                      'default name', loc,
                      fail_detail='pack_attrs receives %s: for an unnamed image '
                      '(holo / bg of differently named operands) the description '
                      'is written without a name entry, and hp.load of the file '
                      'raises NoMetadata -- spacing, optics and the stored '
                      'scaling are lost' % show(a)[:80])


def load_unpacks(check, prog):
    """U8: what `load` hands back carries *unpacked* metadata: on the HDF5 path every
    data variable's attrs are replaced by unpack_attrs of themselves, on the TIFF
    path the image's attrs are unpack_attrs of the parsed description -- and the
    image is read with the name and spacing stored in that description, all
    colour planes."""
    q = IO + 'load'
    fd = prog.func(q)
    loc = prog.loc(q, fd)
    it = Interp(prog, max_depth=1, opaque=[IO + 'load_image', IO + 'unpack_attrs'])
    it.analyze(q)
    st = [e for e in it.effects if e['kind'] == 'setattr' and e['attr'] == 'attrs']
    hdf = tif = None
    for e in st:
        v = e['value']
        while v[0] == 'copy':
            v = v[-1]
        if not (v[0] == 'call' and v[1] == IO + 'unpack_attrs' and len(v[2]) == 1):
            continue
        arg = v[2][0]
        if arg[0] == 'attr' and arg[2] == 'attrs':
            # the variable's own attrs, for every variable of the loop
            own = arg[1]
            base = e['base']
            if own == base and any(t[0] == 'loop-iter' for t, p in e['cond']):
                hdf = e
        elif arg[0] == 'call' and arg[1] == 'yaml.safe_load':
            tif = (e, arg)
    check.require(hdf is not None, 'U8-load-unpacks', 'load (HDF5)',
                  'for every data variable: attrs := unpack_attrs(its attrs)', loc,
                  fail_detail='no such store: the loaded array keeps the packed text '
                  'form of its metadata')
    check.require(tif is not None, 'U8-load-unpacks', 'load (TIFF with metadata)',
                  'attrs := unpack_attrs(the parsed image description)', loc,
                  fail_detail='no such store: the reloaded image has no metadata')
    li = [c for c in it.calls if c['name'] == IO + 'load_image']
    ok = len(li) == 1 and tif is not None
    detail = ''
    if ok:
        meta = tif[1]
        c = li[0]
        kws = dict(c['kwargs'])
        sp = c['args'][1] if len(c['args']) > 1 else kws.get('spacing')
        ok = sp == intern(('idx', meta, ('const', 'spacing'))) and \
            kws.get('name', c['args'][2] if len(c['args']) > 2 else None) == \
            intern(('idx', meta, ('const', 'name'))) and \
            kws.get('channel') == ('const', 'all')
        detail = 'load_image(%s; %s)' % (
            [show(a)[-40:] for a in c['args']], [(k, show(v)[-40:]) for k, v in
                                                 c['kwargs']])
    check.require(ok, 'U8-load-unpacks', 'load (TIFF) raster',
                  'the raster is read with the stored spacing and name, all planes', loc,
                  fail_detail=detail)


def metadata_edit(check, prog):
    q = MD + 'update_metadata'
    fd = prog.func(q)
    loc = prog.loc(q, fd)
    it = Interp(prog, max_depth=1, opaque=[MD + 'dict_to_array', MD + 'to_vector',
                                           'holopy.core.utils.updated'])
    res = it.analyze(q)
    bad = []
    n = 0
    for e, st, rs in writes(it):
        n += 1
        if any(r == ('param', 'a') for r in rs):
            bad.append(e)
    check.require(not bad and n >= 1, 'U1-new-image', 'update_metadata',
                  'every store goes into the copy (%d stores)' % n, loc,
                  fail_detail='stores into the input image: %s' % [
                      (e.get('target_src'), e['lineno']) for e in bad])
    v = res.ret
    root = v
    while root[0] == 'upd':
        root = root[1]
    while root[0] == 'ite':
        root = root[2]
        while root[0] == 'upd':
            root = root[1]
    ok = root == ('call', ('attr', sym('a'), 'copy'), (), ())
    check.require(ok, 'U1-new-image', 'update_metadata result',
                  'the result is built on a.copy()', loc,
                  fail_detail='result is rooted at %s' % show(root)[:100])
    # the edit itself: attrs := updated(copy.attrs, {field: argument of that name})
    fd_u = prog.func(MD + 'update_metadata')
    a_ = sym(fd_u.args.args[0].arg)
    cp = intern(('call', ('attr', a_, 'copy'), (), ()))
    st = [e for e in it.effects if e['kind'] == 'setattr' and e['attr'] == 'attrs']
    ok = len(st) == 1 and st[0]['base'] == cp and not st[0]['cond']
    detail = '%d stores to .attrs' % len(st)
    if ok:
        val = st[0]['value']
        val = val[2] if val[0] == 'copy' else val
        ok = val[0] == 'call' and val[1] == 'holopy.core.utils.updated' and \
            len(val[2]) == 2 and val[2][0] == ('attr', cp, 'attrs') and \
            val[2][1][0] == 'dict' and not val[3]
        detail = 'attrs := %s' % show(val)[:160]
        if ok:
            d = {k[1]: x for k, x in val[2][1][1] if k[0] == 'const'}
            fields = ['medium_index', 'illum_wavelen', 'illum_polarization', 'noise_sd']
            ok = sorted(d) == sorted(fields) and len(val[2][1][1]) == 4
            for f in fields if ok else []:
                x = d[f]
                arg = sym(f)
                if x[0] == 'call' and x[1] == MD + 'dict_to_array':
                    # dict_to_array(schema <- the image, inval <- the argument)
                    okx = len(x[2]) == 2 and x[2][0] == a_
                    x = x[2][1] if okx else x
                else:
                    okx = f == 'medium_index'
                if f == 'illum_polarization':
                    okx = okx and x == ('call', MD + 'to_vector', (arg,), ())
                else:
                    okx = okx and x == arg
                if not okx:
                    ok = False
                    detail = 'field %s is set from %s' % (f, show(d[f])[:100])
    check.require(ok, 'U1-only-named-fields', 'update_metadata fields',
                  'attrs of the copy := updated(old attrs, {medium_index, illum_wavelen, '
                  'illum_polarization (normalised), noise_sd <- the argument of the '
                  'same name})', loc, fail_detail=detail)
    fill = [e for e in it.effects if e['kind'] == 'setitem' and e['value'] == NONE]
    ok = len(fill) == 4 and all(
        len(e['cond']) == 1 and e['cond'][0][1] is False and
        e['cond'][0][0][0] == 'call' and e['cond'][0][0][1] == 'hasattr' and
        e['cond'][0][0][2][1] == e['key'] for e in fill) and \
        sorted(e['key'][1] for e in fill) == sorted(
            ['medium_index', 'illum_wavelen', 'illum_polarization', 'noise_sd'])
    check.require(ok, 'U1-only-named-fields', 'update_metadata missing fields',
                  'a field the image lacks altogether is created as None -- and only '
                  'then', loc, fail_detail='fills: %s' % [
                      (show(e['key']), [(show(t)[:40], p) for t, p in e['cond']])
                      for e in fill])
    # updated(): only non-None values replace existing ones
    q = 'holopy.core.utils.updated'
    fd = prog.func(q)
    it = Interp(prog, max_depth=1)
    res = it.analyze(q)
    st = [e for e in it.effects if e['kind'] == 'setitem']
    ok = len(st) == 1
    if ok:
        val = st[0]['value']

        def hyp_set(t):
            if t == ('cmp', 'is not', val, NONE):
                return True
            if t == ('cmp', 'is', val, NONE):
                return False
            return None

        def hyp_none(t):
            if t == ('cmp', 'is not', val, NONE):
                return False
            if t == ('cmp', 'is', val, NONE):
                return True
            if t == sym('filter_none'):
                return True
            return None
        conds = [(t, p) for t, p in st[0]['cond'] if t[0] != 'loop-iter']

        def ev(h):
            vals = []
            for t, p in conds:
                x = eval3(t, h)
                vals.append(None if x is None else (x if p else not x))
            if any(x is False for x in vals):
                return False
            return True if all(x is True for x in vals) else None
        ok = ev(hyp_set) is True and ev(hyp_none) is False
        rootd = st[0]['base']
        if rootd[0] == 'phi':
            lp = it.loops.get(rootd[2])
            rootd = lp['vars'][rootd[1]][0] if lp and rootd[1] in lp['vars'] else rootd
        ok = ok and rootd == ('copy', 'shallow', sym('d'))
    check.require(ok, 'U1-only-named-fields', 'updated',
                  'a key is replaced iff its new value is not None, in a copy of the '
                  'dict', prog.loc(q, fd))
    c01.f3_vectors(check, prog, Canon())
    c01.f6_copy_metadata(check, prog)


def attrs_tables(check, prog):
    q = IO + 'pack_attrs'
    fd = prog.func(q)
    loc = prog.loc(q, fd)
    it = Interp(prog, max_depth=1, opaque=[MD + 'get_spacing',
                                           'holopy.core.utils.ensure_array'])
    res = it.analyze(q)
    stores = [e for e in it.effects if e['kind'] == 'setitem']
    def level(b):
        # nesting depth of the container a store goes into: 0 = the packed
        # mapping itself, 1 = its coordinate table, 2 = one attribute's entry
        return 1 + level(b[1]) if b[0] == 'idx' else 0

    def in_coords(b):
        while b[0] == 'idx' and b[1][0] == 'idx':
            b = b[1]
        return b[0] == 'idx' and b[2] == ('const', '_attr_coords')
    top = [e for e in stores if level(e['base']) == 0 and e['key'][0] != 'const']
    plain = [e for e in top if calls_in(e['value'], 'yaml.dump')]
    arrays = [e for e in top if not calls_in(e['value'], 'yaml.dump')]
    check.need('plain-attribute stores in pack_attrs', len(plain), 1,
               'U2-writer-keeps-non-None', 'pack_attrs plain attributes',
               'plain (non-array) attributes are written as YAML text', loc,
               missing='no store of yaml.dump(val) into the packed mapping: plain '
               'metadata (medium index, wavelength, noise level) is not saved')
    for e in plain:
        dumped = calls_in(e['value'], 'yaml.dump')[0][2][0]

        def hyp(t):
            if t == ('cmp', 'is not', dumped, NONE):
                return True
            if t == ('cmp', 'is', dumped, NONE):
                return False
            if t[0] == 'call' and t[1] == 'isinstance':
                return False
            return None
        vals = []
        for t, p in e['cond']:
            if t[0] == 'loop-iter':
                continue
            x = eval3(t, hyp)
            vals.append(None if x is None else (x if p else not x))
        verdict = False if any(x is False for x in vals) else (
            True if all(x is True for x in vals) else None)
        check.require(verdict is True, 'U2-writer-keeps-non-None', 'pack_attrs',
                      'every plain attribute that is not None is written', loc,
                      fail_detail='the guard of new_attrs[attr] = yaml.dump(val) is not '
                      'implied by "val is not None" (evaluates to %r): falsy metadata '
                      'such as noise_sd = 0 or a channel index 0 is dropped on save' % (
                          verdict,))
    # coordinate table
    ref = [e for e in stores if level(e['base']) == 1 and in_coords(e['base'])]
    vals = {show(e['value']) for e in ref}
    ok = any(e['value'] == FALSE for e in ref) and any(e['value'] == ('dict', ())
                                                       for e in ref)
    check.require(ok, 'U2-coordinate-table', 'pack_attrs',
                  'attr_coords[attr] is False for plain values and a {dim: values} '
                  'table for labelled arrays', loc, fail_detail='stores %s' % sorted(vals))
    dimst = [e for e in stores if level(e['base']) == 2 and in_coords(e['base'])]
    ok = len(dimst) == 1 and dimst[0]['value'][0] == 'attr' and dimst[0]['value'][2] == 'values'
    check.require(ok, 'U2-coordinate-table', 'pack_attrs dims',
                  'each dimension of a labelled attribute is stored with its '
                  'coordinate values', loc)
    check.require(len(arrays) == 1 and bool(calls_in(arrays[0]['value'], 'list')),
                  'U2-coordinate-table', 'pack_attrs array values',
                  'labelled attribute values are stored as a list', loc)
    # the table is written as YAML text and the reader takes each array's dims
    # (and the shape its value buffer is reshaped to) from the *order* of the
    # table's keys: the text must keep the order in which the dims were entered
    # (val.dims), which PyYAML's default sort_keys=True does not -- a labelled
    # attribute with dims ('vector', 'illumination') comes back transposed over
    # an untransposed buffer
    tab = [e for e in stores if level(e['base']) == 0 and
           e['key'] in (('const', '_attr_coords'),
                        intern(('global', 'holopy.core.io.io.attr_coords'))) and
           calls_in(e['value'], 'yaml.dump')]
    okt = len(tab) == 1
    if okt:
        d = calls_in(tab[0]['value'], 'yaml.dump')[0]
        okt = kw(d, 'sort_keys') == FALSE
    check.require(okt, 'U2-coordinate-table', 'pack_attrs table order',
                  'the coordinate table is dumped with its keys in insertion order '
                  '(sort_keys=False): the reader rebuilds dims and shape from that '
                  'order', loc,
                  fail_detail='the table is dumped with sorted keys: an attribute whose '
                  'dims are not in alphabetical order (e.g. a polarisation given as '
                  "(vector, illumination)) is reshaped with the wrong axes on load")
    side_written = set()
    for e in stores:
        k = e['key']
        if level(e['base']) == 0 and k[0] == 'const':
            side_written.add(k[1])
    # unpacker
    q2 = IO + 'unpack_attrs'
    fd2 = prog.func(q2)
    loc2 = prog.loc(q2, fd2)
    it2 = Interp(prog, max_depth=1, opaque=['holopy.core.utils.dict_without'])
    res2 = it2.analyze(q2)
    ign = None
    dw = [c for c in it2.calls if c['name'] == 'holopy.core.utils.dict_without']
    if len(dw) == 1 and len(dw[0]['args']) == 2:
        ign = const_list(dw[0]['args'][1])
    check.require(ign is not None, 'U2-reader-table', 'unpack_attrs ignore list',
                  'literal list of side-channel keys', loc2)
    ign = ign or []
    st2 = split_value_ite([e for e in it2.effects if e['kind'] == 'setitem' and
                           level(e['base']) == 0 and e['key'][0] != 'const'])
    kinds = set()
    for e in st2:
        v = e['value']
        if v[0] == 'call' and v[1] == 'xarray.DataArray':
            co = kw(v, 'coords')
            dm = kw(v, 'dims')
            if co is not None and co[0] == 'idx' and dm is not None and \
                    calls_in(dm, 'keys'):
                kinds.add('array')
        elif v[0] == 'call' and v[1] == 'yaml.safe_load':
            kinds.add('plain')
        elif v == NONE:
            kinds.add('none')
    check.require(kinds == {'array', 'plain', 'none'}, 'U2-reader-table', 'unpack_attrs',
                  'labelled arrays are rebuilt with their stored coordinates, plain '
                  'values are parsed, unwritten (None) values come back as None', loc2,
                  fail_detail='reader branches: %s' % sorted(kinds))
    # side-channel keys: pack_attrs + vis.display_image write, load reads / ignore list
    vis = prog.module('holopy.core.io.vis')
    for n in ast.walk(vis.tree):
        if isinstance(n, ast.Subscript) and isinstance(n.ctx, ast.Store) and \
                isinstance(n.value, ast.Attribute) and n.value.attr == 'attrs' and \
                isinstance(n.slice, ast.Constant):
            side_written.add(n.slice.value)
    side_written.discard('_attr_coords')
    attr_key = intern(('global', 'holopy.core.io.io.attr_coords'))
    iom = prog.module('holopy.core.io.io')
    loadfd = prog.func(IO + 'load')
    read_in_load = set()
    # the locals that hold the parsed image description
    parsed = set()
    for n in ast.walk(loadfd):
        if isinstance(n, ast.Assign) and isinstance(n.value, ast.Call) and \
                ast.unparse(n.value.func).endswith('safe_load'):
            parsed |= set(t.id for t in n.targets if isinstance(t, ast.Name))
    grew = True
    while grew:                 # ... and plain copies of them
        grew = False
        for n in ast.walk(loadfd):
            if isinstance(n, ast.Assign) and isinstance(n.value, ast.Name) and \
                    n.value.id in parsed:
                for t in n.targets:
                    if isinstance(t, ast.Name) and t.id not in parsed:
                        parsed.add(t.id)
                        grew = True
    check.floor('locals of load() holding the parsed description', len(parsed), 1)
    for n in ast.walk(loadfd):
        if isinstance(n, ast.Subscript) and isinstance(n.value, ast.Name) and \
                n.value.id in parsed and isinstance(n.slice, ast.Constant):
            read_in_load.add(n.slice.value)
        if isinstance(n, ast.Compare) and isinstance(n.left, ast.Constant) and \
                isinstance(n.comparators[0], ast.Name) and \
                n.comparators[0].id in parsed:
            read_in_load.add(n.left.value)
    check.floor('side-channel keys written', len(side_written), 4)
    for k in sorted(side_written):
        check.require(k in ign, 'U2-side-keys', 'side key %r ignored by unpack_attrs' % k,
                      'a side-channel key is not mistaken for image metadata', loc2,
                      fail_detail='%r is written next to the metadata but unpack_attrs '
                      'does not ignore it' % k)
        check.require(k in read_in_load, 'U2-side-keys', 'side key %r read by load' % k,
                      'the TIFF reader consumes it', prog.loc(IO + 'load', loadfd),
                      fail_detail='%r is written by the TIFF writer but never read by '
                      'load()' % k)
    for k in sorted(ign):
        check.require(k in side_written, 'U2-side-keys', 'ignored key %r is written' % k,
                      'the ignore list has no stale entries', loc2)
    # save(): HDF5 path packs the attrs of a copy
    q3 = IO + 'save'
    fd3 = prog.func(q3)
    it3 = Interp(prog, max_depth=1, opaque=[IO + 'pack_attrs', IO + 'save_image',
                                            IO + 'default_extension',
                                            'holopy.core.io.serialize.save'])
    res3 = it3.analyze(q3)
    badw = [e for e, st, rs in writes(it3) if any(r == ('param', 'obj') for r in rs)]
    check.require(not badw, 'U2-save-does-not-modify', 'save',
                  'saving packs the attrs of a copy, the image itself is untouched',
                  prog.loc(q3, fd3), fail_detail='save() stores into its argument: %s' % [
                      (e.get('target_src'), e['lineno']) for e in badw])


def grid(check, prog):
    q = MD + 'make_coords'
    fd = prog.func(q)
    loc = prog.loc(q, fd)

    def decide(t):
        # per-axis shape and spacing here; scalar spacings are covered end to
        # end through data_grid below (a scalar's "component k" is the scalar:
        # np.repeat(s, 2)[k] folds to s[k // 2])
        if t[0] == 'call' and t[1] == 'numpy.isscalar':
            return False
        return None
    it = Interp(prog, max_depth=1, decide=decide, opaque=['holopy.core.utils.ensure_array'])
    res = it.analyze(q)
    v = res.ret
    canon = Canon()
    ok = v[0] == 'dict'
    if ok:
        d = {k[1]: val for k, val in v[1]}
        env = {'shape': sym('shape'), 'spacing': sym('spacing')}
        wx = expr_term(prog, 'np.arange(shape[1]) * spacing[0]', env)
        wy = expr_term(prog, 'np.arange(shape[2]) * spacing[1]', env)
        check.require('x' in d and canon.equal(d['x'], wx), 'U3-pixel-grid', 'make_coords x',
                      'x_i = i * spacing[0] for i < shape[1]', loc,
                      fail_detail='x = %s' % (canon.show(d['x'])[:120] if 'x' in d else None))
        check.require('y' in d and canon.equal(d['y'], wy), 'U3-pixel-grid', 'make_coords y',
                      'y_j = j * spacing[1] for j < shape[2]', loc,
                      fail_detail='y = %s' % (canon.show(d['y'])[:120] if 'y' in d else None))
    else:
        check.bad('U3-pixel-grid', 'make_coords', 'does not return a coordinate dict: %s'
                  % show(v)[:120], loc)
    q = MD + 'data_grid'
    fd = prog.func(q)
    it = Interp(prog, max_depth=1, opaque=[MD + 'make_coords', MD + 'update_metadata'])
    res = it.analyze(q)
    mc = [c for c in it.calls if c['name'] == MD + 'make_coords']
    ok = len(mc) == 1
    if ok:
        a = mc[0]['args']
        sp = a[1]
        ok = any(x == sym('spacing') for x in subterms(sp)) and \
            any(x == ('attr', y, 'shape') for x in subterms(a[0]) for y in [x[1]]
                if x[0] == 'attr' and x[2] == 'shape')
    check.require(ok, 'U3-pixel-grid', 'data_grid',
                  'coordinates come from make_coords(arr.shape, spacing, z)',
                  prog.loc(q, fd))
    # end to end, for scalar and pair spacings, with and without the added z axis
    import itertools
    P = {a.arg: sym(a.arg) for a in fd.args.args}
    rows = 0
    badrow = None
    for scalar_sp, scalar_z in itertools.product((True, False), repeat=2):
        def decide2(t, scalar_sp=scalar_sp, scalar_z=scalar_z):
            if t[0] == 'call' and t[1] == 'numpy.isscalar' and len(t[2]) == 1:
                a0 = t[2][0]
                if a0 == P['z']:
                    return scalar_z
                if any(x == P['spacing'] for x in subterms(a0)):
                    return scalar_sp
                if any(x[0] == 'attr' and x[2] == 'shape' for x in subterms(a0)):
                    return False
            if t[0] == 'cmp' and t[2] == P['spacing'] and t[3] == NONE:
                return t[1] == 'is not'
            if t[0] == 'cmp' and t[2] == P['extra_dims'] and t[3] == NONE:
                return t[1] == 'is'
            if t[0] == 'cmp' and t[2] == ('call', 'len', (P['arr'],), ()):
                return True
            if t[0] == 'cmp' and t[1] == '==' and (
                    ('attr', P['arr'], 'ndim') in (t[2], t[3]) or
                    ('call', 'numpy.ndim', (P['arr'],), ()) in (t[2], t[3])):
                # (the array has its x, y [and extra] axes and no z axis yet)
                return True
            return None
        it2 = Interp(prog, max_depth=2, decide=decide2, opaque=[
            MD + 'update_metadata', 'holopy.core.utils.ensure_array'])
        r2 = it2.analyze(q)
        da2 = [c for c in it2.calls if c['name'] == 'xarray.DataArray']
        if len(da2) != 1:
            badrow = 'no single DataArray construction'
            break
        co = kw_of(da2[0], 'coords')
        arr_t = da2[0]['args'][0] if da2[0]['args'] else None
        want_arr = intern(('call', 'numpy.expand_dims', (P['arr'],),
                           (('axis', num(0)),))) if scalar_z else P['arr']
        if co is None or co[0] != 'dict' or arr_t != want_arr:
            badrow = 'array %s, coords %s' % (show(arr_t)[:60] if arr_t else None,
                                              show(co)[:80] if co else None)
            break
        d = {k[1]: x for k, x in co[1] if k[0] == 'const'}
        env = {'A': want_arr, 'spacing': P['spacing']}
        wx = expr_term(prog, 'np.arange(A.shape[1]) * spacing[0]', env)
        wy = expr_term(prog, 'np.arange(A.shape[2]) * spacing[%d]' % (
            0 if scalar_sp else 1), env)
        rows += 1
        if not ('x' in d and 'y' in d and canon.equal(d['x'], wx) and
                canon.equal(d['y'], wy)):
            badrow = '%s spacing%s: x = %s, y = %s' % (
                'scalar' if scalar_sp else 'pair', ', scalar z' if scalar_z else '',
                canon.show(d.get('x', NONE))[:80], canon.show(d.get('y', NONE))[:80])
            break
    check.require(badrow is None, 'U3-pixel-grid', 'data_grid end to end',
                  'for scalar and per-axis spacings, with and without the added z '
                  'axis: x_i = i * s_x over axis 1, y_j = j * s_y over axis 2 of the '
                  'array that is stored (%d rows)' % rows, prog.loc(q, fd),
                  fail_detail=badrow)
    # whether the array still lacks its z axis is a matter of its rank against the
    # number of axes it is said to have (x, y and the extra dimensions) -- not of
    # how many rows it has: a one-row colour image (1, N, channels) is an image
    # without a z axis like any other
    arrt = da2[0]['args'][0] if 'da2' in dir() and da2 and da2[0]['args'] else None
    it3 = Interp(prog, max_depth=1, opaque=[MD + 'make_coords', MD + 'update_metadata',
                                            'holopy.core.utils.ensure_array'])
    it3.analyze(q)
    da3 = [c for c in it3.calls if c['name'] == 'xarray.DataArray']
    conds = [x[1] for c in da3 if c['args'] for x in subterms(c['args'][0])
             if x[0] == 'ite' and any(y[0] == 'call' and y[1] == 'numpy.expand_dims'
                                      for y in subterms(x[2]))]
    by_rows = [c for c in conds if any(y == ('call', 'len', (P['arr'],), ())
                                       for y in subterms(c))]
    by_rank = [c for c in conds if any(y in (('attr', P['arr'], 'ndim'),
                                             ('call', 'numpy.ndim', (P['arr'],), ()))
                                       for y in subterms(c))
               and any(y == P['extra_dims'] for y in subterms(c))]
    check.require(bool(conds) and not by_rows and len(by_rank) == len(conds),
                  'U3-z-axis-by-rank', 'data_grid z axis',
                  'the z axis is added when the rank is 2 + the number of extra '
                  'dimensions', prog.loc(q, fd),
                  fail_detail='decided by %s: detector_grid((1, N), s, extra_dims={'
                  "'illumination': [...]}) and a one-row colour raster have one row, "
                  'are taken for arrays that already have a z axis, and fail with '
                  '"different number of dimensions"' % [show(c)[:80] for c in conds][:1])
    da = [c for c in it.calls if c['name'] == 'xarray.DataArray']
    ok = len(da) == 1 and kw_of(da[0], 'dims') is not None
    if ok:
        dims = kw_of(da[0], 'dims')
        ok = any(x == ('list', (('const', 'z'), ('const', 'x'), ('const', 'y')))
                 for x in subterms(dims))
    check.require(ok, 'U3-pixel-grid', 'data_grid dims',
                  "array axes are labelled ['z', 'x', 'y'] + extra dims", prog.loc(q, fd))


def kw_of(callrec, name):
    return dict(callrec['kwargs']).get(name)


def accumulator(check, prog):
    AQ = IO + 'Accumulator'
    canon = Canon()
    q = AQ + '.push'
    fd = prog.func(q)
    loc = prog.loc(q, fd)

    def first(t):
        if t[0] == 'cmp' and t[1] == '==' and t[3] == num(1):
            return False
        return None
    it = Interp(prog, max_depth=1, decide=first)
    res = it.analyze(q)
    env = res.returns[0].env
    s = env['self']
    M = intern(('attr', sym('self'), '_running_mean'))
    S = intern(('attr', sym('self'), '_running_var'))
    n0 = intern(('attr', sym('self'), '_n'))
    fr = None
    from hpstatic.interp import Frame
    fr = Frame(prog.module_of(q), AQ, AQ, 'self', 0, q)
    n1 = it.getattr_term(s, '_n', fr, ())
    M1 = it.getattr_term(s, '_running_mean', fr, ())
    S1 = it.getattr_term(s, '_running_var', fr, ())
    x = sym('x')
    ev = {'M': M, 'S': S, 'n': intern(('bin', '+', n0, num(1))), 'x': x}
    check.require(canon.equal(n1, ev['n']), 'U4-welford', 'Accumulator.push count',
                  'n <- n + 1', loc, fail_detail='n becomes %s' % canon.show(n1))
    wM = expr_term(prog, 'M + (x - M) / n', ev)
    wS = expr_term(prog, 'S + (x - M) * (x - (M + (x - M) / n))', ev)
    check.require(canon.equal(M1, wM), 'U4-welford', 'Accumulator.push mean',
                  'M_n = M_{n-1} + (x - M_{n-1}) / n', loc,
                  fail_detail='mean becomes %s' % canon.show(M1)[:200])
    check.require(canon.equal(S1, wS), 'U4-welford', 'Accumulator.push variance',
                  'S_n = S_{n-1} + (x - M_{n-1}) (x - M_n), using the mean before its '
                  'own update', loc,
                  fail_detail='running sum of squares becomes %s; Welford gives %s' % (
                      canon.show(S1)[:200], canon.show(wS)[:200]))

    def firstT(t):
        if t[0] == 'cmp' and t[1] == '==' and t[3] == num(1):
            return True
        return None
    it = Interp(prog, max_depth=1, decide=firstT)
    res = it.analyze(q)
    s = res.returns[0].env['self']
    M1 = it.getattr_term(s, '_running_mean', fr, ())
    S1 = it.getattr_term(s, '_running_var', fr, ())
    check.require(canon.equal(M1, x) and canon.is_zero(S1) and S1 != num(0) and
                  M1 != x, 'U4-welford', 'Accumulator.push first',
                  'first push: S = 0 * x (new array), M = S + x (new array, not x '
                  'itself)', loc,
                  fail_detail='first push stores M = %s, S = %s: the accumulator would '
                  'alias (and later modify in place) the pushed image' % (
                      show(M1)[:60], show(S1)[:60]))
    # queries are pure
    for m in ('mean', 'std'):
        q = AQ + '.' + m
        fd = prog.func(q)
        it = Interp(prog, max_depth=1)
        res = it.analyze(q)
        bad = [e for e, st, rs in writes(it) if any(r == ('param', 'self') for r in rs)]
        check.require(not bad, 'U4-query-is-pure', 'Accumulator.' + m,
                      'the query does not modify the running sums', prog.loc(q, fd),
                      fail_detail='Accumulator.%s modifies %s in place: a second query, '
                      'or a push after a query, gives wrong values' % (
                          m, [e.get('target_src') or show(e.get('target'))[:40]
                              for e in bad]))
    q = AQ + '.std'
    it = Interp(prog, max_depth=1)
    res = it.analyze(q)
    vals = [o.value for o in res.returns if o.value != NONE]
    w = expr_term(prog, 'np.sqrt(S / n)', {'S': S, 'n': n0})
    check.require(len(vals) == 1 and canon.equal(vals[0], w), 'U4-welford',
                  'Accumulator.std', 'std = sqrt(S / n)', prog.loc(q, prog.func(q)),
                  fail_detail='std returns %s' % [canon.show(v)[:80] for v in vals])
    q = AQ + '.mean'
    it = Interp(prog, max_depth=1)
    res = it.analyze(q)
    ok = any(x2 == M for x2 in subterms(res.ret))
    check.require(ok, 'U4-welford', 'Accumulator.mean', 'mean() returns the running mean',
                  prog.loc(q, prog.func(q)))


def load_average(check, prog):
    q = IO + 'load_average'
    fd = prog.func(q)
    loc = prog.loc(q, fd)
    it = Interp(prog, max_depth=1, opaque=[
        IO + 'load_image', MD + 'get_spacing', MD + 'copy_metadata',
        MD + 'update_metadata', IO + 'Accumulator.push', IO + 'Accumulator.mean',
        IO + 'Accumulator.std', IO + 'Accumulator.__init__'], inline_new=False)
    res = it.analyze(q)
    um = [c for c in it.calls if c['name'] == MD + 'update_metadata']
    ok = len(um) == 1
    canon = Canon(atom_rewrite=atom_rewrite)
    if ok:
        noise = um[0]['args'][4] if len(um[0]['args']) > 4 else dict(um[0]['kwargs']).get(
            'noise_sd')
        # relative noise = mean over x, y, z of std / mean
        cand = [x for x in subterms(noise) if x[0] == 'call' and isinstance(x[1], tuple)
                and x[1][0] == 'attr' and x[1][2] == 'mean' and x[1][1][0] == 'bin'
                and x[1][1][1] == '/']
        ok = bool(cand)
        if ok:
            num_t, den_t = cand[0][1][1][2], cand[0][1][1][3]
            ok = bool(calls_in(num_t, 'std')) and bool(calls_in(den_t, 'mean')) and \
                cand[0][2] and cand[0][2][0] == ('list', (('const', 'x'), ('const', 'y'),
                                                         ('const', 'z')))
    check.require(ok, 'U4-relative-noise', 'load_average noise_sd',
                  'noise_sd = mean over pixels of std / mean', loc)
    wiring_load_average(check, prog, it, res, fd, loc)
    # crop: each axis uses its own spacing
    isel = [x for x in subterms(res.ret) if x[0] == 'call' and isinstance(x[1], tuple)
            and x[1][0] == 'attr' and x[1][2] == 'isel']
    for c in it.calls:
        pass
    found = 0
    undecided = []
    for x in isel:
        kws = dict(x[3])
        for ax, i in (('x', 0), ('y', 1)):
            if ax not in kws:
                continue
            found += 1
            t = kws[ax]
            divs = [y for y in subterms(t) if y[0] == 'bin' and y[1] == '/']
            good = False
            why = show(t)[:160]
            for dv in divs:
                numer, denom = dv[2], dv[3]
                if any(z == ('idx', sym('refimg'), ('const', ax)) for z in subterms(numer)):
                    # denominator must be component i of the (2-vector) spacing
                    d = denom
                    comps = [z for z in subterms(d) if z[0] == 'idx' and z[2] == num(i)]
                    other = [z for z in subterms(d) if z[0] == 'idx' and
                             z[2] == num(1 - i)]
                    if d[0] == 'idx' and d[2] == num(i):
                        good = True
                    elif d[0] == 'idx' and d[2] == num(1 - i):
                        good = False
                        why = '%s extent divides by spacing[%d]' % (ax, 1 - i)
                    else:
                        undecided.append((ax, show(d)[:100]))
                        good = None
            if good is None:
                continue
            # coordinate / spacing is a float such as 2.9999999: it must be rounded
            # to the nearest pixel before it becomes an integer index
            ROUND = ('numpy.around', 'numpy.round', 'numpy.rint', 'round', 'numpy.round_')
            for dv in divs:
                if not any(z == ('idx', sym('refimg'), ('const', ax))
                           for z in subterms(dv[2])):
                    continue
                rounded = any(y[0] == 'call' and y[1] in ROUND and y[2] and y[2][0] == dv
                              for y in subterms(t))
                check.require(rounded, 'U4-crop-rounding', 'load_average crop ' + ax,
                              'pixel index = round(reference coordinate / spacing)',
                              loc, fail_detail='%s is converted to an index without '
                              'rounding: a quotient just below an integer is truncated '
                              'and the crop is shifted by one pixel' % show(dv)[:100])
            check.require(bool(good), 'U4-crop-spacing', 'load_average crop ' + ax,
                          'the %s extent of the reference image is converted to pixels '
                          'with the %s spacing' % (ax, ax), loc, fail_detail=why)
    for ax, d in undecided:
        check.error('load_average: cannot resolve which spacing component divides the '
                    '%s extent (%s)' % (ax, d))
    check.floor('crop extents in load_average', found, 2)


def save_dispatch(check, prog):
    """save(): TIFF names go to save_image, objects with their own saver use it,
    images are written to HDF5 *with their packed attrs*, everything else is
    serialised as text."""
    q = IO + 'save'
    fd = prog.func(q)
    loc = prog.loc(q, fd)
    outf, obj = [sym(a.arg) for a in fd.args.args[:2]]
    it = Interp(prog, max_depth=1, opaque=[IO + 'pack_attrs', IO + 'save_image',
                                           IO + 'default_extension',
                                           'holopy.core.io.serialize.save'])
    res = it.analyze(q)
    isstr = intern(('call', 'isinstance', (outf, ('extref', 'str')), ()))
    own = intern(('call', 'hasattr', (obj, ('const', '_save')), ()))
    img = intern(('call', 'hasattr', (obj, ('const', 'to_dataset')), ()))

    def calls(name):
        return [c for c in it.calls if c['name'] == name]

    def conds(c):
        # conjunctions that hold are their conjuncts; "the name was not a TIFF
        # name" (the fall-through of the early return, present as a path
        # condition only when that test is a single expression) is dropped
        out = []
        for t, p in c['cond']:
            if p and t[0] == 'bool' and t[1] == 'and':
                out += [(x, True) for x in t[2]]
            elif not p and any(x == isstr for x in subterms(t)):
                continue
            else:
                out.append((t, p))
        return out
    # TIFF
    si = calls(IO + 'save_image')
    ok = len(si) == 1 and tuple(si[0]['args']) == (outf, obj)
    if ok:
        cs = conds(si[0])
        ok = len(cs) == 2 and cs[0] == (isstr, True) and cs[1][1] is True and \
            cs[1][0][0] == 'cmp' and cs[1][0][1] == 'in' and \
            any(x[0] == 'call' and x[1] == 'os.path.splitext' and x[2] == (outf,)
                for x in subterms(cs[1][0][2]))
        rets = [o for o in res.outcomes if o.kind == 'return' and
                conds({'cond': o.cond}) == cs]
        ok = ok and len(rets) == 1
    check.require(ok, 'U2-save-dispatch', 'save [image file name]',
                  'a name with a TIFF extension -> save_image(outf, obj), nothing else',
                  loc)
    sv = calls('._save')
    named = intern(('call', IO + 'default_extension', (outf,), ()))
    ok = len(sv) == 1 and sv[0]['args'][0] == obj and \
        tuple(sv[0]['args'][1:]) in ((outf,), (named,)) and \
        conds(sv[0]) == [(own, True)]
    check.require(ok, 'U2-save-dispatch', 'save [own saver]',
                  'an object with _save is saved by obj._save(<file>)', loc)
    # writer and reader agree on the file: load() opens default_extension(inf)
    # for every HDF5 object, so that is the name every HDF5 branch of save()
    # must write (a name without extension gets '.h5' on both sides)
    ql = IO + 'load'
    itl = Interp(prog, max_depth=1, opaque=[IO + 'default_extension',
                                            IO + 'unpack_attrs'])
    itl.analyze(ql)
    inf = sym(prog.func(ql).args.args[0].arg)
    rd = intern(('call', IO + 'default_extension', (inf,), ()))
    opened = [c for c in itl.calls if c['name'] == 'xarray.open_dataset'] + \
        [c for c in itl.calls if c['name'].endswith('._load')]
    reads_named = bool(opened) and all(
        any(a == rd for a in c['args']) for c in opened)
    check.need('HDF5 readers in load()', len(opened), 2, 'U2-file-name-agreement',
               'load readers', 'load() opens the dataset and hands results to their '
               'own loader', prog.loc(ql, prog.func(ql)))
    if reads_named and sv:
        check.require(tuple(sv[0]['args'][1:]) == (named,), 'U2-file-name-agreement',
                      'save [own saver] file name',
                      'obj._save writes default_extension(outf), the name load() opens',
                      loc, fail_detail='save hands %s to obj._save while load() opens '
                      'default_extension(inf): hp.save(\'myfit\', result) writes '
                      '\'myfit\' and hp.load(\'myfit\') looks for \'myfit.h5\' -- '
                      'NoMetadata, where the same two calls work for an image' % (
                          show(sv[0]['args'][1])[:60],))
    ss = calls('holopy.core.io.serialize.save')
    ok = len(ss) == 1 and tuple(ss[0]['args']) == (outf, obj) and \
        conds(ss[0]) == [(own, False), (img, False)]
    check.require(ok, 'U2-save-dispatch', 'save [other objects]',
                  'anything else is serialised as text: serialize.save(outf, obj)', loc)
    nc = calls('.to_netcdf')
    ok = len(nc) == 1 and conds(nc[0]) == [(own, False), (img, True)]
    detail = '%d to_netcdf calls' % len(nc)
    if ok:
        ds, fname = nc[0]['args'][0], nc[0]['args'][1] if len(nc[0]['args']) > 1 else None
        cpy = intern(('call', ('attr', obj, 'copy'), (), ()))
        ok = fname == ('call', IO + 'default_extension', (outf,), ()) and \
            dict(nc[0]['kwargs']).get('engine') == ('const', 'h5netcdf') and \
            ds[0] == 'call' and isinstance(ds[1], tuple) and ds[1][2] == 'to_dataset'
        detail = 'writes %s to %s' % (show(ds)[:80], show(fname)[:60] if fname else None)
        if ok:
            recv = ds[1][1]
            # the dataset is made from the copy carrying the packed attrs
            okp = recv[0] == 'upd' and recv[2] == 'attr' and recv[3] == 'attrs'
            if okp:
                pk = recv[4][2] if recv[4][0] == 'copy' else recv[4]
                okp = pk[0] == 'call' and pk[1] == IO + 'pack_attrs' and len(pk[2]) == 1
                if okp:
                    src = pk[2][0]
                    leaves = set()

                    def walk(t):
                        if t[0] == 'ite':
                            walk(t[2])
                            walk(t[3])
                        elif t[0] == 'upd' and t[2] == 'attr' and t[3] == 'name':
                            walk(t[1])
                        else:
                            leaves.add(t)
                    walk(src)
                    okp = leaves == {cpy}
                    base = recv[1]
                    leaves.clear()
                    walk(base)
                    okp = okp and leaves == {cpy}
            ok = okp
            detail = 'the dataset is made from %s' % show(recv)[:160]
    check.require(ok, 'U2-save-dispatch', 'save [image]',
                  'an image is copied, its attrs replaced by pack_attrs(copy), and the '
                  'copy\'s dataset written with h5netcdf to default_extension(outf)',
                  loc, fail_detail=detail)
    nm = [e for e in it.effects if e['kind'] == 'setattr' and e['attr'] == 'name']
    ok = len(nm) == 1 and nm[0]['cond'][-1][1] is True and \
        nm[0]['cond'][-1][0][0] == 'cmp' and nm[0]['cond'][-1][0][1] == 'is' and \
        nm[0]['cond'][-1][0][3] == NONE and nm[0]['cond'][-1][0][2][0] == 'attr' and \
        nm[0]['cond'][-1][0][2][2] == 'name'
    check.require(ok, 'U2-save-dispatch', 'save [default name]',
                  'an unnamed image is named after the file -- a given name is kept',
                  loc)


def bind_fn(prog, qual, args, kwargs, skip_self=False):
    fd = prog.func(qual)
    names = [a.arg for a in fd.args.args]
    if skip_self:
        names = names[1:]
    out = dict(zip(names, args))
    out.update(dict(kwargs))
    return out


def wiring_load_average(check, prog, it, res, fd, loc):
    P = {a.arg: sym(a.arg) for a in fd.args.args}
    refimg = P['refimg']

    def calls(name):
        return [c for c in it.calls if c['name'] == name]
    # every file is loaded with the spacing and channel selection and pushed
    li = calls(IO + 'load_image')
    pu = calls(IO + 'Accumulator.push')
    ok = len(li) == 1 and len(pu) == 1
    detail = '%d load_image, %d push calls' % (len(li), len(pu))
    if ok:
        b = bind_fn(prog, IO + 'load_image', li[0]['args'], li[0]['kwargs'])
        inf = b.get('inf')
        files = inf[1] if inf is not None and inf[0] == 'elem' else None
        okf = files is not None and any(x == P['filepath'] for x in subterms(files))
        sp = b.get('spacing')
        oks = sp is not None and any(x == P['spacing'] for x in subterms(sp)) and \
            bool(calls_in(sp, MD + 'get_spacing'))
        ch = b.get('channel')
        okc = ch is not None and any(x == P['channel'] for x in subterms(ch))
        inloop = any(t[0] == 'loop-iter' for t, p in li[0]['cond'])
        okp = len(pu[0]['args']) == 2 and pu[0]['args'][1][0] == 'call' and \
            pu[0]['args'][1][1] == IO + 'load_image' and \
            any(t[0] == 'loop-iter' for t, p in pu[0]['cond'])
        ok = okf and oks and okc and inloop and okp
        detail = 'load_image(%s)' % ', '.join('%s=%s' % (k, show(v)[:50])
                                              for k, v in b.items())
    check.require(ok, 'U4-every-file-averaged', 'load_average loop',
                  'every file of the list is loaded (inf <- the file, spacing <- the '
                  'spacing, channel <- the channel selection) and pushed', loc,
                  fail_detail=detail)
    # metadata donor and final update
    cm = calls(MD + 'copy_metadata')
    notnone = intern(('cmp', 'is not', refimg, NONE))
    isnone = intern(('cmp', 'is', refimg, NONE))
    ok = len(cm) == 1
    if ok:
        b = bind_fn(prog, MD + 'copy_metadata', cm[0]['args'], cm[0]['kwargs'])
        cs = beyond_guards(cm[0]['cond'], res)
        ok = b.get('old') == refimg and bool(calls_in(b.get('data', NONE), 'mean')) and \
            not calls_in(b.get('data', NONE), 'std') and \
            b.get('do_coords') == FALSE and cs in ([(notnone, True)], [(isnone, False)])
    check.require(ok, 'U4-metadata-from-reference', 'load_average copy_metadata',
                  'with a reference image: copy_metadata(old <- refimg, data <- the '
                  'mean image, do_coords=False)', loc)
    um = calls(MD + 'update_metadata')
    ok = len(um) == 1 and not beyond_guards(um[0]['cond'], res)
    detail = ''
    if ok:
        b = bind_fn(prog, MD + 'update_metadata', um[0]['args'], um[0]['kwargs'])
        ok = bool(calls_in(b.get('a', NONE), 'mean')) and \
            all(b.get(k) == P[k] for k in ('medium_index', 'illum_wavelen',
                                           'illum_polarization'))
        nz = b.get('noise_sd')
        from hpstatic.logic import select
        ok = ok and nz is not None and nz[0] == 'ite' and nz[3] == P['noise_sd']
        detail = 'update_metadata(%s)' % ', '.join('%s=%s' % (k, show(v)[:40])
                                                   for k, v in b.items())
    check.require(ok, 'U4-explicit-values-win', 'load_average update_metadata',
                  'the result is the mean image updated with the optics given as '
                  'arguments, each in its own slot; a given noise_sd is kept', loc,
                  fail_detail=detail)
    # no images -> LoadError, and only then
    le = [o for o in res.raises]
    ok = len(le) == 1 and len(le[0].cond) == 1 and le[0].cond[0][1] is True
    if ok:
        t = le[0].cond[0][0]
        from .common import lt_form
        f = lt_form(t)
        ok = f is not None and f[0] == '<' and f[2] == num(1) and \
            f[1][0] == 'call' and f[1][1] == 'len'
    check.require(ok, 'U4-refuses-only-empty-lists', 'load_average',
                  'LoadError is raised iff there is no image to average', loc)
    # cropped images get the reference coordinates
    st = [e for e in it.effects if e['kind'] == 'setitem' and
          e['key'] in (('const', 'x'), ('const', 'y'))]
    ok = len(st) == 4 and all(e['value'] == ('attr', refimg, e['key'][1]) for e in st)
    check.require(ok, 'U4-crop-coordinates', 'load_average',
                  'after cropping, mean and std images carry the reference image\'s '
                  'x and y coordinates', loc)


def tables_exact(check, prog):
    """the conditions under which each entry is written / read, with polarity"""
    def cs(e):
        return [(t, p) for t, p in beyond_guards(e['cond'], RES[0])
                if t[0] != 'loop-iter']
    RES = [None]
    # ---- unpack_attrs
    q = IO + 'unpack_attrs'
    fd = prog.func(q)
    loc = prog.loc(q, fd)
    a = sym(fd.args.args[0].arg)
    it = Interp(prog, max_depth=1, opaque=['holopy.core.utils.dict_without'])
    res = it.analyze(q)
    RES[0] = res
    empty = intern(('cmp', '==', ('call', 'len', (a,), ()), num(0)))
    early = [o for o in res.returns if o.value == a]
    ok = len(early) == 1 and norm_cond(early[0].cond) == [(empty, True)]
    check.require(ok, 'U2-reader-table', 'unpack_attrs empty attrs',
                  'an empty mapping is returned as is -- and only an empty one', loc)
    st = split_value_ite([e for e in it.effects if e['kind'] == 'setitem'])
    rows = {}
    for e in st:
        v = e['value']
        kind = 'array' if (v[0] == 'call' and v[1] == 'xarray.DataArray') else (
            'plain' if (v[0] == 'call' and v[1] == 'yaml.safe_load') else (
                'none' if v == NONE else 'other'))
        rows[kind] = e
    ok = set(rows) == {'array', 'plain', 'none'} and len(st) == 3
    detail = 'stores: %s' % sorted(rows)
    if ok:
        key = rows['array']['key']
        ref = [x for x in subterms(rows['array']['value']) if x[0] == 'idx' and
               x[2] == key and x[1][0] == 'call' and x[1][1] == 'yaml.load']
        ok = bool(ref)
        if ok:
            R = ref[0]                      # attr_ref[attr]
            I = intern(('cmp', 'in', key, a))
            val = intern(('idx', a, key))
            va = rows['array']['value']
            # The writer marks an array-valued attribute with the dict of its
            # coordinates -- which is *empty* for a 0-d array -- and everything else
            # with False.  The reader's test must separate False from every dict:
            # `is not False`, `!= False` or isinstance(.., dict); plain truthiness
            # sends the empty dict down the plain-value path.
            from .common import canon_cond
            FALSE_ = ('const', False)

            def is_array_test(t, pol):
                if t[0] == 'cmp' and t[1] in ('is', '==') and {t[2], t[3]} == {R, FALSE_}:
                    return not pol
                if t[0] == 'cmp' and t[1] in ('is not', '!=') and {t[2], t[3]} == {R, FALSE_}:
                    return pol
                if t[0] == 'call' and t[1] == 'isinstance' and len(t[2]) == 2 and \
                        t[2][0] == R and 'dict' in show(t[2][1]):
                    return pol
                return None
            ca, cp_, cn = (canon_cond(cs(rows[k])) for k in ('array', 'plain', 'none'))
            disc = len(ca) == 1 and is_array_test(*ca[0]) is True
            neg = lambda c: len(c) == 2 and is_array_test(*c[0]) is False
            ok = disc and neg(cp_) and neg(cn) and \
                cp_[1] == (I, True) and cn[1] == (I, False) and \
                any(x == val for x in subterms(va[2][0])) and kw(va, 'coords') == R and \
                rows['plain']['value'][2] == (val,) and \
                all(e['key'] == key for e in rows.values())
            detail = 'array when %s; plain when %s; None when %s' % tuple(
                [(show(t)[:40], p) for t, p in cs(rows[k])]
                for k in ('array', 'plain', 'none'))
            if not disc:
                detail += ': the coordinate-table entry of a 0-d array attribute is the ' \
                    'empty dict, which this test does not tell from False -- an image ' \
                    'whose noise_sd is a 0-d DataArray (every load_average result) ' \
                    'saves but cannot be loaded'
    check.require(ok, 'U2-reader-table', 'unpack_attrs rows',
                  'coordinate table entry not False -> DataArray(a[attr], coords=entry), '
                  'also for the empty entry of a 0-d array; False and attr stored -> '
                  'safe_load(a[attr]); False and not stored -> None', loc,
                  fail_detail=detail)
    # ---- pack_attrs
    q = IO + 'pack_attrs'
    fd = prog.func(q)
    loc = prog.loc(q, fd)
    a = sym(fd.args.args[0].arg)
    it = Interp(prog, max_depth=1, opaque=[MD + 'get_spacing',
                                           'holopy.core.utils.ensure_array'])
    res = it.analyze(q)
    RES[0] = res
    st = [e for e in it.effects if e['kind'] == 'setitem']
    nm = [e for e in st if e['key'] == ('const', 'name')]
    nme = intern(('attr', a, 'name'))
    ok = len(nm) == 1 and nm[0]['value'] == nme and \
        cs(nm[0]) == [(('cmp', 'is', nme, NONE), False)] or \
        (len(nm) == 1 and nm[0]['value'] == nme and
         cs(nm[0]) == [(('cmp', 'is not', nme, NONE), True)])
    check.require(ok, 'U2-coordinate-table', 'pack_attrs name',
                  'the image name is stored iff it is not None', loc)
    sp = [e for e in st if e['key'] == ('const', 'spacing')]
    ok = len(sp) == 1 and cs(sp[0]) == [(sym(fd.args.args[1].arg), True)] and \
        bool(calls_in(sp[0]['value'], MD + 'get_spacing'))
    check.require(ok, 'U2-coordinate-table', 'pack_attrs spacing',
                  'the spacing is stored iff do_spacing', loc)
    fin = [e for e in st if e['key'] == ('const', '_attr_coords')]
    ok = len(fin) == 1 and not cs(fin[0]) and fin[0]['value'][0] == 'call' and \
        fin[0]['value'][1] == 'yaml.dump' and fin[0]['value'][2] and \
        fin[0]['value'][2][0][0] == 'idx' and \
        fin[0]['value'][2][0][2] == ('const', '_attr_coords')
    check.require(ok, 'U2-coordinate-table', 'pack_attrs table is text',
                  'the coordinate table is finally stored as yaml text under '
                  '_attr_coords (what unpack_attrs parses)', loc)
    isarr = [t for e in st for t, p in cs(e) if t[0] == 'call' and t[1] == 'isinstance']
    ok = bool(isarr)
    if ok:
        A = isarr[0]
        ok = A[2][1] == ('extref', 'xarray.DataArray') and A[2][0][0] == 'idx' and \
            A[2][0][2] == num(1)
        val = A[2][0]
        tab_arr = [e for e in st if e['value'] == ('dict', ()) and cs(e) == [(A, True)]]
        tab_plain = [e for e in st if e['value'] == FALSE and cs(e) == [(A, False)]]
        vals_arr = [e for e in st if calls_in(e['value'], 'list') and
                    cs(e) == [(A, True)] and e['key'][0] == 'idx']
        ok = ok and len(tab_arr) == 1 and len(tab_plain) == 1 and len(vals_arr) == 1 \
            and any(x == ('attr', val, 'values') for x in subterms(vals_arr[0]['value']))
    check.require(ok, 'U2-coordinate-table', 'pack_attrs rows',
                  'labelled arrays: table entry {dim: values} and the values as a '
                  'list; everything else: table entry False', loc)
    # ---- Accumulator queries
    AQ = IO + 'Accumulator'
    me = sym('self')
    it = Interp(prog, max_depth=0)
    v = it.analyze(AQ + '.mean').ret
    M = intern(('attr', me, '_running_mean'))
    ok = v[0] == 'ite' and ((v[1] == ('cmp', 'is not', M, NONE) and v[2] == M) or
                            (v[1] == ('cmp', 'is', M, NONE) and v[3] == M))
    check.require(ok, 'U4-queries', 'Accumulator.mean',
                  'the running mean whenever something was pushed',
                  prog.loc(AQ + '.mean', prog.func(AQ + '.mean')),
                  fail_detail='returns %s' % show(v)[:120])
    it = Interp(prog, max_depth=0)
    v = it.analyze(AQ + '.std').ret
    n = intern(('attr', me, '_n'))
    z = intern(('cmp', '==', n, num(0)))
    want = intern(('call', 'numpy.sqrt', (('bin', '/', ('attr', me, '_running_var'), n),),
                   ()))
    ok = v[0] == 'ite' and v[1] == z and v[2] == NONE and Canon().equal(v[3], want)
    check.require(ok, 'U4-queries', 'Accumulator.std',
                  'None only when nothing was pushed, else sqrt(S / n)',
                  prog.loc(AQ + '.std', prog.func(AQ + '.std')),
                  fail_detail='returns %s' % show(v)[:120])
    # ---- to_vector on per-channel dictionaries
    q = MD + 'to_vector'
    fd = prog.func(q)
    c = sym(fd.args.args[0].arg)
    it = Interp(prog, max_depth=0)
    res = it.analyze(q)
    isd = intern(('call', 'isinstance', (c, ('extref', 'dict')), ()))
    dr = [o for o in res.returns if any(t == isd and p for t, p in norm_cond(o.cond))]
    ok = len(dr) == 1
    detail = ''
    if ok:
        ok, detail, fresh = c01._dict_of_normalised(dr[0].value, c, q)
        if ok and not fresh:
            ok, detail = False, 'the values are stored into the caller\'s dictionary'
    check.require(ok, 'U1-polarisation-normalised', 'to_vector per-channel dictionary',
                  'a copy of the dictionary with every value normalised (the input '
                  'dictionary is not modified)', prog.loc(q, fd), fail_detail=detail)
    # ---- data_grid: axis labels, extra coordinates, optics slots
    q = MD + 'data_grid'
    fd = prog.func(q)
    loc = prog.loc(q, fd)
    P = {x.arg: sym(x.arg) for x in fd.args.args}

    def decide(t):
        if t[0] == 'cmp' and t[2] == P['extra_dims'] and t[3] == NONE:
            return t[1] == 'is not'       # extra dims given
        return None
    it = Interp(prog, max_depth=1, decide=decide,
                opaque=[MD + 'make_coords', MD + 'update_metadata'])
    res = it.analyze(q)
    da = [cc for cc in it.calls if cc['name'] == 'xarray.DataArray']
    ok = len(da) == 1
    if ok:
        dims = kw_of(da[0], 'dims')
        co = kw_of(da[0], 'coords')
        want_dims = intern(('bin', '+', ('list', (('const', 'z'), ('const', 'x'),
                                                  ('const', 'y'))),
                            ('call', 'list', (('call', ('attr', P['extra_dims'], 'keys'),
                                               (), ()),), ())))
        ok = dims == want_dims and co is not None and co[0] == 'mut' and \
            co[2] == 'update' and co[3] == (P['extra_dims'],) and \
            co[1][0] == 'call' and co[1][1] == MD + 'make_coords'
        nmt = kw_of(da[0], 'name')
        ok = ok and nmt is not None and nmt[0] == 'ite' and (
            (nmt[1] == ('cmp', 'is', P['name'], NONE) and nmt[3] == P['name']) or
            (nmt[1] == ('cmp', 'is not', P['name'], NONE) and nmt[2] == P['name']))
    check.require(ok, 'U3-pixel-grid', 'data_grid labels',
                  "dims = ['z', 'x', 'y'] + extra dims; extra coordinates are added to "
                  'the grid; a given name is kept', loc)
    um = [cc for cc in it.calls if cc['name'] == MD + 'update_metadata']
    ok = len(um) == 1
    if ok:
        b = bind_fn(prog, MD + 'update_metadata', um[0]['args'], um[0]['kwargs'])
        ok = all(b.get(k) == P[k] for k in ('medium_index', 'illum_wavelen',
                                            'illum_polarization', 'noise_sd')) and \
            b.get('a') is not None and b['a'][0] == 'call' and \
            b['a'][1] == 'xarray.DataArray'
    check.require(ok, 'U3-pixel-grid', 'data_grid optics',
                  'the optics arguments are attached, each in its own slot', loc)


def channel_selection(check, prog):
    """U5: a colour image is loaded with exactly the requested channels, each plane
    under the label of the channel it was read from.

    The planes handed to data_grid are arr[:, :, channels] -- for every request, not
    depending on how many channels were asked for -- and the channel labels are
    derived element by element from the same `channels`, in the same order."""
    from hpstatic.logic import resolve
    q = IO + 'load_image'
    fd = prog.func(q)
    loc = prog.loc(q, fd)
    it = Interp(prog, max_depth=1, opaque=[MD + 'data_grid', 'holopy.core.utils.ensure_array',
                                           MD + 'to_vector'])
    it.analyze(q)
    dg = [c for c in it.calls if c['name'] == MD + 'data_grid']
    if len(dg) != 1 or not dg[0]['args']:
        check.bad('U5-channel-selection', 'load_image', 'no single data_grid(...) call', loc)
        return
    ch = sym('channel')
    raw = [x for x in subterms(dg[0]['args'][0]) if x[0] == 'call' and
           isinstance(x[1], tuple) and x[1][0] == 'attr' and x[1][2] == 'astype']
    if not raw:
        check.bad('U5-channel-selection', 'load_image', 'pixel array not found', loc)
        return
    arr = min(raw, key=lambda t: len(show(t)))
    is_none = intern(('cmp', 'is', ch, NONE))
    grey = intern(('cmp', '==', ('attr', arr, 'ndim'), num(2)))

    def colour(t):
        if t == is_none or t == grey:
            return False
        return None
    planes = resolve(call_args(prog, dg[0]).get('arr'), colour)
    planes = planes_of(planes)
    ok = planes[0] == 'idx' and planes[1] == arr and planes[2][0] == 'tuple' and \
        len(planes[2][1]) == 3 and all(
            k == ('slice', NONE, NONE, NONE) for k in planes[2][1][:2])
    CH = planes[2][1][2] if ok else None
    ok = ok and any(x == ch for x in subterms(CH)) and \
        not any(x[0] == 'ite' and x[1] != ('cmp', '==', ch, ('const', 'all'))
                for x in subterms(planes))
    check.require(ok, 'U5-channel-selection', 'load_image planes',
                  'the image handed on is arr[:, :, channels] for every request', loc,
                  fail_detail='for a colour image data_grid receives %s' % show(planes)[:200])
    if not ok:
        return
    ed = resolve(call_args(prog, dg[0]).get('extra_dims', NONE), colour)
    many = [x[1] for x in subterms(ed) if x[0] == 'ite']
    labels = []
    for x in subterms(ed):
        if x[0] == 'dict' and len(x[1]) == 1 and x[1][0][0] == ('const', 'illumination'):
            labels.append(x[1][0][1])
    good = bool(labels)
    for lab in labels:
        for leaf in _leaves(lab):
            if leaf == CH:
                continue
            if leaf[0] == 'comp' and leaf[1] == 'list' and len(leaf[3]) == 1 and \
                    leaf[3][0][1] == CH and not leaf[3][0][2] and \
                    leaf[2][0] == 'idx' and leaf[2][2] == leaf[3][0][0] and \
                    leaf[2][1][0] == 'list' and all(y[0] == 'const' for y in leaf[2][1][1]):
                continue
            good = False
    check.require(good, 'U5-channel-selection', 'load_image labels',
                  'the channel labels are computed element by element from the '
                  'requested channels, in the same order as the planes', loc,
                  fail_detail='labels: %s' % [show(l)[:120] for l in labels])
    # the colour names are used exactly when every requested channel has one: the
    # guard on the largest channel number matches the length of the name list
    nguard = 0
    for lab in labels:
        def walk(t, conds=()):
            nonlocal nguard
            if t[0] == 'ite':
                walk(t[2], conds + ((t[1], True),))
                walk(t[3], conds + ((t[1], False),))
                return
            if not (t[0] == 'comp' and t[2][0] == 'idx' and t[2][1][0] == 'list'):
                return
            nnames = len(t[2][1][1])
            for ct, pol in conds:
                if ct[0] == 'cmp' and ct[1] in ('<', '<=', '>', '>=') and \
                        any(x[0] == 'call' and isinstance(x[1], tuple) and
                            x[1][0] == 'attr' and x[1][2] == 'max'
                            for x in subterms(ct)):
                    nguard += 1
                    a, b = ct[2], ct[3]
                    op = ct[1]
                    if b[0] != 'num':       # constant on the left: mirror
                        a, b = b, a
                        op = {'<': '>', '<=': '>=', '>': '<', '>=': '<='}[op]
                    if not pol:
                        op = {'<': '>=', '<=': '>', '>': '<=', '>=': '<'}[op]
                    lim = int(b[1]) if b[0] == 'num' else None
                    okg = (op == '<=' and lim == nnames - 1) or \
                        (op == '<' and lim == nnames)
                    check.require(okg, 'U5-channel-selection', 'load_image colour names',
                                  'the %d colour names label the planes whenever the '
                                  'largest requested channel is below %d' % (
                                      nnames, nnames), loc,
                                  fail_detail='names are used when max(channel) %s %s: '
                                  'a request that includes channel %d keeps integer '
                                  'labels, unlike the per-channel metadata written '
                                  'with the names' % (op, lim, nnames - 1))
        walk(lab)
    check.floor('guards of the colour-name labels', nguard, 1)


def _leaves(t):
    return _leaves(t[2]) + _leaves(t[3]) if t[0] == 'ite' else [t]


def planes_of(t):
    """The stack of requested planes behind what is handed to data_grid: a single
    requested plane may have its channel axis dropped -- `.squeeze()`, or
    `[:, :, 0]` under a test that there is one channel -- which leaves the planes
    themselves alone."""
    FULL = ('slice', NONE, NONE, NONE)
    while True:
        if t[0] == 'call' and isinstance(t[1], tuple) and t[1][0] == 'attr' and \
                t[1][2] == 'squeeze' and not t[2]:
            t = t[1][1]
            continue
        if t[0] == 'ite' and any(x[0] == 'call' and x[1] == 'len' for x in subterms(t[1])):
            a_, b_ = t[2], t[3]
            def dropped(x, base):
                return x[0] == 'idx' and x[1] == base and x[2] == ('tuple', (FULL, FULL, num(0)))
            if dropped(a_, b_):
                t = b_
                continue
            if dropped(b_, a_):
                t = a_
                continue
        return t


def requested_channels(check, prog):
    """U3b: `with the requested colour channels`.  For a colour raster and a channel
    request, load_image hands data_grid the planes `arr[:, :, CH]` with CH the
    request as an index array (every plane for 'all'), labels them -- when there
    are several -- by the same CH, through the fixed table red, green, blue for
    indices up to 2 and by the index itself beyond, and refuses an index the image
    does not have.  Values and labels come from one and the same index array, in
    the same order, so plane k of the result is the plane that was asked for k-th
    and carries its name."""
    from hpstatic.logic import resolve
    q = IO + 'load_image'
    fd = prog.func(q)
    loc = prog.loc(q, fd)
    ch = sym('channel')
    EA = 'holopy.core.utils.ensure_array'
    for all_ in (False, True):
        def decide(t, all_=all_):
            if t[0] == 'cmp' and t[2] == ch and t[3] == NONE:
                return t[1] == 'is not'
            if t[0] == 'cmp' and t[1] in ('==', '>') and t[3] == num(2) and \
                    t[2][0] == 'attr' and t[2][2] == 'ndim':
                return t[1] == '>'            # a colour image has three axes
            if t[0] == 'cmp' and t[1] == '==' and t[2] == ch and \
                    t[3] == ('const', 'all'):
                return all_
            return None
        it = Interp(prog, max_depth=1, decide=decide, opaque=[
            MD + 'data_grid', EA, MD + 'to_vector'])
        res = it.analyze(q)
        dg = [c for c in it.calls if c['name'] == MD + 'data_grid']
        kind = "channel='all'" if all_ else 'channel list'
        if len(dg) != 1:
            check.bad('U3-requested-channels', 'load_image [%s]' % kind,
                      'no single data_grid call on the colour path', loc)
            continue
        a = call_args(prog, dg[0])
        arr = a.get('arr')
        if arr is not None:
            arr = planes_of(arr)
        ok = arr is not None and arr[0] == 'idx' and arr[2][0] == 'tuple' and \
            len(arr[2][1]) == 3 and all(x[0] == 'slice' and x[1:] == (NONE, NONE, NONE)
                                        for x in arr[2][1][:2])
        CH = arr[2][1][2] if ok else None
        A = arr[1] if ok else None
        if ok:
            if all_:
                okc = CH[0] == 'call' and CH[1] == EA and CH[2] and \
                    CH[2][0] == ('call', 'range', (('idx', ('attr', A, 'shape'), num(2)),), ())
            else:
                okc = CH == ('call', EA, (ch,), ())
            ok = okc and not any(x == ch for x in subterms(A))
        check.require(ok, 'U3-requested-channels', 'load_image planes [%s]' % kind,
                      'the planes handed on are arr[:, :, CH], CH = the request as an '
                      'index array' + (' (every plane)' if all_ else ''), loc,
                      fail_detail='data handed to data_grid: %s' % (
                          show(a.get('arr'))[:160] if a.get('arr') else None))
        if not ok:
            continue
        # labels
        ed = a.get('extra_dims')
        many = intern(('cmp', '<', num(1), ('call', 'len', (CH,), ())))
        small = ('call', ('attr', CH, 'max'), (), ())

        def lab(t, several, upto2):
            def hyp(x):
                from hpstatic.logic import cmp_is
                if x[0] == 'cmp' and any(y == ('call', 'len', (CH,), ()) for y in (x[2], x[3])):
                    if cmp_is(x, '<', num(1), ('call', 'len', (CH,), ())):
                        return several
                    return None
                if x[0] == 'cmp' and small in (x[2], x[3]):
                    if cmp_is(x, '<=', small, num(2)) or cmp_is(x, '<', small, num(3)):
                        return upto2
                    return None
                return None
            return resolve(t, hyp)
        NAMES = ('list', (('const', 'red'), ('const', 'green'), ('const', 'blue')))
        oks = []
        for several, upto2 in ((False, True), (True, True), (True, False)):
            v = lab(ed, several, upto2) if ed is not None else None
            if not several:
                oks.append(v == NONE)
                continue
            good = v is not None and v[0] == 'dict' and len(v[1]) == 1 and \
                v[1][0][0] == ('const', 'illumination')
            L = v[1][0][1] if good else None
            if good and upto2:
                if L[0] == 'call' and L[1] == 'list' and len(L[2]) == 1:
                    L = L[2][0]
                good = L[0] == 'comp' and len(L[3]) == 1 and L[3][0][1] == CH and \
                    not L[3][0][2] and L[2] == ('idx', NAMES, L[3][0][0])
            elif good:
                good = L == CH
            oks.append(good)
        check.require(all(oks), 'U3-requested-channels', 'load_image labels [%s]' % kind,
                      'one requested plane has no channel axis; several are labelled, '
                      'in the order of the request, red / green / blue for indices up '
                      'to 2 and by the index beyond', loc,
                      fail_detail='extra_dims = %s' % (show(ed)[:200] if ed else None))
        # per-channel optics given as plain sequences get the same labels
        wlp = sym('illum_wavelen')
        wla = a.get('illum_wavelen')

        def hyp_w(x):
            if x[0] == 'cmp' and x[1] in ('is not', 'is') and x[2] == wlp and x[3] == NONE:
                return x[1] == 'is not'
            if x[0] == 'call' and x[1] == 'isinstance' and x[2] and x[2][0] == wlp:
                return False
            if x[0] == 'cmp' and x[1] == '==' and any(
                    y[0] == 'call' and y[1] == 'len' and y[2] and
                    y[2][0] == ('call', EA, (wlp,), ()) for y in (x[2], x[3])):
                return True
            return None
        vw = resolve(lab(wla, True, True), hyp_w) if wla is not None else None
        vl = lab(ed, True, True)
        okw = vw is not None and vw[0] == 'call' and vw[1] == 'xarray.DataArray' and \
            vw[2] and vw[2][0] == ('call', EA, (wlp,), ())
        if okw:
            kw = dict(vw[3])
            pos = list(vw[2][1:])
            coords = kw.get('coords', pos[0] if pos else None)
            dims = kw.get('dims', pos[1] if len(pos) > 1 else None)
            okw = coords == vl and dims in (('const', 'illumination'),
                                            ('list', (('const', 'illumination'),)),
                                            ('tuple', (('const', 'illumination'),)))
        check.require(okw, 'U3-requested-channels', 'load_image wavelengths [%s]' % kind,
                      'as many unlabelled wavelengths as requested planes are labelled '
                      'like the planes', loc,
                      fail_detail='illum_wavelen handed on as %s' % (
                          show(vw)[:160] if vw is not None else None))
        # refusal
        top = ('idx', ('attr', A, 'shape'), num(2))
        from hpstatic.logic import cmp_is as _ci
        refused = any(
            'LoadError' in show(o.value) and any(
                pol and t[0] == 'cmp' and (_ci(t, '<=', top, small) or
                                           _ci(t, '<', ('bin', '-', top, num(1)), small))
                for t, pol in norm_cond(o.cond)) for o in res.raises)
        check.require(refused, 'U3-requested-channels', 'load_image refusal [%s]' % kind,
                      'an index the image does not have (max(CH) >= number of planes) '
                      'raises LoadError', loc,
                      fail_detail='raises: %s' % [
                          (show(o.value)[:40], [(show(t)[:60], p) for t, p in
                                                norm_cond(o.cond)][-2:]) for o in res.raises][:3])


def tiff_scaling(check, prog):
    """U6: a scaled TIFF export is undone on import.

    display_image clips to [s0, s1] and maps that range affinely onto [0, 1]; the
    writer then multiplies by the grey-level count FS of the sample type (2**bits - 1,
    or 1 for float).  The inverse is s0 + (s1 - s0) * im / FS.  The rule solves the
    restore step for FS: it must not be made of the image's own extrema (that is an
    inverse only when the data reach both ends of the range, i.e. for 'auto') and it
    cannot be one number for all depths."""
    q = IO + 'load'
    fd = prog.func(q)
    loc = prog.loc(q, fd)
    it = Interp(prog, max_depth=1, opaque=[IO + 'load_image', IO + 'unpack_attrs'])
    res = it.analyze(q)
    c0 = Canon()
    found = []
    for o in res.returns:
        for x in subterms(o.value):
            if x[0] == 'ite' and x[1][0] == 'cmp' and x[1][1] == 'in' and \
                    x[1][2] == ('const', '_image_scaling'):
                found.append((x[2], x[3], x[1][3]))
    ok = bool(found)
    construct = 'no restore step'
    detail = 'no restore step conditional on the stored _image_scaling'
    from hpstatic.logic import resolve
    for yes, no, meta in found:
        # (the optional removal of a dummy colour channel comes first; take the
        # branch without it -- the restore step is the same expression of `im`)
        nodummy = lambda t: False if (t[0] == 'cmp' and t[1] == 'in' and
                                       t[2] == ('const', '_dummy_channel')) else None
        yes, no = resolve(yes, nodummy), resolve(no, nodummy)
        sc = [x for x in subterms(yes) if x[0] == 'call' and x[1] == 'yaml.safe_load'
              and x[2] and x[2][0] == ('idx', meta, ('const', '_image_scaling'))]
        if not sc:
            ok, detail, construct = False, 'the stored scaling is not read', 'scaling not read'
            break
        # strip the attrs store layered on top
        val, base = yes, no
        while val[0] == 'upd' and val[2] == 'attr':
            val = val[1]
        while base[0] == 'upd' and base[2] == 'attr':
            base = base[1]
        env = {'im': base, 's0': intern(('idx', sc[0], num(0))),
               's1': intern(('idx', sc[0], num(1)))}
        # exact inverse: restored = s0 + (s1 - s0) * im / FS.  Solve for FS and look
        # at what it is made of
        IM, S0, S1 = sym('im'), sym('smin'), sym('smax')

        def abstract(x):
            if x == base:
                return IM
            if x == env['s0']:
                return S0
            if x == env['s1']:
                return S1
            if isinstance(x, tuple):
                return tuple(abstract(y) if isinstance(y, tuple) else y for y in x)
            return x
        val = intern(abstract(val))
        base = IM
        env = {'s0': S0, 's1': S1}
        fs = intern(('bin', '/', ('bin', '*', ('bin', '-', env['s1'], env['s0']), base),
                     ('bin', '-', val, env['s0'])))
        r = c0.rat(fs)
        atoms = set()
        for mono in list(r.num) + list(r.den):
            for a_, e_ in mono:
                atoms.add(a_)
        uses_image = [a_ for a_ in atoms if any(x == base for x in subterms(a_))]
        constant = r.is_const()
        key = c0.show(fs)
        if uses_image:
            ok = False
            construct = 'full scale = ' + c0.show(fs).replace(
                c0.show(base), 'im').replace(' ', '')[:160]
            detail = 'the grey-level count is taken from the image itself (%s): the ' \
                'restored image always spans exactly [smin, smax], which is the inverse ' \
                'of the export only when the stored data reach both ends of the range ' \
                "(scaling='auto'); with scaling=(0, 100) an image in [20, 30] comes " \
                'back as [0, 100]' % construct
        elif constant:
            ok = False
            construct = 'full scale = %s' % c0.show(fs)[:40]
            detail = 'the grey-level count is the constant %s, but the writer stores ' \
                '2**bits - 1 levels for 8, 16 and 32 bit and 1 for float' % c0.show(fs)[:40]
    check.require(ok, 'U6-tiff-scaling',
                  'load (TIFF with metadata)' + ('' if ok else ': ' + construct),
                  'restores smin + (smax - smin) * im / full_scale with the full scale of '
                  'the stored sample type: the inverse of the export stretch for every '
                  'scaling and bit depth', loc, fail_detail=detail)
    # the forward map
    q2 = 'holopy.core.io.vis.display_image'
    if prog.has_func(q2):
        fd2 = prog.func(q2)
        it2 = Interp(prog, max_depth=1)
        it2.analyze(q2)
        st = [e for e in it2.effects if e['kind'] == 'setitem' and
              e['key'] == ('const', '_image_scaling')]
        check.require(len(st) == 1, 'U6-tiff-scaling', 'display_image',
                      'records the scaling it applied under _image_scaling',
                      prog.loc(q2, fd2))
        # "all dtypes": the stretch (im - s0) / (s1 - s0) subtracts in the image's
        # own type unless the image is converted first; for a signed integer
        # image whose range exceeds the type's positive range (int8 spanning
        # more than 127) im - s0 wraps around before the division
        FLOATS = ('float', 'np.float64', 'numpy.float64', "'float'", "'float64'",
                  'np.float32', "'f8'", 'np.double')

        def float_conv(e, before):
            if isinstance(e, ast.Call):
                f = ast.unparse(e.func)
                args = [ast.unparse(a) for a in e.args] + \
                    [ast.unparse(k.value) for k in e.keywords]
                if f.endswith('.astype') and any(a in FLOATS for a in args):
                    return True
                if f.split('.')[-1] in ('asarray', 'array', 'asfarray', 'float64') and \
                        (any(a in FLOATS for a in args[1:]) or
                         f.split('.')[-1] in ('asfarray', 'float64')):
                    return True
            if isinstance(e, ast.BinOp) and isinstance(e.op, (ast.Mult, ast.Div)):
                for side in (e.left, e.right):
                    if isinstance(side, ast.Constant) and isinstance(side.value, float):
                        return True
                if isinstance(e.op, ast.Div):
                    return True
            if isinstance(e, ast.Name):
                for st_ in reversed(before):
                    if isinstance(st_, ast.Assign) and any(
                            isinstance(t, ast.Name) and t.id == e.id
                            for t in st_.targets):
                        return float_conv(st_.value, before[:before.index(st_)])
            return False
        nstretch = 0
        # display_image itself and the module-level helpers it calls
        vism = prog.module('holopy.core.io.vis')
        helpers = dict((n_.name, n_) for n_ in vism.tree.body
                       if isinstance(n_, ast.FunctionDef))
        scope = [fd2] + [helpers[c_.func.id] for c_ in ast.walk(fd2)
                         if isinstance(c_, ast.Call) and isinstance(c_.func, ast.Name)
                         and c_.func.id in helpers and helpers[c_.func.id] is not fd2]

        def is_bound(e, k):
            # S[k] of a two-element scaling
            return isinstance(e, ast.Subscript) and isinstance(e.value, ast.Name) and \
                isinstance(e.slice, ast.Constant) and e.slice.value == k
        for blk in [b_ for f_ in scope for b_ in ast.walk(f_)]:
            body = getattr(blk, 'body', None)
            if not isinstance(body, list):
                continue
            for i_, st_ in enumerate(body):
                if not isinstance(st_, (ast.Assign, ast.Return)) or st_.value is None:
                    continue
                v_ = st_.value

                def named(e, before=body[:i_]):
                    # a local name stands for the expression it was last bound to
                    # (`shifted = im.astype(float) - s[0]; im = shifted / span`)
                    if isinstance(e, ast.Name):
                        for b4 in reversed(before):
                            if isinstance(b4, ast.Assign) and len(b4.targets) == 1 and \
                                    isinstance(b4.targets[0], ast.Name) and \
                                    b4.targets[0].id == e.id and \
                                    isinstance(b4.value, ast.BinOp):
                                return b4.value
                    return e
                if isinstance(v_, ast.BinOp) and isinstance(v_.op, ast.Div):
                    v_ = ast.BinOp(left=named(v_.left), op=v_.op, right=named(v_.right))
                    ast.copy_location(v_, st_.value)
                if isinstance(v_, ast.BinOp) and isinstance(v_.op, ast.Div) and \
                        isinstance(v_.left, ast.BinOp) and \
                        isinstance(v_.left.op, ast.Sub) and \
                        is_bound(v_.left.right, 0) and \
                        isinstance(v_.right, ast.BinOp) and \
                        isinstance(v_.right.op, ast.Sub) and \
                        is_bound(v_.right.left, 1) and is_bound(v_.right.right, 0):
                    nstretch += 1
                    check.require(float_conv(v_.left.left, body[:i_]),
                                  'U6-tiff-scaling', 'display_image stretch in float',
                                  'the image is converted to floating point before '
                                  'the lower bound is subtracted', '%s:%d' % (
                                      prog.module('holopy.core.io.vis').relpath,
                                      st_.lineno),
                                  fail_detail='%s subtracts in the image\'s own '
                                  'dtype: an int8 image spanning [-100, 99] wraps to '
                                  'negative values and is exported scrambled' %
                                  ast.unparse(v_)[:80])
        check.need('stretch statements in display_image', nstretch, 1,
                   'U6-tiff-scaling', 'display_image stretch',
                   'the image is mapped onto [0, 1] by (im - s0) / (s1 - s0) when a '
                   'scaling applies', prog.loc(q2, fd2))


def depth_options(check, prog):
    """U7: every documented bit depth of the TIFF export can actually be written,
    and its grey-level count fits the integer type it is stored in.

    For each literal depth the writer compares against, the string handed to
    `astype` must name a NumPy integer type, and the scale (2**bits - 1) applied
    to the [0, 1] image must not exceed that type's largest value ("values up to
    the stated quantization")."""
    import itertools
    q = IO + '_save_im'
    fd = prog.func(q)
    loc = prog.loc(q, fd)
    dsym = sym('depth')
    lits = sorted({int(n.comparators[0].value) for n in ast.walk(fd)
                   if isinstance(n, ast.Compare) and isinstance(n.left, ast.Name)
                   and n.left.id == 'depth' and len(n.comparators) == 1
                   and isinstance(n.comparators[0], ast.Constant)
                   and isinstance(n.comparators[0].value, int)
                   and not isinstance(n.comparators[0].value, bool)})
    INT_MAX = {'uint8': 2**8 - 1, 'int8': 2**7 - 1, 'uint16': 2**16 - 1,
               'int16': 2**15 - 1, 'uint32': 2**32 - 1, 'int32': 2**31 - 1,
               'uint64': 2**64 - 1, 'int64': 2**63 - 1}

    def const_of(t, k):
        """fold a term built from literals and `depth` (= k) to a Python value"""
        if t == dsym:
            return k
        if is_num(t):
            return int(t[1]) if t[1].denominator == 1 else float(t[1])
        if t[0] == 'const':
            return t[1]
        if t[0] == 'bin' and t[1] in ('+', '-', '*', '**'):
            a, b = const_of(t[2], k), const_of(t[3], k)
            if a is None or b is None:
                return None
            try:
                return {'+': lambda: a + b, '-': lambda: a - b, '*': lambda: a * b,
                        '**': lambda: a ** b}[t[1]]()
            except Exception:
                return None
        if t[0] == 'call' and t[1] == 'str' and len(t[2]) == 1:
            v = const_of(t[2][0], k)
            return None if v is None else str(v)
        return None
    bad = []
    n = 0
    for k in lits:
        def decide(t, k=k):
            if t[0] == 'cmp' and t[1] in ('==', '!=') and t[2] == dsym:
                if is_num(t[3]):
                    v = t[3][1] == k
                elif t[3][0] == 'const':
                    v = False
                else:
                    return None
                return v if t[1] == '==' else (not v)
            return None
        it = Interp(prog, max_depth=1, decide=decide, opaque=[IO + 'pack_attrs'])
        res = it.analyze(q)
        if res.raises and not res.returns:
            continue            # this depth is refused
        casts = [c for c in it.calls if c['name'].endswith('.astype') and len(c['args']) == 2]
        for c in casts:
            n += 1
            name = const_of(c['args'][1], k)
            if name not in INT_MAX:
                bad.append('depth=%d: astype(%r) is not a NumPy integer type' % (k, name))
                continue
            scales = [const_of(x[3], k) for x in subterms(c['args'][0])
                      if x[0] == 'bin' and x[1] == '*' and const_of(x[3], k) is not None]
            scales += [const_of(x[2], k) for x in subterms(c['args'][0])
                       if x[0] == 'bin' and x[1] == '*' and const_of(x[2], k) is not None]
            if not scales or max(scales) > INT_MAX[name]:
                bad.append('depth=%d: grey levels %s do not fit %s' % (k, scales, name))
    check.floor('bit depths of the TIFF writer', n, 2)
    check.require(not bad, 'U7-depth-options', '_save_im',
                  'for every accepted depth %s the cast names an integer type that holds '
                  'the scaled values' % lits, loc, fail_detail='; '.join(bad))
