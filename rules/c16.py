"""C16  Images keep values, coordinates and metadata through I/O and edits.

Decides from the source:
  U1  update_metadata returns a new image (the copy precedes every store),
      changes only fields whose argument is not None (`updated` filters on
      `is not None`), and normalises the polarisation through to_vector (unit
      length: C01's rule);
  U2  the attrs packer and unpacker agree: every plain attribute that is not
      None is written (the guard is implied by `val is not None`, so 0 / False /
      '' survive); labelled-array attributes are written with their coordinates
      and read back as DataArrays with those coordinates; side-channel keys
      written by the TIFF path (name, spacing, _image_scaling, _dummy_channel)
      are exactly the ones the reader consumes or ignores;
  U3  pixel (i, j) sits at (i * s_x, j * s_y): make_coords / data_grid;
  U4  averaging: Accumulator.push is Welford's recurrence (variance update uses
      the old mean, then the mean is updated), std = sqrt(S / n), the queries
      mean() / std() do not modify the accumulator, push does not alias its
      argument; load_average's relative noise is mean(std / mean) and its crop
      uses, for each axis, that axis' own spacing.
Not decided: HDF5 / TIFF byte-level round trips and quantisation (library).
"""
import ast

from hpstatic.effects import writes
from hpstatic.interp import Interp, expr_term
from hpstatic.logic import eval3
from hpstatic.loader import AnalysisError
from hpstatic.poly import Canon
from hpstatic.terms import (sym, intern, show, subterms, calls_in, NONE, num, kw,
                            FALSE, TRUE)
from hpstatic.xrnorm import atom_rewrite
from . import c01
from .common import const_list

MUTATION_TARGETS = {'holopy/core/io/io.py': ['pack_attrs', 'unpack_attrs', 'push', 'mean', 'std', 'load_average', 'save'], 'holopy/core/metadata.py': ['update_metadata', 'make_coords', 'data_grid', 'to_vector'], 'holopy/core/utils.py': ['updated']}

LEVEL = 'other'
META = dict(
    claimed=True,
    technique='effect analysis (copy-before-store, query purity), 3-valued '
              'evaluation of the writer\'s filter, writer/reader key-table '
              'agreement, canonical-form equality of the coordinate grid and of '
              'Welford\'s recurrence',
    level_text='Static: U1-U4 hold for all images/metadata (they are about which keys '
               'are written under which guard, which object is stored into, and the '
               'algebra of the running mean/variance).  Byte-level HDF5/TIFF '
               'behaviour and 8/16-bit quantisation are not decided.',
    level_note='Trusted: DataArray.copy() is deep, the attrs setter copies; PyYAML '
               'dump/safe_load round-trip plain scalars; h5netcdf stores attrs '
               'verbatim.',
)

IO = 'holopy.core.io.io.'
MD = 'holopy.core.metadata.'


def run(check, prog):
    check.explanation = (
        'update_metadata, pack_attrs/unpack_attrs, make_coords and Accumulator are '
        'evaluated into terms; guards are evaluated under hypotheses, key tables '
        'are compared, recurrences are compared with Welford\'s formulas.')
    metadata_edit(check, prog)
    attrs_tables(check, prog)
    grid(check, prog)
    accumulator(check, prog)
    load_average(check, prog)


def metadata_edit(check, prog):
    q = MD + 'update_metadata'
    fd = prog.func(q)
    loc = prog.loc(q, fd)
    it = Interp(prog, max_depth=1, opaque=[MD + 'dict_to_array', MD + 'to_vector',
                                           'holopy.core.utils.updated'])
    res = it.analyze(q)
    bad = []
    n = 0
    for e, st, rs in writes(it):
        n += 1
        if any(r == ('param', 'a') for r in rs):
            bad.append(e)
    check.require(not bad and n >= 1, 'U1-new-image', 'update_metadata',
                  'every store goes into the copy (%d stores)' % n, loc,
                  fail_detail='stores into the input image: %s' % [
                      (e.get('target_src'), e['lineno']) for e in bad])
    v = res.ret
    root = v
    while root[0] == 'upd':
        root = root[1]
    while root[0] == 'ite':
        root = root[2]
        while root[0] == 'upd':
            root = root[1]
    ok = root == ('call', ('attr', sym('a'), 'copy'), (), ())
    check.require(ok, 'U1-new-image', 'update_metadata result',
                  'the result is built on a.copy()', loc,
                  fail_detail='result is rooted at %s' % show(root)[:100])
    # updated(): only non-None values replace existing ones
    q = 'holopy.core.utils.updated'
    fd = prog.func(q)
    it = Interp(prog, max_depth=1)
    res = it.analyze(q)
    st = [e for e in it.effects if e['kind'] == 'setitem']
    ok = len(st) == 1
    if ok:
        val = st[0]['value']

        def hyp_set(t):
            if t == ('cmp', 'is not', val, NONE):
                return True
            if t == ('cmp', 'is', val, NONE):
                return False
            return None

        def hyp_none(t):
            if t == ('cmp', 'is not', val, NONE):
                return False
            if t == ('cmp', 'is', val, NONE):
                return True
            if t == sym('filter_none'):
                return True
            return None
        conds = [(t, p) for t, p in st[0]['cond'] if t[0] != 'loop-iter']

        def ev(h):
            vals = []
            for t, p in conds:
                x = eval3(t, h)
                vals.append(None if x is None else (x if p else not x))
            if any(x is False for x in vals):
                return False
            return True if all(x is True for x in vals) else None
        ok = ev(hyp_set) is True and ev(hyp_none) is False
        rootd = st[0]['base']
        if rootd[0] == 'phi':
            lp = it.loops.get(rootd[2])
            rootd = lp['vars'][rootd[1]][0] if lp and rootd[1] in lp['vars'] else rootd
        ok = ok and rootd == ('copy', 'shallow', sym('d'))
    check.require(ok, 'U1-only-named-fields', 'updated',
                  'a key is replaced iff its new value is not None, in a copy of the '
                  'dict', prog.loc(q, fd))
    c01.f3_vectors(check, prog, Canon())


def attrs_tables(check, prog):
    q = IO + 'pack_attrs'
    fd = prog.func(q)
    loc = prog.loc(q, fd)
    it = Interp(prog, max_depth=1, opaque=[MD + 'get_spacing',
                                           'holopy.core.utils.ensure_array'])
    res = it.analyze(q)
    stores = [e for e in it.effects if e['kind'] == 'setitem']
    def level(b):
        # nesting depth of the container a store goes into: 0 = the packed
        # mapping itself, 1 = its coordinate table, 2 = one attribute's entry
        return 1 + level(b[1]) if b[0] == 'idx' else 0

    def in_coords(b):
        while b[0] == 'idx' and b[1][0] == 'idx':
            b = b[1]
        return b[0] == 'idx' and b[2] == ('const', '_attr_coords')
    top = [e for e in stores if level(e['base']) == 0 and e['key'][0] != 'const']
    plain = [e for e in top if calls_in(e['value'], 'yaml.dump')]
    arrays = [e for e in top if not calls_in(e['value'], 'yaml.dump')]
    check.floor('plain-attribute stores in pack_attrs', len(plain), 1)
    for e in plain:
        dumped = calls_in(e['value'], 'yaml.dump')[0][2][0]

        def hyp(t):
            if t == ('cmp', 'is not', dumped, NONE):
                return True
            if t == ('cmp', 'is', dumped, NONE):
                return False
            if t[0] == 'call' and t[1] == 'isinstance':
                return False
            return None
        vals = []
        for t, p in e['cond']:
            if t[0] == 'loop-iter':
                continue
            x = eval3(t, hyp)
            vals.append(None if x is None else (x if p else not x))
        verdict = False if any(x is False for x in vals) else (
            True if all(x is True for x in vals) else None)
        check.require(verdict is True, 'U2-writer-keeps-non-None', 'pack_attrs',
                      'every plain attribute that is not None is written', loc,
                      fail_detail='the guard of new_attrs[attr] = yaml.dump(val) is not '
                      'implied by "val is not None" (evaluates to %r): falsy metadata '
                      'such as noise_sd = 0 or a channel index 0 is dropped on save' % (
                          verdict,))
    # coordinate table
    ref = [e for e in stores if level(e['base']) == 1 and in_coords(e['base'])]
    vals = {show(e['value']) for e in ref}
    ok = any(e['value'] == FALSE for e in ref) and any(e['value'] == ('dict', ())
                                                       for e in ref)
    check.require(ok, 'U2-coordinate-table', 'pack_attrs',
                  'attr_coords[attr] is False for plain values and a {dim: values} '
                  'table for labelled arrays', loc, fail_detail='stores %s' % sorted(vals))
    dimst = [e for e in stores if level(e['base']) == 2 and in_coords(e['base'])]
    ok = len(dimst) == 1 and dimst[0]['value'][0] == 'attr' and dimst[0]['value'][2] == 'values'
    check.require(ok, 'U2-coordinate-table', 'pack_attrs dims',
                  'each dimension of a labelled attribute is stored with its '
                  'coordinate values', loc)
    check.require(len(arrays) == 1 and bool(calls_in(arrays[0]['value'], 'list')),
                  'U2-coordinate-table', 'pack_attrs array values',
                  'labelled attribute values are stored as a list', loc)
    side_written = set()
    for e in stores:
        k = e['key']
        if level(e['base']) == 0 and k[0] == 'const':
            side_written.add(k[1])
    # unpacker
    q2 = IO + 'unpack_attrs'
    fd2 = prog.func(q2)
    loc2 = prog.loc(q2, fd2)
    it2 = Interp(prog, max_depth=1, opaque=['holopy.core.utils.dict_without'])
    res2 = it2.analyze(q2)
    ign = None
    dw = [c for c in it2.calls if c['name'] == 'holopy.core.utils.dict_without']
    if len(dw) == 1 and len(dw[0]['args']) == 2:
        ign = const_list(dw[0]['args'][1])
    check.require(ign is not None, 'U2-reader-table', 'unpack_attrs ignore list',
                  'literal list of side-channel keys', loc2)
    ign = ign or []
    st2 = [e for e in it2.effects if e['kind'] == 'setitem' and
           level(e['base']) == 0 and e['key'][0] != 'const']
    kinds = set()
    for e in st2:
        v = e['value']
        if v[0] == 'call' and v[1] == 'xarray.DataArray':
            co = kw(v, 'coords')
            dm = kw(v, 'dims')
            if co is not None and co[0] == 'idx' and dm is not None and \
                    calls_in(dm, 'keys'):
                kinds.add('array')
        elif v[0] == 'call' and v[1] == 'yaml.safe_load':
            kinds.add('plain')
        elif v == NONE:
            kinds.add('none')
    check.require(kinds == {'array', 'plain', 'none'}, 'U2-reader-table', 'unpack_attrs',
                  'labelled arrays are rebuilt with their stored coordinates, plain '
                  'values are parsed, unwritten (None) values come back as None', loc2,
                  fail_detail='reader branches: %s' % sorted(kinds))
    # side-channel keys: pack_attrs + vis.display_image write, load reads / ignore list
    vis = prog.module('holopy.core.io.vis')
    for n in ast.walk(vis.tree):
        if isinstance(n, ast.Subscript) and isinstance(n.ctx, ast.Store) and \
                isinstance(n.value, ast.Attribute) and n.value.attr == 'attrs' and \
                isinstance(n.slice, ast.Constant):
            side_written.add(n.slice.value)
    side_written.discard('_attr_coords')
    attr_key = intern(('global', 'holopy.core.io.io.attr_coords'))
    iom = prog.module('holopy.core.io.io')
    loadfd = prog.func(IO + 'load')
    read_in_load = set()
    for n in ast.walk(loadfd):
        if isinstance(n, ast.Subscript) and isinstance(n.value, ast.Name) and \
                n.value.id == 'meta' and isinstance(n.slice, ast.Constant):
            read_in_load.add(n.slice.value)
        if isinstance(n, ast.Compare) and isinstance(n.left, ast.Constant) and \
                isinstance(n.comparators[0], ast.Name) and n.comparators[0].id == 'meta':
            read_in_load.add(n.left.value)
    check.floor('side-channel keys written', len(side_written), 4)
    for k in sorted(side_written):
        check.require(k in ign, 'U2-side-keys', 'side key %r ignored by unpack_attrs' % k,
                      'a side-channel key is not mistaken for image metadata', loc2,
                      fail_detail='%r is written next to the metadata but unpack_attrs '
                      'does not ignore it' % k)
        check.require(k in read_in_load, 'U2-side-keys', 'side key %r read by load' % k,
                      'the TIFF reader consumes it', prog.loc(IO + 'load', loadfd),
                      fail_detail='%r is written by the TIFF writer but never read by '
                      'load()' % k)
    for k in sorted(ign):
        check.require(k in side_written, 'U2-side-keys', 'ignored key %r is written' % k,
                      'the ignore list has no stale entries', loc2)
    # save(): HDF5 path packs the attrs of a copy
    q3 = IO + 'save'
    fd3 = prog.func(q3)
    it3 = Interp(prog, max_depth=1, opaque=[IO + 'pack_attrs', IO + 'save_image',
                                            IO + 'default_extension',
                                            'holopy.core.io.serialize.save'])
    res3 = it3.analyze(q3)
    badw = [e for e, st, rs in writes(it3) if any(r == ('param', 'obj') for r in rs)]
    check.require(not badw, 'U2-save-does-not-modify', 'save',
                  'saving packs the attrs of a copy, the image itself is untouched',
                  prog.loc(q3, fd3), fail_detail='save() stores into its argument: %s' % [
                      (e.get('target_src'), e['lineno']) for e in badw])


def grid(check, prog):
    q = MD + 'make_coords'
    fd = prog.func(q)
    loc = prog.loc(q, fd)

    def decide(t):
        if t[0] == 'call' and t[1] == 'numpy.isscalar':
            return False
        return None
    it = Interp(prog, max_depth=1, decide=decide, opaque=['holopy.core.utils.ensure_array'])
    res = it.analyze(q)
    v = res.ret
    canon = Canon()
    ok = v[0] == 'dict'
    if ok:
        d = {k[1]: val for k, val in v[1]}
        env = {'shape': sym('shape'), 'spacing': sym('spacing')}
        wx = expr_term(prog, 'np.arange(shape[1]) * spacing[0]', env)
        wy = expr_term(prog, 'np.arange(shape[2]) * spacing[1]', env)
        check.require('x' in d and canon.equal(d['x'], wx), 'U3-pixel-grid', 'make_coords x',
                      'x_i = i * spacing[0] for i < shape[1]', loc,
                      fail_detail='x = %s' % (canon.show(d['x'])[:120] if 'x' in d else None))
        check.require('y' in d and canon.equal(d['y'], wy), 'U3-pixel-grid', 'make_coords y',
                      'y_j = j * spacing[1] for j < shape[2]', loc,
                      fail_detail='y = %s' % (canon.show(d['y'])[:120] if 'y' in d else None))
    else:
        check.bad('U3-pixel-grid', 'make_coords', 'does not return a coordinate dict: %s'
                  % show(v)[:120], loc)
    q = MD + 'data_grid'
    fd = prog.func(q)
    it = Interp(prog, max_depth=1, opaque=[MD + 'make_coords', MD + 'update_metadata'])
    res = it.analyze(q)
    mc = [c for c in it.calls if c['name'] == MD + 'make_coords']
    ok = len(mc) == 1
    if ok:
        a = mc[0]['args']
        sp = a[1]
        ok = any(x == sym('spacing') for x in subterms(sp)) and \
            any(x == ('attr', y, 'shape') for x in subterms(a[0]) for y in [x[1]]
                if x[0] == 'attr' and x[2] == 'shape')
    check.require(ok, 'U3-pixel-grid', 'data_grid',
                  'coordinates come from make_coords(arr.shape, spacing, z)',
                  prog.loc(q, fd))
    da = [c for c in it.calls if c['name'] == 'xarray.DataArray']
    ok = len(da) == 1 and kw_of(da[0], 'dims') is not None
    if ok:
        dims = kw_of(da[0], 'dims')
        ok = any(x == ('list', (('const', 'z'), ('const', 'x'), ('const', 'y')))
                 for x in subterms(dims))
    check.require(ok, 'U3-pixel-grid', 'data_grid dims',
                  "array axes are labelled ['z', 'x', 'y'] + extra dims", prog.loc(q, fd))


def kw_of(callrec, name):
    return dict(callrec['kwargs']).get(name)


def accumulator(check, prog):
    AQ = IO + 'Accumulator'
    canon = Canon()
    q = AQ + '.push'
    fd = prog.func(q)
    loc = prog.loc(q, fd)

    def first(t):
        if t[0] == 'cmp' and t[1] == '==' and t[3] == num(1):
            return False
        return None
    it = Interp(prog, max_depth=1, decide=first)
    res = it.analyze(q)
    env = res.returns[0].env
    s = env['self']
    M = intern(('attr', sym('self'), '_running_mean'))
    S = intern(('attr', sym('self'), '_running_var'))
    n0 = intern(('attr', sym('self'), '_n'))
    fr = None
    from hpstatic.interp import Frame
    fr = Frame(prog.module_of(q), AQ, AQ, 'self', 0, q)
    n1 = it.getattr_term(s, '_n', fr, ())
    M1 = it.getattr_term(s, '_running_mean', fr, ())
    S1 = it.getattr_term(s, '_running_var', fr, ())
    x = sym('x')
    ev = {'M': M, 'S': S, 'n': intern(('bin', '+', n0, num(1))), 'x': x}
    check.require(canon.equal(n1, ev['n']), 'U4-welford', 'Accumulator.push count',
                  'n <- n + 1', loc, fail_detail='n becomes %s' % canon.show(n1))
    wM = expr_term(prog, 'M + (x - M) / n', ev)
    wS = expr_term(prog, 'S + (x - M) * (x - (M + (x - M) / n))', ev)
    check.require(canon.equal(M1, wM), 'U4-welford', 'Accumulator.push mean',
                  'M_n = M_{n-1} + (x - M_{n-1}) / n', loc,
                  fail_detail='mean becomes %s' % canon.show(M1)[:200])
    check.require(canon.equal(S1, wS), 'U4-welford', 'Accumulator.push variance',
                  'S_n = S_{n-1} + (x - M_{n-1}) (x - M_n), using the mean before its '
                  'own update', loc,
                  fail_detail='running sum of squares becomes %s; Welford gives %s' % (
                      canon.show(S1)[:200], canon.show(wS)[:200]))

    def firstT(t):
        if t[0] == 'cmp' and t[1] == '==' and t[3] == num(1):
            return True
        return None
    it = Interp(prog, max_depth=1, decide=firstT)
    res = it.analyze(q)
    s = res.returns[0].env['self']
    M1 = it.getattr_term(s, '_running_mean', fr, ())
    S1 = it.getattr_term(s, '_running_var', fr, ())
    check.require(canon.equal(M1, x) and canon.is_zero(S1) and S1 != num(0) and
                  M1 != x, 'U4-welford', 'Accumulator.push first',
                  'first push: S = 0 * x (new array), M = S + x (new array, not x '
                  'itself)', loc,
                  fail_detail='first push stores M = %s, S = %s: the accumulator would '
                  'alias (and later modify in place) the pushed image' % (
                      show(M1)[:60], show(S1)[:60]))
    # queries are pure
    for m in ('mean', 'std'):
        q = AQ + '.' + m
        fd = prog.func(q)
        it = Interp(prog, max_depth=1)
        res = it.analyze(q)
        bad = [e for e, st, rs in writes(it) if any(r == ('param', 'self') for r in rs)]
        check.require(not bad, 'U4-query-is-pure', 'Accumulator.' + m,
                      'the query does not modify the running sums', prog.loc(q, fd),
                      fail_detail='Accumulator.%s modifies %s in place: a second query, '
                      'or a push after a query, gives wrong values' % (
                          m, [e.get('target_src') or show(e.get('target'))[:40]
                              for e in bad]))
    q = AQ + '.std'
    it = Interp(prog, max_depth=1)
    res = it.analyze(q)
    vals = [o.value for o in res.returns if o.value != NONE]
    w = expr_term(prog, 'np.sqrt(S / n)', {'S': S, 'n': n0})
    check.require(len(vals) == 1 and canon.equal(vals[0], w), 'U4-welford',
                  'Accumulator.std', 'std = sqrt(S / n)', prog.loc(q, prog.func(q)),
                  fail_detail='std returns %s' % [canon.show(v)[:80] for v in vals])
    q = AQ + '.mean'
    it = Interp(prog, max_depth=1)
    res = it.analyze(q)
    ok = any(x2 == M for x2 in subterms(res.ret))
    check.require(ok, 'U4-welford', 'Accumulator.mean', 'mean() returns the running mean',
                  prog.loc(q, prog.func(q)))


def load_average(check, prog):
    q = IO + 'load_average'
    fd = prog.func(q)
    loc = prog.loc(q, fd)
    it = Interp(prog, max_depth=1, opaque=[
        IO + 'load_image', MD + 'get_spacing', MD + 'copy_metadata',
        MD + 'update_metadata', IO + 'Accumulator.push', IO + 'Accumulator.mean',
        IO + 'Accumulator.std', IO + 'Accumulator.__init__'], inline_new=False)
    res = it.analyze(q)
    um = [c for c in it.calls if c['name'] == MD + 'update_metadata']
    ok = len(um) == 1
    canon = Canon(atom_rewrite=atom_rewrite)
    if ok:
        noise = um[0]['args'][4] if len(um[0]['args']) > 4 else dict(um[0]['kwargs']).get(
            'noise_sd')
        # relative noise = mean over x, y, z of std / mean
        cand = [x for x in subterms(noise) if x[0] == 'call' and isinstance(x[1], tuple)
                and x[1][0] == 'attr' and x[1][2] == 'mean' and x[1][1][0] == 'bin'
                and x[1][1][1] == '/']
        ok = bool(cand)
        if ok:
            num_t, den_t = cand[0][1][1][2], cand[0][1][1][3]
            ok = bool(calls_in(num_t, 'std')) and bool(calls_in(den_t, 'mean')) and \
                cand[0][2] and cand[0][2][0] == ('list', (('const', 'x'), ('const', 'y'),
                                                         ('const', 'z')))
    check.require(ok, 'U4-relative-noise', 'load_average noise_sd',
                  'noise_sd = mean over pixels of std / mean', loc)
    # crop: each axis uses its own spacing
    isel = [x for x in subterms(res.ret) if x[0] == 'call' and isinstance(x[1], tuple)
            and x[1][0] == 'attr' and x[1][2] == 'isel']
    for c in it.calls:
        pass
    found = 0
    undecided = []
    for x in isel:
        kws = dict(x[3])
        for ax, i in (('x', 0), ('y', 1)):
            if ax not in kws:
                continue
            found += 1
            t = kws[ax]
            divs = [y for y in subterms(t) if y[0] == 'bin' and y[1] == '/']
            good = False
            why = show(t)[:160]
            for dv in divs:
                numer, denom = dv[2], dv[3]
                if any(z == ('idx', sym('refimg'), ('const', ax)) for z in subterms(numer)):
                    # denominator must be component i of the (2-vector) spacing
                    d = denom
                    comps = [z for z in subterms(d) if z[0] == 'idx' and z[2] == num(i)]
                    other = [z for z in subterms(d) if z[0] == 'idx' and
                             z[2] == num(1 - i)]
                    if d[0] == 'idx' and d[2] == num(i):
                        good = True
                    elif d[0] == 'idx' and d[2] == num(1 - i):
                        good = False
                        why = '%s extent divides by spacing[%d]' % (ax, 1 - i)
                    else:
                        undecided.append((ax, show(d)[:100]))
                        good = None
            if good is None:
                continue
            check.require(bool(good), 'U4-crop-spacing', 'load_average crop ' + ax,
                          'the %s extent of the reference image is converted to pixels '
                          'with the %s spacing' % (ax, ax), loc, fail_detail=why)
    for ax, d in undecided:
        check.error('load_average: cannot resolve which spacing component divides the '
                    '%s extent (%s)' % (ax, d))
    check.floor('crop extents in load_average', found, 2)
