"""C20  Scatterer containment, layers and overlaps match the analytic shapes.

Decides from the source:
  K1  translation moves the containment region: for every scatterer class the
      attributes its resolved `translated` changes intersect those its resolved
      `in_domain` reads (mod/ref), and the call does not raise (no store to a
      setter-less property);
  K2  set operations: Union -> or, Difference -> and-not, Intersection -> and,
      over s1.in_domain(points), s2.in_domain(points);
  K3  sphere / layer indicators: layer i tests sum(p^2) < r_i^2 with *its own*
      r_i (closures created in a loop / comprehension must bind the iteration
      variable); points are taken relative to the centre; domains are numbered
      i+1, first indicator wins, and index_at looks the same numbers up;
      ellipsoid: sum((p / r)^2) < 1; bounding boxes are +-semi-axis per axis;
  K4  overlaps <=> distance < sum of outer radii, for every pair i < j; the
      largest overlap is max(0, sum of outer radii - distance) over the same
      pairs (sibling agreement);
  K5  warning iff overlap and warn; non-sphere members, negative radii and
      malformed centres are rejected.
Not decided: voxel convergence, capsule / janus / bisphere geometry.
"""
import ast

from hpstatic.interp import Interp, expr_term
from hpstatic.loader import AnalysisError
from .common import lt_form
from hpstatic.logic import nnf
from hpstatic.poly import Canon
from hpstatic.terms import (sym, intern, show, subterms, calls_in, NONE, num, kw)
from hpstatic.xrnorm import atom_rewrite
from .common import SCATTERER, self_attr_stores, path_has, norm_cond, as_difference, is_sum
from hpstatic.logic import cmp_is

MUTATION_TARGETS = {'holopy/scattering/scatterer/scatterer.py': ['in_domain', 'index_at', 'contains', 'translated', '__init__', 'find_bounds', 'bound_union', '_voxel_coords', 'voxelate', 'voxelate_domains'], 'holopy/scattering/scatterer/sphere.py': ['indicators', '__init__'], 'holopy/scattering/scatterer/ellipsoid.py': ['indicators'], 'holopy/scattering/scatterer/csg.py': ['in_domain', 'translated'], 'holopy/scattering/scatterer/spherecluster.py': ['overlaps', 'largest_overlap', '__init__', 'add'], 'holopy/core/math.py': ['cartesian_distance']}

LEVEL = 'other'
META = dict(
    claimed=True,
    technique='mod/ref analysis of translated vs in_domain per class (MRO-aware); '
              'boolean-structure extraction of the CSG set operations; canonical-form '
              'comparison of indicator inequalities and overlap tests; late-binding '
              'closure lint; CFG raising paths of the constructors'
              '; root analysis of the six probe points of find_bounds through the sea'
              'rch recurrences'
              '; pair members of the overlap loops; fresh member list of the collection constructors; union of the per-function bounding boxes; voxel grid spanning the bounding box at the requested pitch; sibling cross-check of the sign and centre-shape refusals over the primitive shapes',
    level_text='Static: K1-K5 are decided exhaustively over every Scatterer subclass '
               'and every pair enumeration in the source.  They are the analytic '
               'inequalities themselves (K2-K4) and necessary conditions of the '
               'translation clause (K1).  Bounding-box containment beyond the '
               'explicit boxes and voxel convergence are not decided.',
    level_note='Trusted: numpy elementwise semantics; closures capture variables, '
               'not values (Python semantics).',
)

SC = 'holopy.scattering.scatterer.'


def run(check, prog):
    check.explanation = (
        'For each scatterer class the methods resolved through its MRO are analysed: '
        'which attributes translated() changes, which in_domain() reads; indicator '
        'lambdas and overlap tests are compared with the analytic inequalities.')
    translation(check, prog)
    set_ops(check, prog)
    indicators(check, prog)
    overlaps(check, prog)
    own_member_list(check, prog)
    constructors(check, prog)
    csg_motion(check, prog)
    bounds_search(check, prog)
    # `the layer a point lies in`: a sphere given by layer thicknesses has the
    # running sum of the thicknesses as its radii, computed afresh (not into the
    # stored thicknesses) on every use (rule shared with C02)
    from hpstatic.poly import Canon
    from . import c02
    c02.layered_radii(check, prog, Canon())
    bounds_union(check, prog)
    voxel_grid(check, prog)
    domain_count(check, prog)
    # translating a scatterer translates its region: nothing remembered on the
    # object survives the copy that translated() starts from (shared with C19)
    from . import c19
    c19.scatterer_no_memo(check, prog)
    sphere_like_constructors(check, prog)
    # the region of a centred scatterer moves by the vector: centre' = centre + v
    from . import c19
    c19.scatterer_translated(check, prog)


# ----------------------------------------------------------------------
def self_reads(prog, cq, mname, depth=3):
    """attributes of self read (transitively through self.* calls / properties)"""
    hit = prog.lookup(cq, mname)
    if not hit or hit[0] not in ('method', 'property'):
        return None
    fd = hit[2]['getter'] if hit[0] == 'property' else hit[2]
    seen = set()
    reads = set()
    todo = [(hit[1], fd)]
    n = 0
    while todo and n < 40:
        owner, f = todo.pop()
        n += 1
        if (owner, f.name) in seen or not f.args.args:
            continue
        seen.add((owner, f.name))
        sn = f.args.args[0].arg
        for node in ast.walk(f):
            if isinstance(node, ast.Attribute) and isinstance(node.value, ast.Name) \
                    and node.value.id == sn and isinstance(node.ctx, ast.Load):
                reads.add(node.attr)
                h2 = prog.lookup(cq, node.attr)
                if h2 and h2[0] == 'method':
                    todo.append((h2[1], h2[2]))
                elif h2 and h2[0] == 'property' and h2[2]['getter'] is not None:
                    todo.append((h2[1], h2[2]['getter']))
    return reads


def translation(check, prog):
    n = 0
    for cq in prog.subclasses(SCATTERER):
        short = cq.rpartition('.')[2]
        ht = prog.lookup(cq, 'translated')
        hi = prog.lookup(cq, 'in_domain')
        if not ht or not hi:
            continue
        n += 1
        fd = ht[2]
        loc = prog.loc(ht[1], fd)
        # attributes written: the layers stored on top of copy(self) in the
        # returned object, or everything __init__ sets when a new instance of
        # the same class is built
        written = set()
        raises = None
        sn = fd.args.args[0].arg
        it = Interp(prog, max_depth=1, opaque=['holopy.core.utils.ensure_array'])
        res = it.analyze(ht[1] + '.translated', selfcls=cq)
        t = res.ret
        while t[0] == 'upd' and t[2] == 'attr':
            written.add(t[3])
            ph = prog.lookup(cq, t[3])
            if ph and ph[0] == 'property' and ph[2]['setter'] is None:
                raises = t[3]
            t = t[1]
        rebuilt = t[0] == 'call' and (
            t[1] == ('attr', sym(sn), '__class__') or
            t[1] == ('call', 'type', (sym(sn),), ()))
        if rebuilt:
            hinit = prog.lookup(cq, '__init__')
            if hinit:
                written |= {a.arg for a in hinit[2].args.args[1:]}
                for n2 in ast.walk(hinit[2]):
                    if isinstance(n2, ast.Attribute) and \
                            isinstance(n2.ctx, ast.Store) and \
                            isinstance(n2.value, ast.Name) and \
                            n2.value.id == hinit[2].args.args[0].arg:
                        written.add(n2.attr)
        elif not (t[0] == 'copy' and t[2] == sym(sn)):
            raise AnalysisError('%s.translated returns %s: neither a modified copy of '
                                'self nor a rebuilt instance' % (short, show(t)[:120]))
        reads = self_reads(prog, cq, 'in_domain') or set()
        construct = '%s.translated' % short
        if 'indicators' in reads and not prog.lookup(cq, 'indicators') and \
                'indicators' not in self_attr_stores(prog, cq):
            check.note('abstract scatterer classes (no indicators)', short)
            continue
        if raises:
            check.bad('K1-translation-moves-region', construct,
                      '%s inherits %s.translated, which assigns .%s -- a property '
                      'without setter on %s: translating raises AttributeError' % (
                          short, ht[1].rpartition('.')[2], raises, short), loc)
            continue
        # properties read by in_domain that are computed from written attributes
        common = written & reads
        check.require(bool(common), 'K1-translation-moves-region', construct,
                      'translated() changes %s, which in_domain() reads' % sorted(common),
                      loc, fail_detail='%s.translated (from %s) changes only %s, but '
                      '%s.in_domain (from %s) reads %s: the containment region does '
                      'not move with the scatterer' % (
                          short, ht[1].rpartition('.')[2], sorted(written), short,
                          hi[1].rpartition('.')[2], sorted(reads)))
    check.floor('scatterer classes with translated and in_domain', n, 12)


# ----------------------------------------------------------------------
def set_ops(check, prog):
    want = {'Union': ('or', [(1, False), (2, False)]),
            'Difference': ('and', [(1, False), (2, True)]),
            'Intersection': ('and', [(1, False), (2, False)])}
    for cname, (op, lits) in want.items():
        q = SC + 'csg.' + cname + '.in_domain'
        fd = prog.func(q)
        loc = prog.loc(q, fd)
        it = Interp(prog, max_depth=1)
        res = it.analyze(q)
        f = nnf(res.ret)
        got_op = f[0]
        items = f[1] if f[0] in ('and', 'or') else []
        got = []
        for itm in items:
            if itm[0] != 'atom':
                got = None
                break
            t = itm[1]
            neg = False
            if t[0] == 'un' and t[1] == 'not':
                neg, t = True, t[2]
            which = None
            for k in (1, 2):
                if t == ('call', ('attr', ('attr', sym('self'), 's%d' % k), 'in_domain'),
                         (sym('points'),), ()):
                    which = k
            got.append((which, neg))
        ok = got_op == op and got is not None and sorted(got) == sorted(lits)
        names = {(1, False): 's1', (2, False): 's2', (2, True): 'not s2', (1, True): 'not s1'}
        check.require(ok, 'K2-set-operation', cname + '.in_domain',
                      '%s = %s' % (cname, (' %s ' % op).join(names[l] for l in lits)),
                      loc, fail_detail='%s.in_domain computes %s' % (
                          cname, show(res.ret)[:200]))


# ----------------------------------------------------------------------
def late_binding(check, prog):
    """closures created in a loop / comprehension that read the iteration
    variable without binding it see only its last value"""
    n = 0
    for cq in prog.subclasses(SCATTERER):
        c = prog.classes[cq]
        fds = list(c.methods.values()) + [p['getter'] for p in c.properties.values()
                                          if p['getter'] is not None]
        for fd in fds:
            for node in ast.walk(fd):
                gens = []
                body = []
                if isinstance(node, (ast.ListComp, ast.GeneratorExp, ast.SetComp)):
                    gens, body = node.generators, [node.elt]
                elif isinstance(node, ast.DictComp):
                    gens, body = node.generators, [node.key, node.value]
                elif isinstance(node, ast.For):
                    gens = [node]
                    body = node.body
                if not gens:
                    continue
                targets = set()
                for g in gens:
                    for t in ast.walk(g.target):
                        if isinstance(t, ast.Name):
                            targets.add(t.id)
                for b in body:
                    for lam in ast.walk(b):
                        if not isinstance(lam, (ast.Lambda, ast.FunctionDef)):
                            continue
                        n += 1
                        a = lam.args
                        bound = {x.arg for x in a.args + a.kwonlyargs + a.posonlyargs}
                        lbody = [lam.body] if isinstance(lam, ast.Lambda) else lam.body
                        free = set()
                        for lb in lbody:
                            for x in ast.walk(lb):
                                if isinstance(x, ast.Name) and isinstance(x.ctx, ast.Load) \
                                        and x.id in targets and x.id not in bound:
                                    free.add(x.id)
                        construct = '%s.%s closure' % (c.name, fd.name)
                        check.require(
                            not free, 'K3-closure-binds-loop-variable', construct,
                            'the closure binds the iteration variable (default '
                            'argument)', '%s:%d' % (c.module.relpath, lam.lineno),
                            fail_detail='the closure reads the iteration variable %s '
                            'without binding it: every closure built by the loop sees '
                            'the last value (every layer is tested against the '
                            'outermost radius)' % sorted(free))
    check.floor('closures created in loops of scatterer classes', n, 1)


def indicators(check, prog):
    late_binding(check, prog)
    canon = Canon(atom_rewrite=atom_rewrite)
    # Sphere: per-layer inequality
    q = SC + 'sphere.Sphere.indicators'
    fd = prog.func(q)
    loc = prog.loc(q, fd)
    lam = [n for n in ast.walk(fd) if isinstance(n, ast.Lambda)]
    ok = len(lam) == 1
    if ok:
        it = Interp(prog, max_depth=1)
        res = it.analyze(q)
        # evaluate the lambda body symbolically
        body = lam[0].body
        env = {'points': sym('points'), 'ri': sym('ri')}
        from hpstatic.interp import Frame
        fr = Frame(prog.module_of(q), None, None, None, 0, q)
        t = it.eval(body, env, fr, ())
        want = expr_term(prog, '(points**2).sum(-1) < ri**2',
                         {'points': sym('points'), 'ri': sym('ri')})
        ok = t[0] == 'cmp' and t[1] == '<' and canon.equal(t[2], want[2]) and \
            canon.equal(t[3], want[3])
        check.require(ok, 'K3-sphere-inequality', 'Sphere.indicators',
                      'layer indicator: sum(p^2) < r_i^2 (strict)', loc,
                      fail_detail='indicator is %s' % show(t)[:160])
        v = res.ret
        b = dict(v[3]).get('bound') if v[0] == 'new' else None
        okb = False
        if b is not None and b[0] == 'list' and len(b[1]) == 3:
            r = [x for x in subterms(b) if x[0] == 'call' and x[1] == 'max']
            okb = bool(r) and all(row == ('list', (('un', '-', r[0]), r[0])) for row in b[1])
        check.require(okb, 'K3-bounding-box', 'Sphere.indicators bound',
                      'box is [-r_max, r_max] on every axis', loc,
                      fail_detail='bound is %s' % (show(b)[:160] if b else None))
    else:
        check.bad('K3-sphere-inequality', 'Sphere.indicators',
                  'expected one indicator lambda, found %d' % len(lam), loc)
    # Ellipsoid
    q = SC + 'ellipsoid.Ellipsoid.indicators'
    fd = prog.func(q)
    loc = prog.loc(q, fd)
    lam = [n for n in ast.walk(fd) if isinstance(n, ast.Lambda)]
    it = Interp(prog, max_depth=1)
    res = it.analyze(q)
    if len(lam) == 1:
        from hpstatic.interp import Frame
        fr = Frame(prog.module_of(q), SC + 'ellipsoid.Ellipsoid', SC + 'ellipsoid.Ellipsoid',
                   'self', 0, q)
        t = it.eval(lam[0].body, {'point': sym('point'), 'self': sym('self')}, fr, ())
        want = expr_term(prog, '((point / self.r)**2).sum(-1) < 1',
                         {'point': sym('point'), 'self': sym('self')})
        ok = t[0] == 'cmp' and t[1] == '<' and canon.equal(t[2], want[2]) and \
            canon.equal(t[3], want[3])
        check.require(ok, 'K3-ellipsoid-inequality', 'Ellipsoid.indicators',
                      'sum((p / r)^2) < 1', loc, fail_detail='indicator is %s' % show(t)[:160])
    v = res.ret
    b = (v[2][1] if len(v[2]) > 1 else dict(v[3]).get('bound')) if v[0] == 'new' else None
    if b is None and v[0] == 'new':
        b = dict(v[3]).get('bound')
    okb = b is not None and b[0] == 'list' and len(b[1]) == 3
    if okb:
        r = intern(('attr', sym('self'), 'r'))
        for i, row in enumerate(b[1]):
            ri = intern(('idx', r, num(i)))
            good = row == ('list', (('un', '-', ri), ri))
            check.require(good, 'K3-bounding-box', 'Ellipsoid bound axis %d' % i,
                          'box on axis %d is [-r[%d], r[%d]]' % (i, i, i), loc,
                          fail_detail='axis %d extent is %s: with r[%d] larger, interior '
                          'points fall outside the reported bounds' % (i, show(row)[:80], i))
    else:
        check.bad('K3-bounding-box', 'Ellipsoid bound', 'no explicit 3-axis bound', loc)
    # Scatterer.in_domain / index_at numbering
    q = SC + 'scatterer.Scatterer.in_domain'
    fd = prog.func(q)
    loc = prog.loc(q, fd)
    it = Interp(prog, max_depth=1)
    res = it.analyze(q)
    lp = [l for l in it.loops.values() if l['func'] == q]
    ok = len(lp) == 1
    if ok:
        l = lp[0]
        itr = l['iter']
        ok_rev = itr[0] == 'call' and itr[1] == 'reversed' and \
            bool(calls_in(itr, 'enumerate'))
        ind_call = [c for c in subterms(itr) if c[0] == 'call' and
                    c[1] == ('attr', sym('self'), 'indicators')]
        ok_rel = bool(ind_call) and any(
            as_difference(x) is not None and
            as_difference(x)[1] == ('attr', sym('self'), 'center')
            for x in subterms(ind_call[0][2][0]))
        # the labelled array is the loop-carried value that is returned
        dname = res.ret[1] if res.ret[0] == 'loop' else None
        st = l['vars'].get(dname, (None, None))[1]
        ok_num = st is not None and st[0] == 'upd' and st[4][0] == 'bin' and \
            st[4][1] == '+' and num(1) in (st[4][2], st[4][3]) and \
            any(x[0] == 'idx' and x[2] == num(0) and x[1][0] == 'elem'
                for x in (st[4][2], st[4][3])) and \
            bool(calls_in(st[3], 'numpy.nonzero'))
        check.require(ok_rev, 'K3-first-indicator-wins', 'Scatterer.in_domain order',
                      'indicators are applied in reversed order, so the first (inner) '
                      'one is written last', loc,
                      fail_detail='iterates over %s' % show(itr)[:120])
        check.require(ok_rel, 'K3-relative-coordinates', 'Scatterer.in_domain',
                      'indicators are evaluated at points - centre', loc)
        check.require(ok_num, 'K3-domain-numbering', 'Scatterer.in_domain numbering',
                      'points of indicator i are labelled i + 1 (0 = outside)', loc,
                      fail_detail='assignment is %s' % (show(st)[:160] if st else None))
    else:
        check.bad('K3-domain-numbering', 'Scatterer.in_domain', 'no labelling loop', loc)
    q = SC + 'scatterer.Scatterer.index_at'
    fd = prog.func(q)
    it = Interp(prog, max_depth=1, opaque=[SC + 'scatterer.Scatterer.in_domain'])
    res = it.analyze(q)
    lp = [l for l in it.loops.values() if l['func'] == q]
    ok = len(lp) == 1
    if ok:
        iname = res.ret[1] if res.ret[0] == 'loop' else None
        st = lp[0]['vars'].get(iname, (None, None))[1]
        ok = st is not None and st[0] == 'upd' and st[3][0] == 'cmp' and st[3][1] == '==' \
            and st[3][3][0] == 'bin' and st[3][3][1] == '+' and \
            num(1) in (st[3][3][2], st[3][3][3])
        if ok:
            e_i = st[3][3][2] if st[3][3][3] == num(1) else st[3][3][3]
            val = st[4]
            ok = val[0] == 'elem' and e_i[0] == 'idx' and e_i[2] == num(0) and \
                e_i[1][0] == 'elem' and e_i[1][1] == ('call', 'enumerate', (val[1],), ()) \
                and e_i[1][2] == val[2]
    check.require(ok, 'K3-domain-numbering', 'Scatterer.index_at',
                  'domain i + 1 receives the i-th refractive index (same numbering as '
                  'in_domain)', prog.loc(q, fd))
    ct = calls_in(res.ret, 'numpy.ones_like') or [
        x for x in subterms(lp[0]['vars'][iname][0]) if x[0] == 'call'] if ok else []
    q = SC + 'scatterer.Scatterer.contains'
    it = Interp(prog, max_depth=1, opaque=[SC + 'scatterer.Scatterer.in_domain'])
    res = it.analyze(q)
    v = res.ret
    ok = v[0] == 'cmp' and v[1] == '>' and v[3] == num(0) and \
        v[2] == ('call', ('attr', sym('self'), 'in_domain'), (sym('points'),), ())
    check.require(ok, 'K3-contains', 'Scatterer.contains',
                  'inside <=> domain number > 0', prog.loc(q, prog.func(q)))


# ----------------------------------------------------------------------
def pair_loop(prog, q, it):
    """(outer iter, inner iter) of the i<j pair enumeration in method q"""
    lps = [l for l in it.loops.values() if l['func'] == q and l['iter'] is not None]
    return lps


def bounds_union(check, prog):
    """K6b: the bounding box of a scatterer with several domains (a layered sphere)
    is the union of the boxes of all its indicator functions: along every axis the
    smallest lower and the largest upper bound, accumulated over *every* function
    starting from an empty box at the origin (which every indicator contains)."""
    S_ = SC + 'scatterer.'
    q = S_ + 'bound_union'
    fd = prog.func(q)
    loc = prog.loc(q, fd)
    it = Interp(prog, max_depth=1)
    res = it.analyze(q)
    d1, d2 = [sym(a.arg) for a in fd.args.args[:2]]

    def item(t, k):
        """value of t[k] after the stores recorded in the upd chain of t"""
        key = num(k)
        while t[0] == 'upd':
            if t[2] == 'item' and t[3] == key:
                return t[4]
            t = t[1]
        if t[0] in ('list', 'tuple') and k < len(t[1]):
            return t[1][k]
        return None
    ok = True
    detail = ''
    for i in range(3):
        row = item(res.ret, i)
        for j, fn in ((0, 'min'), (1, 'max')):
            got = item(row, j) if row is not None else None
            a = intern(('idx', ('idx', d1, num(i)), num(j)))
            b = intern(('idx', ('idx', d2, num(i)), num(j)))
            good = got is not None and got[0] == 'call' and got[1] == fn and \
                set(got[2]) == {a, b}
            if not good:
                ok = False
                detail = 'new[%d][%d] = %s' % (i, j, show(got)[:80] if got else None)
    check.require(ok, 'K6-bounds-union', 'bound_union',
                  'new[i] = [min of the lower bounds, max of the upper bounds] for '
                  'each of the three axes', loc, fail_detail=detail)
    qi = S_ + 'Indicators.__init__'
    fdi = prog.func(qi)
    iti = Interp(prog, max_depth=1, opaque=[q, S_ + 'find_bounds'])
    iti.analyze(qi)
    stores = [e for e in iti.effects if e['kind'] == 'setattr' and e['attr'] == 'bound']
    none_b = ('cmp', 'is not', sym('bound'), NONE)
    given = [e for e in stores if (none_b, True) in [(t, p) for t, p in e['cond']]]
    start = [e for e in stores if (none_b, False) in [(t, p) for t, p in e['cond']]
             and not any(t[0] == 'loop-iter' for t, p in e['cond'])]
    step = [e for e in stores if any(t[0] == 'loop-iter' for t, p in e['cond'])]
    zero = intern(('list', tuple(('list', (num(0), num(0))) for _ in range(3))))
    fns = [e['value'] for e in iti.effects if e['kind'] == 'setattr' and
           e['attr'] == 'functions']
    oks = len(given) == 1 and given[0]['value'] == sym('bound') and \
        len(start) == 1 and start[0]['value'] == zero and len(step) == 1
    if oks:
        v = step[0]['value']
        oks = v[0] == 'call' and v[1] == q and len(v[2]) == 2
        if oks:
            acc = [x for x in v[2] if x[0] == 'attr' and x[2] == 'bound']
            fb = [x for x in v[2] if x[0] == 'call' and x[1] == S_ + 'find_bounds']
            oks = len(acc) == 1 and len(fb) == 1 and fb[0][2] and \
                fb[0][2][0][0] == 'elem' and bool(fns) and fb[0][2][0][1] == fns[0]
    check.require(oks, 'K6-bounds-union', 'Indicators.__init__',
                  'a given bound is kept; otherwise the box is the union, over every '
                  'indicator function, of find_bounds(function), started from the '
                  'empty box at the origin', prog.loc(qi, fdi),
                  fail_detail='self.bound is assigned %s' % [
                      show(e['value'])[:80] for e in stores])


def voxel_grid(check, prog):
    """K10: a voxelisation samples the scatterer on the grid that spans its
    bounding box with the requested spacing: along axis k from bounds[k][0] to
    bounds[k][1] in steps of spacing[k] (one number standing for all three), the
    three coordinate arrays joined in x, y, z order as the last axis; voxelate
    reads the index and voxelate_domains the domain at exactly those points.
    (Convergence of the voxel volume is numerical; that the grid covers the box at
    the requested pitch is its structural part.)"""
    from .common import list_builder
    S_ = SC + 'scatterer.Scatterer.'
    q = S_ + '_voxel_coords'
    fd = prog.func(q)
    loc = prog.loc(q, fd)
    it = Interp(prog, max_depth=0)
    v = it.analyze(q).ret
    me, sp = sym('self'), sym(fd.args.args[1].arg)
    bounds = intern(('attr', me, 'bounds'))
    ok = v[0] == 'call' and v[1] == 'numpy.concatenate' and v[2] and (
        (len(v[2]) > 1 and v[2][1] in (num(3), num(-1))) or
        dict(v[3]).get('axis') in (num(3), num(-1)))
    detail = 'returns %s' % show(v)[:120]
    if ok:
        outer = list_builder(v[2][0])
        ok = outer is not None and outer[0][0] == 'idx' and outer[0][1][0] == 'elem' \
            and outer[0][1][1] == outer[1] and outer[0][2] == (
                'tuple', (('const', Ellipsis), ('extref', 'numpy.newaxis')))
        grid = outer[1] if ok else None
        ok = ok and grid[0] == 'idx' and grid[1] == ('extref', 'numpy.mgrid')
        if ok:
            sl = list_builder(grid[2])
            ok = sl is not None and sl[0][0] == 'call' and sl[0][1] == 'slice' and \
                len(sl[0][2]) == 3 and sl[1][0] == 'call' and sl[1][1] == 'zip' and \
                len(sl[1][2]) == 2 and sl[1][2][0] == bounds
            if ok:
                lo, hi, st = sl[0][2]
                spx = sl[1][2][1]
                k = lo[1][2] if lo[0] == 'idx' and lo[1][0] == 'elem' else None
                ok = lo == ('idx', ('elem', bounds, k), num(0)) and \
                    hi == ('idx', ('elem', bounds, k), num(1)) and \
                    st == ('elem', spx, k)
                detail = 'slices %s' % show(sl[0])[:120]
                if ok:
                    # one number stands for all three axes
                    alts = []

                    def leaves(t):
                        if t[0] == 'ite':
                            leaves(t[2])
                            leaves(t[3])
                        else:
                            alts.append(t)
                    leaves(spx)
                    ok = sp in alts and any(
                        t != sp and any(x == sp for x in subterms(t)) and any(
                            x == num(3) for x in subterms(t)) for t in alts)
                    detail = 'spacing per axis %s' % show(spx)[:120]
    check.require(ok, 'K10-voxel-grid', 'Scatterer._voxel_coords',
                  'mgrid[slice(bounds[k][0], bounds[k][1], spacing[k]) for k = x, y, z], '
                  'joined along a new last axis', loc, fail_detail=detail)
    for m, reader in (('voxelate', 'index_at'), ('voxelate_domains', 'in_domain')):
        qm = S_ + m
        fdm = prog.func(qm)
        itm = Interp(prog, max_depth=0)
        r = itm.analyze(qm).ret
        spm = sym(fdm.args.args[1].arg)
        coords = intern(('call', ('attr', me, '_voxel_coords'), (spm,), ()))
        okm = r[0] == 'call' and r[1] == ('attr', me, reader) and r[2] and \
            r[2][0] == coords
        check.require(okm, 'K10-voxel-grid', 'Scatterer.' + m,
                      '%s at the points of _voxel_coords(spacing)' % reader,
                      prog.loc(qm, fdm), fail_detail='returns %s' % show(r)[:120])


def own_member_list(check, prog):
    """K9: a collection keeps a list of its own.  The constructor receives any
    iterable (ensure_listlike hands an iterable back unchanged): kept as it is, a
    generator has been exhausted by the type check before it is stored (the
    collection is silently empty: no overlaps, no warning), a tuple breaks add(),
    and a list stays shared with the caller and with every other collection built
    from it (add() on one changes the other).  Rule: what every constructor of the
    Scatterers family stores as `scatterers` is a freshly built list, and the
    sequence that is type-checked is the same object that is stored."""
    base = SC + 'composite.Scatterers'
    fresh_ok = True
    n = 0
    for cq in sorted(set(prog.subclasses(base)) | {base}):
        c = prog.classes.get(cq)
        if c is None or '__init__' not in c.methods:
            continue
        fd = c.methods['__init__']
        it = Interp(prog, max_depth=2, opaque=['holopy.core.utils.ensure_listlike'])
        res = it.analyze(cq + '.__init__')
        stores = [e for e in it.effects if e['kind'] == 'setattr' and
                  e['attr'] == 'scatterers']
        short = cq.rpartition('.')[2]
        if not stores:
            continue
        n += 1
        for e in stores:
            v = e['value']
            alts = []

            def leaves(t):
                if t[0] == 'ite':
                    leaves(t[2])
                    leaves(t[3])
                else:
                    alts.append(t)
            leaves(v)
            fresh = all(t[0] in ('list', 'comp') or (
                t[0] == 'call' and t[1] in ('list', 'sorted')) for t in alts)
            check.require(fresh, 'K9-own-member-list', short + '.__init__ stores',
                          'self.scatterers is a freshly built list', prog.loc(
                              cq + '.__init__', fd),
                          fail_detail='%s.__init__ stores %s: the caller\'s own '
                          'sequence -- a generator is empty by then (Spheres(Sphere(...) '
                          'for c in centres) reports no overlaps and issues no warning), '
                          'a list stays shared with the caller (add() on one cluster '
                          'changes another built from the same list)' % (
                              short, show(v)[:80]))
            # the loop that checks the members walks the stored sequence
            lps = [l for l in it.loops.values() if l['iter'] is not None and
                   l['func'] == cq + '.__init__']
            for l in lps:
                itr = l['iter']
                # (walking a list that has been built from the argument consumes
                # nothing)
                same = any(itr == t for t in alts) or itr[0] in ('list', 'comp') or (
                    itr[0] == 'call' and itr[1] in ('list', 'sorted', 'tuple'))
                check.require(same, 'K9-own-member-list', short + '.__init__ check',
                              'the members that are checked are the members that are '
                              'stored', prog.loc(cq + '.__init__', fd),
                              fail_detail='the type check iterates over %s while %s is '
                              'stored: a one-shot iterable is consumed by the check' % (
                                  show(itr)[:60], show(v)[:60]))
    check.floor('constructors of the Scatterers family that store members', n, 1)


def overlaps(check, prog):
    SP = SC + 'spherecluster.Spheres'
    canon = Canon()
    cd = 'holopy.core.math.cartesian_distance'
    info = {}
    for m in ('overlaps', 'largest_overlap'):
        q = SP + '.' + m
        fd = prog.func(q)
        loc = prog.loc(q, fd)
        it = Interp(prog, max_depth=1, opaque=[cd])
        res = it.analyze(q)
        lps = pair_loop(prog, q, it)
        own_lps = lps
        # the pair enumeration may live in a generator method of the class: then
        # that generator is the subject, and it must yield (i, j, member i, member j)
        via = None
        if len(lps) == 1 and lps[0]['iter'][0] == 'call' and \
                isinstance(lps[0]['iter'][1], str) and lps[0]['iter'][1].startswith(SP + '.'):
            via = lps[0]['iter'][1]
        elif len(lps) == 1 and lps[0]['iter'][0] == 'call' and \
                isinstance(lps[0]['iter'][1], tuple) and lps[0]['iter'][1][0] == 'attr' \
                and lps[0]['iter'][1][1] == sym('self') and \
                prog.lookup(SP, lps[0]['iter'][1][2]):
            via = SP + '.' + lps[0]['iter'][1][2]
        gen_ok = True
        if via is not None:
            itg = Interp(prog, max_depth=0)
            itg.analyze(via)
            lps = pair_loop(prog, via, itg)
            ys = [e for e in itg.effects if e['kind'] == 'yield']
            scg = intern(('attr', sym('self'), 'scatterers'))
            gen_ok = len(ys) == 1 and ys[0]['value'][0] == 'tuple' and \
                len(ys[0]['value'][1]) == 4
            if gen_ok:
                yi, yj, y1, y2 = ys[0]['value'][1]
                gen_ok = yi[0] == 'idx' and yi[2] == num(0) and yi[1][0] == 'elem' and \
                    yi[1][1] == ('call', 'enumerate', (scg,), ()) and \
                    y1 == ('elem', scg, yi[1][2]) and yj[0] == 'elem' and \
                    yj[1][0] == 'call' and yj[1][1] == 'range' and \
                    y2 == ('idx', scg, yj)
        ok = len(lps) == 2 and gen_ok
        outer = inner = None
        if ok:
            for l in lps:
                itr = l['iter']
                if itr[0] == 'call' and itr[1] == 'enumerate':
                    outer = l
                elif itr[0] == 'call' and itr[1] == 'range':
                    inner = l
            ok = outer is not None and inner is not None
        if ok:
            sc = intern(('attr', sym('self'), 'scatterers'))
            ok_outer = outer['iter'] == ('call', 'enumerate', (sc,), ())
            r = inner['iter']
            ok_inner = len(r[2]) == 2 and r[2][1] == ('call', 'len', (sc,), ()) and \
                r[2][0][0] == 'bin' and r[2][0][1] == '+' and r[2][0][3] == num(1)
            ok = ok_outer and ok_inner
        check.require(ok, 'K4-all-pairs', 'Spheres.' + m,
                      'every pair i < j is visited (j in range(i+1, n))', loc,
                      fail_detail='loops: %s' % [show(l['iter'])[:80] for l in lps])
        # ... and the pair that is measured is (member i, member j): the first
        # sphere is the element of the outer loop, the second is indexed by the
        # inner loop variable (not by i + 1, the list neighbour)
        if ok and via is None:
            dcs = [c for c in it.calls if c['name'] == cd]
            okm = bool(dcs)
            for c in dcs:
                owners = [a[1] for a in c['args'] if a[0] == 'attr' and a[2] == 'center']
                okm = okm and len(owners) == 2
                if not okm:
                    break
                first = [o for o in owners if o[0] == 'elem' and o[1] == sc]
                second = [o for o in owners if o[0] == 'idx' and o[1] == sc and
                          o[2][0] == 'elem' and o[2][1] == inner['iter']]
                okm = len(first) == 1 and len(second) == 1
            check.require(okm, 'K4-pair-members', 'Spheres.' + m,
                          'the distance is taken between member i and member j of '
                          'the pair being visited', loc,
                          fail_detail='distance between %s' % [
                              [show(a)[:70] for a in c['args']] for c in dcs][:1])
        info[m] = (it, res, own_lps, loc)
    # overlaps: condition of the append
    it, res, lps, loc = info['overlaps']
    app = [e for e in it.effects if e['kind'] == 'mutcall' and e['method'] == 'append']
    ok = len(app) == 1
    dist_t = sum_t = None
    if ok:
        flat = []
        for t, pol in norm_cond(app[0]['cond']):
            if t[0] == 'bool' and t[1] == 'and' and pol:
                flat += [(x, True) for x in t[2]]
            else:
                flat.append((t, pol))
        # bool(x) has the truth value of x
        flat = [(t[2][0], pol) if t[0] == 'call' and t[1] == 'bool' and len(t[2]) == 1
                and not t[3] else (t, pol) for t, pol in flat]
        conds = [t for t, pol in flat if t[0] == 'cmp' and t[1] not in ('is', 'is not')]
        pols = [pol for t, pol in flat if t[0] == 'cmp' and t[1] not in ('is', 'is not')]
        ok = len(conds) == 1 and conds[0][1] == '<' and pols == [True]
        # the verdict must be a boolean: with a prior among the coordinates (the
        # usual way to fit a cluster) the comparison returns a derived prior
        # through Prior.__array_ufunc__, and any object is truthy
        isb = [t for t, pol in flat if pol and t[0] == 'call' and t[1] == 'isinstance'
               and len(t[2]) == 2 and conds and t[2][0] == conds[0] and
               any(x in (('extref', 'bool'), ('extref', 'numpy.bool_'))
                   for x in subterms(t[2][1]))]
        isb += [t for t, pol in flat if pol and t[0] == 'cmp' and t[1] in ('is', '==')
                and conds and t[2] == conds[0] and t[3] == ('const', True)]
        isb += [t for t, pol in flat if not pol and t[0] == 'call' and
                t[1] == 'isinstance' and 'Prior' in show(t[2][1])]
        check.require(bool(isb), 'K4-overlap-verdict-is-boolean', 'Spheres.overlaps',
                      'a pair is reported only when the comparison gave a boolean',
                      loc, fail_detail='the truth value of `distance < sum of radii` '
                      'is taken as it comes: Spheres([Sphere(r=.5, center=[Uniform(-1, '
                      '1), 0, 0]), Sphere(r=.5, center=[10, 10, 10])]) -- 17 units '
                      'apart -- reports the pair (0, 1) and issues an OverlapWarning, '
                      'because np.float64 < prior is a TransformedPrior(np.greater) '
                      'and not the TypeError the except clause expects')
        if ok:
            lhs, rhs = conds[0][2], conds[0][3]
            dc = calls_in(lhs, cd)
            okd = bool(dc) and lhs == dc[0] and \
                {show(a) for a in dc[0][2]} == {show(x) for x in dc[0][2]}
            cen = [a for a in dc[0][2]] if dc else []
            okd = okd and len(cen) == 2 and all(a[0] == 'attr' and a[2] == 'center'
                                                for a in cen) and cen[0] != cen[1]
            s1, s2 = (cen[0][1], cen[1][1]) if okd else (None, None)
            oks = False
            if okd:
                want = intern(('bin', '+', ('call', 'numpy.max', (('attr', s1, 'r'),), ()),
                               ('call', 'numpy.max', (('attr', s2, 'r'),), ())))
                oks = canon.equal(rhs, want)
            ok = okd and oks
            dist_t, sum_t = lhs, rhs
            pair = app[0]['args'][0]
        check.require(ok, 'K4-overlap-test', 'Spheres.overlaps',
                      'pair reported <=> distance(centres) < max(r_i) + max(r_j)', loc,
                      fail_detail='pair is reported when %s' % (
                          show(conds[0])[:240] if conds else None))
    else:
        check.bad('K4-overlap-test', 'Spheres.overlaps', 'no single append of a pair', loc)
    # largest_overlap: max(largest, sum - dist), start 0
    it, res, lps, loc = info['largest_overlap']
    v = res.ret
    ok = False
    step = None
    # the running maximum is the loop-carried value that is returned
    lname = v[1] if v[0] == 'loop' else None
    for l in lps:
        if lname in l['vars'] and l['vars'][lname][1] is not None:
            st = l['vars'][lname][1]
            if st[0] == 'call' and st[1] == 'max':
                step = st
    if step is not None and len(step[2]) == 2:
        a, b = step[2]
        cand = b if a[0] == 'phi' else a
        df = as_difference(cand)
        okf = df is not None and df[1][0] == 'call' and df[1][1] == cd and \
            len(df[1][2]) == 2 and all(x[0] == 'attr' and x[2] == 'center'
                                       for x in df[1][2]) and \
            df[1][2][0] != df[1][2][1]
        if okf:
            s1, s2 = df[1][2][0][1], df[1][2][1][1]
            want = intern(('bin', '+', ('call', 'numpy.max', (('attr', s1, 'r'),), ()),
                           ('call', 'numpy.max', (('attr', s2, 'r'),), ())))
            okf = canon.equal(df[0], want)
        ok = okf
    init_ok = any(l['vars'].get(lname, (None, None))[0] == num(0) for l in lps)
    check.require(ok, 'K4-largest-overlap', 'Spheres.largest_overlap',
                  'largest = max(largest, max(r_i) + max(r_j) - distance)', loc,
                  fail_detail='update is %s' % (show(step)[:200] if step else None))
    check.require(init_ok, 'K4-largest-overlap', 'Spheres.largest_overlap start',
                  'starts from 0 (no overlap)', loc)
    # cartesian_distance
    q = cd
    it = Interp(prog, max_depth=1)
    res = it.analyze(q, args={'p2': sym('p2')})
    c2 = Canon(atom_rewrite=atom_rewrite)
    want = expr_term(prog, 'np.sqrt(np.sum((np.array(p1) - np.array(p2))**2))',
                     {'p1': sym('p1'), 'p2': sym('p2')})
    check.require(c2.equal(res.ret, want), 'K4-distance', 'cartesian_distance',
                  'Euclidean distance sqrt(sum((p1 - p2)^2))', prog.loc(q, prog.func(q)),
                  fail_detail='returns %s' % c2.show(res.ret)[:160])


# ----------------------------------------------------------------------
def constructors(check, prog):
    SP = SC + 'spherecluster.Spheres'
    q = SP + '.__init__'
    fd = prog.func(q)
    loc = prog.loc(q, fd)
    it = Interp(prog, max_depth=1, opaque=[SP + '.overlaps',
                                           'holopy.core.utils.ensure_listlike'])
    res = it.analyze(q, selfcls=SP)
    warns = [c for c in it.calls if c['name'] == 'warnings.warn']
    ok = len(warns) == 1
    if ok:
        conds = [t for t, pol in warns[0]['cond'] if pol and t[0] == 'bool']
        ok = len(conds) == 1 and conds[0][1] == 'and' and set(conds[0][2]) == {
            intern(('attr', sym('self'), 'overlaps')), intern(('attr', sym('self'), 'warn'))} \
            or any(t[0] == 'bool' and t[1] == 'and' and len(t[2]) == 2 and
                   any('overlaps' in show(x) for x in t[2]) and
                   any(x == ('attr', sym('self'), 'warn') or x == sym('warn') for x in t[2])
                   for t, pol in warns[0]['cond'] if pol)
        okw = bool(warns[0]['args']) and 'OverlapWarning' in show(warns[0]['args'][0])
        ok = ok and okw
    check.require(ok, 'K5-overlap-warning', 'Spheres.__init__',
                  'an OverlapWarning is issued exactly when there is an overlap and '
                  'warn is set', loc, fail_detail='warning calls: %s' % [
                      [(show(t)[:60], p) for t, p in w['cond']] for w in warns])
    rs = [o for o in res.raises if 'InvalidScatterer' in show(o.value)]
    ok = any(path_has(o.cond, lambda t: t[0] == 'call' and t[1] == 'isinstance' and
                      'Sphere' in show(t[2][1]), pol=False) for o in rs)
    ok = ok and len(rs) == 1 and len(res.raises) == 1
    sup = [c for c in it.calls if c['name'].endswith('Scatterers.__init__')]
    ok = ok and len(sup) == 1
    wst = [e for e in it.effects if e['kind'] == 'setattr' and e['attr'] == 'warn']
    ok = ok and len(wst) == 1 and wst[0]['value'] == sym(fd.args.args[2].arg)
    check.require(ok, 'K5-rejections', 'Spheres.__init__ members',
                  'a member that is not a Sphere raises InvalidScatterer (nothing else '
                  'does); the members are handed to Scatterers.__init__ and `warn` is '
                  'stored', loc)
    q = SP + '.add'
    it = Interp(prog, max_depth=1)
    res = it.analyze(q)
    fda = prog.func(q)
    newm = sym(fda.args.args[1].arg)
    isph = intern(('call', 'isinstance', (newm, ('classref', SC + 'sphere.Sphere')), ()))
    ok = len(res.raises) == 1 and 'InvalidScatterer' in show(res.raises[0].value) and \
        norm_cond(res.raises[0].cond) == [(isph, False)]
    sup = [c for c in it.calls if c['name'].endswith('Scatterers.add')]
    ok = ok and len(sup) == 1 and sup[0]['args'][-1] == newm
    check.require(ok, 'K5-rejections', 'Spheres.add',
                  'adding a non-sphere raises InvalidScatterer (and only then); a '
                  'sphere is handed on to Scatterers.add', prog.loc(q, fda),
                  fail_detail='raises under %s' % [
                      [(show(t)[:60], p) for t, p in o.cond] for o in res.raises])
    # RigidCluster.__init__
    RC = SC + 'spherecluster.RigidCluster'
    q = RC + '.__init__'
    fdr = prog.func(q)
    it = Interp(prog, max_depth=1, opaque=['holopy.core.utils.ensure_array'])
    res = it.analyze(q, selfcls=RC)
    sp_, tr_, ro_ = [sym(a.arg) for a in fdr.args.args[1:4]]
    issp = intern(('call', 'isinstance', (sp_, ('classref', SC + 'spherecluster.Spheres')),
                   ()))
    inv = [o for o in res.raises if 'InvalidScatterer' in show(o.value)]
    val = [o for o in res.raises if 'ValueError' in show(o.value)]
    ok = len(inv) == 1 and norm_cond(inv[0].cond) == [(issp, False)] and len(val) == 1
    if ok:
        cs = [(t, p) for t, p in norm_cond(val[0].cond) if t != issp]
        ok = len(cs) == 1 and cs[0][1] is False and cs[0][0][0] == 'bool' and \
            cs[0][0][1] == 'and' and len(cs[0][0][2]) == 2 and all(
                x[0] == 'cmp' and x[1] == '==' and x[3] == num(3) and
                x[2][0] == 'call' and x[2][1] == 'len' for x in cs[0][0][2]) and \
            {y for x in cs[0][0][2] for y in subterms(x) if y in (tr_, ro_)} == {tr_, ro_}
    st = {e['attr']: e['value'] for e in it.effects if e['kind'] == 'setattr'}
    ok = ok and st.get('spheres') == sp_ and st.get('translation') == tr_ and \
        st.get('rotation') == ro_
    check.require(ok, 'K5-rejections', 'RigidCluster.__init__',
                  'anything but a Spheres raises InvalidScatterer; a translation or '
                  'rotation that is not of length 3 raises ValueError; otherwise the '
                  'three arguments are stored under their own names',
                  prog.loc(q, fdr), fail_detail='raises under %s; stores %s' % (
                      [[(show(t)[:50], p) for t, p in o.cond] for o in res.raises],
                      {k: show(v)[:30] for k, v in st.items()}))
    q = SC + 'sphere.Sphere.__init__'
    it = Interp(prog, max_depth=1, opaque=[SC + 'scatterer.CenteredScatterer.__init__'])
    res = it.analyze(q)
    ok = False
    as_array = False
    ARR = ('numpy.array', 'numpy.asarray', 'numpy.asanyarray',
           'holopy.core.utils.ensure_array')
    for o in res.raises:
        for t, pol in o.cond:
            if pol and t[0] == 'call' and t[1] == 'numpy.any' and t[2] and \
                    t[2][0][0] == 'cmp' and t[2][0][1] == '<' and t[2][0][3] == num(0):
                ok = 'InvalidScatterer' in show(o.value)
                lhs = t[2][0][2]
                as_array = lhs[0] == 'call' and lhs[1] in ARR
    check.require(ok, 'K5-rejections', 'Sphere.__init__ radius',
                  'any negative radius raises InvalidScatterer', prog.loc(q, prog.func(q)))
    # ... whatever container the radii come in: the comparison is wrapped in a
    # `try / except TypeError` meant for priors, and a plain list compared with 0
    # raises that TypeError too -- a model's parameter map hands the radii of a
    # layered sphere over as a list
    check.require(ok and as_array, 'K5-rejections', 'Sphere.__init__ radius container',
                  'the radii are converted to an array before they are compared with 0',
                  prog.loc(q, prog.func(q)),
                  fail_detail='`r < 0` is applied to the radius as given: for a list '
                  'or tuple the comparison raises TypeError, which the handler for '
                  'priors swallows -- Sphere(n=[1.59, 1.42], r=[0.5, -0.2]) is accepted, '
                  'and a model of a coated sphere gives a finite log-prior (and computes '
                  'a hologram) for a negative shell radius')
    q = SC + 'scatterer.CenteredScatterer.__init__'
    it = Interp(prog, max_depth=1)
    res = it.analyze(q)
    ok = False
    for o in res.raises:
        txt = ' '.join(show(t) for t, pol in o.cond)
        # anything whose shape is not (3,): a scalar, a pair, and also a column, a
        # 3 x 3 array or three one-element arrays -- they have length 3, and
        # `points - centre` then broadcasts row-wise (three interior points
        # reported outside) and a translation becomes a matrix
        if any(t[0] == 'cmp' and t[1] in ('!=', '==') and pol == (t[1] == '!=') and
               ('tuple', (num(3),)) in (t[2], t[3]) and
               any(x == ('call', 'numpy.shape', (sym('center'),), ())
                   for x in subterms(t)) for t, pol in o.cond) and any(
                    # ... asked of a centre that is given (not of None)
                    (t == ('cmp', 'is not', sym('center'), NONE) and pol) or
                    (t == ('cmp', 'is', sym('center'), NONE) and not pol)
                    for t, pol in norm_cond(o.cond)):
            ok = True
    check.require(ok, 'K5-rejections', 'CenteredScatterer.__init__ center',
                  'a centre whose shape is not (3,) raises InvalidScatterer',
                  prog.loc(q, prog.func(q)))


def csg_motion(check, prog):
    """A set operation is not symmetric in its operands (Difference): moving a
    CSG scatterer must rebuild it with the operands in their original slots,
    each moved by the same vector / rotation."""
    CQ = SC + 'csg.CsgScatterer'
    q = CQ + '.translated'
    fd = prog.func(q)
    me = sym(fd.args.args[0].arg)
    cs_ = tuple(sym(a.arg) for a in fd.args.args[1:4])
    it = Interp(prog, max_depth=1, opaque=[SC + 'scatterer.Scatterer.translated',
                                           'holopy.core.math.rotate_points'])
    v = it.analyze(q).ret
    want = intern(('call', ('attr', me, '__class__'), tuple(
        ('call', ('attr', ('attr', me, op), 'translated'), cs_, ())
        for op in ('s1', 's2')), ()))
    check.require(v == want, 'K1-csg-operands-keep-their-slots', 'CsgScatterer.translated',
                  'self.__class__(s1.translated(v), s2.translated(v)) with the same '
                  'three coordinates, in order', prog.loc(q, fd),
                  fail_detail='returns %s' % show(v)[:200])
    q = CQ + '.rotated'
    fd = prog.func(q)
    me = sym(fd.args.args[0].arg)
    ang = tuple(sym(a.arg) for a in fd.args.args[1:4])
    it = Interp(prog, max_depth=1, opaque=[SC + 'scatterer.Scatterer.translated',
                                           'holopy.core.math.rotate_points'])
    v = it.analyze(q).ret
    ok = v[0] == 'call' and v[1] == ('attr', me, '__class__') and len(v[2]) == 2
    detail = 'returns %s' % show(v)[:200]
    for i, op in enumerate(('s1', 's2')):
        if not ok:
            break
        t = v[2][i]
        ok = t[0] == 'call' and isinstance(t[1], tuple) and t[1][2] == 'rotated' and \
            tuple(t[2]) == ang
        if ok:
            tr = t[1][1]
            ok = tr[0] == 'call' and tr[1] == ('attr', ('attr', me, op), 'translated') \
                and len(tr[2]) == 1 and tr[2][0][0] == 'star'
            if ok:
                df = as_difference(tr[2][0][1])
                ok = df is not None and df[1] == ('attr', ('attr', me, op), 'center') \
                    and df[0][0] == 'idx' and df[0][2] == num(i) and \
                    bool(calls_in(df[0], 'holopy.core.math.rotate_points'))
            detail = 'operand %s becomes %s' % (op, show(t)[:160])
            if ok:
                # rotated centre i = (centre + R(centres - centre))[i] with the two
                # operand centres in order
                nc = df[0][1]
                ctr = intern(('attr', me, 'center'))
                rp = calls_in(nc, 'holopy.core.math.rotate_points')
                okn = len(rp) == 1 and tuple(rp[0][2][1:]) == ang and \
                    is_sum(nc, ctr, rp[0])
                if okn:
                    d2 = as_difference(rp[0][2][0])
                    cen = intern(('call', 'numpy.array', (('list', (
                        ('attr', ('attr', me, 's1'), 'center'),
                        ('attr', ('attr', me, 's2'), 'center'))),), ()))
                    okn = d2 is not None and d2[1] == ctr and d2[0] in (
                        cen, intern(('call', 'numpy.array', (('tuple', cen[2][0][1]),),
                                     ())))
                ok = okn
                if not ok:
                    detail = 'rotated centres are %s' % show(nc)[:160]
    check.require(ok, 'K1-csg-operands-keep-their-slots', 'CsgScatterer.rotated',
                  'operand i is moved by (its rotated centre i - its own centre) and '
                  'rotated by the same angles, and stays in slot i', prog.loc(q, fd),
                  fail_detail=detail)
    index_background(check, prog)
    query_points_untouched(check, prog)


def index_background(check, prog):
    # index_at: outside the scatterer the index is the background
    q = SC + 'scatterer.Scatterer.index_at'
    fd = prog.func(q)
    it = Interp(prog, max_depth=1, opaque=[SC + 'scatterer.Scatterer.in_domain',
                                           'holopy.core.utils.ensure_array'])
    v = it.analyze(q).ret
    me = sym(fd.args.args[0].arg)
    pts, bg = sym(fd.args.args[1].arg), sym(fd.args.args[2].arg)
    ok = v[0] == 'loop'
    if ok:
        init = v[3]
        dom = intern(('call', ('attr', me, 'in_domain'), (pts,), ()))
        ones = [x for x in subterms(init) if x[0] == 'call' and x[1] == 'numpy.ones_like'
                and x[2] and x[2][0] == dom]
        ok = len(ones) == 1 and Canon().equal(init, intern(('bin', '*', ones[0], bg)))
        ok = ok and v[5][0] == 'call' and v[5][1] == 'enumerate' and v[5][2] and \
            v[5][2][0] == ('call', 'holopy.core.utils.ensure_array',
                           (('attr', me, 'n'),), ())
    check.require(ok, 'K3-domain-numbering', 'Scatterer.index_at background',
                  'points outside every domain get the background index; the domains '
                  'are numbered along ensure_array(self.n)', prog.loc(q, fd),
                  fail_detail='returns %s' % show(v)[:200])


def query_points_untouched(check, prog):
    """K8: asking where points lie does not move them.  The set operations and the
    collections hand one array of query points to every member in turn (and a
    caller may ask twice): a query that shifts the array into its own frame in
    place answers the next question for other points."""
    from hpstatic.effects import writes
    targets = [(SC + 'scatterer.Scatterer', m) for m in ('in_domain', 'index_at',
                                                          'contains')]
    for cq in sorted(prog.subclasses(SC + 'scatterer.Scatterer')):
        c = prog.classes[cq]
        for m in ('in_domain', 'index_at', 'contains'):
            if m in c.methods and (cq, m) not in targets:
                targets.append((cq, m))
    n = 0
    for cq, m in targets:
        fd = prog.classes[cq].methods[m]
        if len(fd.args.args) < 2:
            continue
        pname = fd.args.args[1].arg
        it = Interp(prog, max_depth=1)
        try:
            it.analyze(cq + '.' + m)
        except Exception as e:
            check.error('%s.%s: %s' % (cq.rpartition('.')[2], m, e))
            continue
        n += 1
        bad = [e for e, st, rs in writes(it) if ('param', pname) in rs and
               ('fresh',) not in rs]
        check.require(not bad, 'K8-query-points-untouched',
                      '%s.%s' % (cq.rpartition('.')[2], m),
                      'the array of query points is not modified', prog.loc(cq, fd),
                      fail_detail='stores into its argument: %s' % [
                          (e.get('target_src') or e.get('method'), e['lineno'])
                          for e in bad][:3])
    check.floor('containment queries checked for argument stores', n, 6)


def bounds_search(check, prog):
    """K6: the bounding box of a scatterer given only by an indicator function is
    found by six searches, each along one coordinate axis *through the origin*:
    the probe point of a search is zero in the two other coordinates, whatever
    the searches before it found.  (A probe that keeps the extent found along the
    previous axis lies outside the body, and the box collapses.)"""
    from hpstatic.terms import is_num
    q = SC + 'scatterer.find_bounds'
    if not prog.has_func(q):
        return
    fd = prog.func(q)
    loc = prog.loc(q, fd)
    it = Interp(prog, max_depth=1)
    v = it.analyze(q).ret
    rows = {}
    t = v
    # result: the initial 3 x 2 table with rows / entries replaced
    while t[0] == 'upd' and t[2] == 'item':
        if is_num(t[3]):
            row = t[4]
            while row[0] == 'upd' and row[2] == 'item':
                if is_num(row[3]):
                    rows.setdefault((int(t[3][1]), int(row[3][1])), row[4])
                row = row[1]
        t = t[1]
    bad = []
    for (i, j), val in sorted(rows.items()):
        ok = val[0] == 'idx' and val[2] == num(i)
        p = val[1] if ok else None
        while ok and p[0] == 'loop':
            step = p[4]
            # the search moves the probe along axis i only
            s = step
            while s[0] == 'upd' and s[2] == 'item':
                if s[3] != num(i):
                    ok = False
                s = s[1]
            ok = ok and s[0] == 'phi'
            p = p[3]
        ok = ok and p[0] == 'upd' and p[2] == 'item' and p[3] == num(i) and \
            p[1][0] == 'call' and p[1][1] == 'numpy.zeros'
        if not ok:
            bad.append('axis %d, %s side: probe starts from %s' % (
                i, 'upper' if j else 'lower', show(p)[:100] if p else show(val)[:100]))
    check.require(len(rows) == 6 and not bad, 'K6-bounds-search', 'find_bounds',
                  'six searches, each from a fresh point on its own axis '
                  '(%d found)' % len(rows), loc, fail_detail='; '.join(bad[:3]))
    # ... and each axis has a row of its own to store its two extents in: a table
    # made by replicating one row (`[[lo, hi]] * 3`) is three names for one list,
    # and every axis ends up with the extent found last
    # (decided on the syntax tree: the evaluator folds `[row] * 3` into a display
    # of three equal rows, which is exactly what it is not)
    import ast as _ast
    MUT = (_ast.List, _ast.Dict, _ast.Set, _ast.ListComp, _ast.DictComp, _ast.SetComp)
    replicated = [n for n in _ast.walk(fd) if isinstance(n, _ast.BinOp) and
                  isinstance(n.op, _ast.Mult) and any(
                      isinstance(side, _ast.List) and
                      any(isinstance(e, MUT) for e in side.elts)
                      for side in (n.left, n.right))]
    check.require(not replicated, 'K6-bounds-rows-distinct', 'find_bounds table',
                  'the 3 x 2 table of extents has three separate rows', loc,
                  fail_detail='%s repeats one row object: the box of an ellipsoid '
                  'with semi-axes (3, 2, 1) gets the z extent on every axis (6870 of '
                  '10528 interior points outside, voxel volume 8.7 for 25.1)' % (
                      _ast.unparse(replicated[0])[:60] if replicated else ''))


def domain_count(check, prog):
    """K7: the set operations accept every primitive shape: their constructor asks
    each operand for its number of domains, which for every class that does not
    override it is `len(self.indicators)` -- so what `indicators` returns must
    support len().  (An object without __len__ makes Union / Difference /
    Intersection raise TypeError for every ellipsoid, spheroid, capsule, ...)"""
    base = SC + 'scatterer.Scatterer'
    bad = []
    n = 0
    for C in sorted(prog.subclasses(base)):
        hit = prog.lookup(C, 'num_domains')
        own = prog.lookup(C, 'indicators')
        if not hit or not own:
            continue
        it = Interp(prog, max_depth=2, inline_new=False)
        it.types[sym('self')] = C
        try:
            res = it.analyze(hit[1] + '.num_domains')
        except AnalysisError:
            continue
        n += 1
        for x in subterms(res.ret):
            if x[0] == 'call' and x[1] == 'len' and len(x[2]) == 1 and \
                    x[2][0][0] == 'new' and x[2][0][1] in prog.classes:
                K = x[2][0][1]
                if not prog.lookup(K, '__len__'):
                    bad.append('%s.num_domains = len(<%s>): %s has no __len__' % (
                        C.rpartition('.')[2], K.rpartition('.')[2], K.rpartition('.')[2]))
    q = base + '.num_domains'
    fd = prog.func(q)
    check.floor('shapes whose domain count was evaluated', n, 6)
    check.require(not bad, 'K7-domain-count', 'Scatterer.num_domains',
                  'the domain count of every primitive shape can be computed '
                  '(%d shapes)' % n, prog.loc(q, fd),
                  fail_detail='; '.join(bad[:3]) + ': a union, difference or intersection '
                  'with such an operand raises TypeError in CsgScatterer.__init__')


def sphere_like_constructors(check, prog):
    """K5b: every way of constructing a (layered) sphere refuses a negative radius
    -- or layer thickness -- and a malformed centre.  Sphere does; a subclass with
    its own __init__ must not lose the refusals by not calling it."""
    SPH = SC + 'sphere.Sphere'
    n = 0
    # (and the other primitive shape the property names: an ellipsoid's semi-axes
    # are radii too -- contains() squares them, so a negative one is only seen in
    # the inverted bounding box and in voxelate)
    # ... and, as siblings of one interface, every other centred shape with a size:
    # a model's log-prior is -inf for an invalid scatterer only if the constructor
    # refuses it (C12), whatever the shape
    CEN = SC + 'scatterer.CenteredScatterer'
    named = sorted(prog.subclasses(SPH)) + [SC + 'ellipsoid.Ellipsoid']
    for C in named + [q_ for q_ in sorted(prog.subclasses(CEN, strict=True))
                      if q_ not in named]:
        c = prog.classes[C]
        if '__init__' not in c.methods:
            continue
        n += 1
        q = C + '.__init__'
        fd = prog.func(q)
        loc = prog.loc(q, fd)
        it = Interp(prog, max_depth=3, opaque=['holopy.core.utils.ensure_array'])
        res = it.analyze(q, selfcls=C)
        conds = [o.cond for o in res.raises if 'InvalidScatterer' in show(o.value)]
        # refusals inside inlined parent constructors are recorded as effects
        conds += [e['cond'] for e in it.effects if e['kind'] == 'raise' and
                  'InvalidScatterer' in show(e.get('exc', NONE))]
        neg = centre = False
        for cnd in conds:
            for ct, pol in cnd:
                for x in subterms(ct):
                    f = lt_form(x) if x[0] == 'cmp' else None
                    if f and f[0] == '<' and ((f[2] == num(0)) or (f[1] == num(0))):
                        neg = True
                    if x[0] == 'cmp' and x[1] in ('!=', '==') and \
                            ('tuple', (num(3),)) in (x[2], x[3]) and any(
                                y[0] == 'call' and y[1] == 'numpy.shape'
                                for y in subterms(x)):
                        centre = True
        short = C.rpartition('.')[2]
        check.require(neg, 'K5-rejections', '%s.__init__ negative size' % short,
                      'a negative radius / layer thickness raises InvalidScatterer', loc,
                      fail_detail='%s(...) never compares its radii or thicknesses with '
                      '0: a negative layer thickness is accepted and gives a negative '
                      'radius' % short)
        check.require(centre, 'K5-rejections', '%s.__init__ centre' % short,
                      'a centre that is not three numbers raises InvalidScatterer', loc,
                      fail_detail='%s(...) does not ask for the shape (3,): a centre of '
                      'length 3 that is not three numbers -- a (3, 1) column, a 3 x 3 '
                      'array -- is accepted (or center=(0, 0) / center=3, if nothing is '
                      'asked at all)' % short)
    check.floor('sphere-like constructors checked', n, 8)
