"""C12  Posterior = prior x Gaussian likelihood, exactly as documented.

Decides from the source:
  P1  _lnposterior returns lnprior + _lnlike(pars, data) on the finite path;
  P2  when the prior is -inf the method returns before any call that reaches
      the forward model (no hologram is computed);
  P3  _lnprior: -inf from the InvalidScatterer handler and from a failed
      constraint; otherwise sum of p.lnprob(v) over zip(_parameters, pars);
  P4  _lnlike is the Gaussian log-density
        -N/2 log(2 pi) - N mean(log sigma) - 1/2 sum(((f - d)/sigma)^2)
      (canonical form, log rules) with N = data.size, sigma from _find_noise;
  P5  noise and optics: the model's value if given, else the data's;
  P6  forward: AlphaModel / ExactModel call calc_holo / calc_func with the
      scatterer, theory, optics and alpha read from `pars`; LnpostWrapper
      forwards pixels and a +-1 prefactor;
  P7  argument routing: wherever a bare local `name` is passed to a callee that
      has a parameter `name`, it is bound to that parameter (positional
      super().__init__ calls of the model classes).
Not decided: the numerical value for arbitrary data; which sphere's diameter the
overlap tolerance of LimitOverlaps refers to when the spheres differ (its shape --
largest overlap <= fraction x a diameter, no tolerance -- is P3-constraint-formula).
"""
import ast

from hpstatic.interp import Interp, expr_term
from hpstatic.loader import AnalysisError
from hpstatic.poly import Canon
from hpstatic.terms import (sym, intern, show, subterms, calls_in, NONE, num, kw,
                            atoms_of)
from hpstatic.xrnorm import atom_rewrite
from .common import path_has, norm_cond, call_args, term_args

MUTATION_TARGETS = {'holopy/inference/model.py': ['_lnposterior', '_lnprior', '_lnlike', '_residuals', '_find_noise', '_find_optics', '_forward', '__init__'], 'holopy/core/utils.py': ['evaluate']}

LEVEL = 'other'
META = dict(
    claimed=True,
    technique='canonical-form equality of the likelihood with the Gaussian '
              'log-density; path analysis of the -inf short-circuit (which calls '
              'are live under which path condition); precedence tables; '
              'def-use of pars into the forward call; name-agreement check of '
              'call arguments; sibling cross-check of the failure handlers of every '
              '_forward against the failure classes the theories raise once a '
              'compiled routine has run (statement walk with a may-have-run flag)',
    level_text='Static: P1, P3, P4 are identities of the code with the documented '
               'formulas for all models/parameters/data; P2 is a path fact (no call '
               'to the forward model is reachable on the -inf path); P5-P7 are '
               'routing facts.  Does not decide numerical values.',
    level_note='Trusted: mean(x)*N == sum(x) for N = x.size; log/exp identities; '
               'term extraction of model.py.',
)

M = 'holopy.inference.model.'
RM = 'holopy.core.mapping.read_map'
DTA = 'holopy.core.metadata.dict_to_array'


def run(check, prog):
    check.explanation = (
        'Model._lnposterior / _lnprior / _lnlike / _find_* / _forward are evaluated '
        'into terms with their callees opaque; formulas are compared in canonical '
        'form, calls are listed with their path conditions.')
    check.trusted += ['log/exp identities', 'mean*N == sum']
    posterior(check, prog)
    prior(check, prog)
    likelihood(check, prog)
    precedence(check, prog)
    precedence_tables(check, prog)
    forward(check, prog)
    forward_failures(check, prog)
    constraint_formula(check, prog)
    name_agreement(check, prog)
    # per-channel noise / scaling given as labelled arrays pass through the
    # parameter map (rule shared with C11) ...
    from . import c11, c20
    c11.xarray_map(check, prog)
    # forward() builds the scatterer through the model's template object
    c11.template_class(check, prog)
    # forward(), the optics and the noise level all read their values through
    # read_map: a placeholder must resolve to its own parameter, also beyond nine
    c11.grammar(check, prog)
    # lnprior sums the log-density of every parameter once: a prior shared
    # between the scatterer and another section must be one parameter
    c11.sections_share_identity(check, prog)
    # ... and `an invalid scatterer gives -inf` rests on the constructors refusing
    # exactly the invalid ones (rule shared with C20)
    c20.constructors(check, prog)
    # ... for every centred shape a model can hold (sibling cross-check of the sign
    # and centre refusals)
    c20.sphere_like_constructors(check, prog)
    # ... for the shapes of the compiled T-matrix code as well (shared with C10):
    # a negative size proposed inside a prior's support must be an
    # InvalidScatterer, not a call into code that ends the interpreter
    from . import c10
    c10.size_guards_of_accepted(check, prog)
    # `violates a constraint gives -inf`: the overlap constraint is
    # largest_overlap() <= fraction * diameter, so the constraint is right only if
    # the largest overlap is (rule shared with C20)
    c20.overlaps(check, prog)
    model_constructor_wiring(check, prog)
    # lnposterior(pars, data, pixels=n) draws its pixels with make_subset_data,
    # from grids and from data that are already flattened subsets alike (rule
    # shared with C07)
    from . import c07
    c07.subset(check, prog)
    # `all models` includes a model that came back from a file (every parallel
    # worker's does): it must be rebuilt from every key the writer stored, its
    # constraints included (rule shared with C15)
    from . import c15
    c15.r5_model(check, prog)
    # `minus infinity whenever a value lies outside its prior's support`: the log-
    # prior is the sum of the priors' own log-densities, so each of them is -inf
    # exactly outside its bounds (rule shared with C14)
    from . import c14
    c14.r1_support(check, prog)


def model_constructor_wiring(check, prog):
    """P8: "optics from the model" -- every argument a model class accepts on behalf
    of the base Model reaches Model.__init__ under the parameter of the same name
    (positionally or by keyword)."""
    MQ = 'holopy.inference.model.Model'
    base = prog.classes[MQ].methods['__init__']
    bparams = [a.arg for a in base.args.args][1:]
    n = 0
    for cq in sorted(prog.subclasses(MQ)):
        c = prog.classes[cq]
        fd = c.methods.get('__init__')
        if fd is None or cq == MQ:
            continue
        own = [a.arg for a in fd.args.args][1:] + [a.arg for a in fd.args.kwonlyargs]
        shared = [p_ for p_ in bparams if p_ in own]
        loc = prog.loc(cq, fd)
        short = cq.rpartition('.')[2]
        calls = [x for x in ast.walk(fd) if isinstance(x, ast.Call) and
                 isinstance(x.func, ast.Attribute) and x.func.attr == '__init__' and
                 ast.unparse(x.func.value) in ('super()', 'Model',
                                               'super(%s, self)' % short)]
        if len(calls) != 1:
            check.bad('P8-model-constructor-wiring', short,
                      'no single call of the base constructor', loc)
            continue
        call = calls[0]
        args = list(call.args)
        if ast.unparse(call.func.value) == 'Model':
            args = args[1:]
        bound = {}
        for p_, a in zip(bparams, args):
            bound[p_] = a
        for k in call.keywords:
            if k.arg is not None:
                bound[k.arg] = k.value
        for p_ in shared:
            n += 1
            a = bound.get(p_)
            ok = isinstance(a, ast.Name) and a.id == p_
            check.require(ok, 'P8-model-constructor-wiring', '%s(%s=)' % (short, p_),
                          'handed to Model.__init__ as its `%s`' % p_, loc,
                          fail_detail='Model.__init__ receives %s for `%s`: the value '
                          'given to %s is %s' % (
                              ast.unparse(a) if a is not None else 'nothing', p_, short,
                              'replaced' if a is not None else 'dropped (the data\'s '
                              'value is used instead)'))
    check.floor('model constructor arguments shared with Model.__init__', n, 12)


def is_neg_inf(t):
    return t[0] == 'un' and t[1] == '-' and t[2][0] == 'extref' and t[2][1].endswith('inf')


def posterior(check, prog):
    q = M + 'Model._lnposterior'
    fd = prog.func(q)
    loc = prog.loc(q, fd)
    it = Interp(prog, max_depth=2, opaque=[
        M + 'Model._lnprior', M + 'Model._lnlike',
        'holopy.core.metadata.make_subset_data'])
    res = it.analyze(q)
    lp = intern(('call', ('attr', sym('self'), '_lnprior'), (sym('pars'),), ()))
    rets = res.returns
    short = [o for o in rets if o.value == lp]
    full = [o for o in rets if o.value != lp]
    ok = len(short) == 1 and len(full) == 1
    check.require(ok, 'P1-posterior-structure', 'Model._lnposterior',
                  'two exits: the prior alone, and prior + likelihood', loc,
                  fail_detail='returns: %s' % [show(o.value)[:80] for o in rets])
    if not ok:
        return
    # P2: the short-circuit condition is lnprior == -inf and no forward call is live
    c = short[0].cond
    okc = len(c) == 1 and c[0][1] and c[0][0][0] == 'cmp' and c[0][0][1] == '==' and \
        c[0][0][2] == lp and is_neg_inf(c[0][0][3])
    check.require(okc, 'P2-short-circuit', 'Model._lnposterior',
                  'returns the prior as soon as it equals -inf', loc,
                  fail_detail='early return under %s' % [show(t) for t, p in c])
    live = [cl for cl in it.calls if any(k in cl['name'] for k in (
        '_lnlike', '_forward', 'calc_holo', 'make_subset_data', '_residuals'))]
    for cl in live:
        under_short = any(t == c[0][0] and pol for t, pol in cl['cond']) if okc else True
        before = not cl['cond']
        check.require(not under_short and not before, 'P2-short-circuit',
                      'call %s' % cl['name'].rpartition('.')[2],
                      'only reachable when the prior is finite', loc,
                      fail_detail='%s is called %s: a hologram is computed although '
                      'the prior already forbids the parameters' % (
                          cl['name'], 'before the prior is tested' if before
                          else 'on the -inf path'))
    check.need('forward-model calls in _lnposterior', len(live), 1,
               'P1-posterior-sum', '_lnposterior likelihood call',
               'the likelihood (forward model) is evaluated on the live path', loc)
    # P1: sum
    v = full[0].value
    ll = calls_in(v, '_lnlike')
    canon = Canon()
    ok = bool(ll) and canon.equal(v, intern(('bin', '+', lp, ll[0])))
    check.require(ok, 'P1-posterior-is-sum', 'Model._lnposterior',
                  'log-posterior = log-prior + log-likelihood', loc,
                  fail_detail='returns %s' % show(v)[:200])
    if ll:
        a = ll[0][2]
        okp = a[0] == sym('pars')
        d = a[1]
        px = sym('pixels')
        okd = d == sym('data') or (
            d[0] == 'ite' and calls_in(d, 'make_subset_data') and (
                # all of the data when no pixel count is given, a subset otherwise
                (d[1] == ('cmp', 'is not', px, NONE) and d[3] == sym('data')) or
                (d[1] == ('cmp', 'is', px, NONE) and d[2] == sym('data'))))
        check.require(okp and okd, 'P1-likelihood-arguments', 'Model._lnposterior',
                      'likelihood evaluated at the same pars, on the data (or its '
                      'pixel subset)', loc, fail_detail='_lnlike(%s)' % ', '.join(
                          show(x)[:80] for x in a))
        ms = calls_in(d, 'make_subset_data')
        if ms:
            ba = term_args(prog, ms[0])
            okm = ba.get('data') == sym('data') and ba.get('pixels') == sym('pixels')
            check.require(okm, 'P1-likelihood-arguments', 'Model._lnposterior subset',
                          'subset = make_subset_data(data, pixels=pixels)', loc)


def prior(check, prog):
    q = M + 'Model._lnprior'
    fd = prog.func(q)
    loc = prog.loc(q, fd)
    it = Interp(prog, max_depth=1, opaque=[M + 'Model._scatterer_from_parameters'])
    res = it.analyze(q)
    rets = res.returns
    inf_rets = [o for o in rets if is_neg_inf(o.value)]
    handler = [o for o in inf_rets if any(t[0] == 'exc' and 'InvalidScatterer' in show(t[1])
                                          and pol for t, pol in o.cond)]
    check.require(len(handler) == 1, 'P3-invalid-scatterer', 'Model._lnprior',
                  'an InvalidScatterer while building the scatterer gives -inf', loc,
                  fail_detail='-inf returns: %s' % [[show(t)[:60] for t, p in o.cond]
                                                   for o in inf_rets])
    if len(handler) == 1:
        has_sc = intern(('cmp', 'in', ('const', 'scatterer'), ('attr', sym('self'), '_maps')))
        ok_sc = (has_sc, True) in norm_cond(handler[0].cond)
        check.require(ok_sc, 'P3-invalid-scatterer', 'Model._lnprior guard',
                      'the scatterer is built (and its validity tested) whenever the '
                      'model has a scatterer map', loc, fail_detail='handler path: %s' % [
                          (show(t)[:60], p) for t, p in handler[0].cond])
    cons = [o for o in inf_rets if path_has(
        o.cond, lambda t: t[0] == 'call' and isinstance(t[1], tuple) and
        t[1][0] == 'attr' and t[1][2] == 'check', pol=False)]
    okc = len(cons) == 1
    if okc:
        t = [t for t, pol in norm_cond(cons[0].cond) if not pol and t[0] == 'call'][0]
        call = t
        okc = call[1][0] == 'attr' and call[1][1][0] == 'elem' and \
            call[1][1][1] == ('attr', sym('self'), 'constraints') and \
            bool(calls_in(call[2][0], '_scatterer_from_parameters'))
    check.require(okc, 'P3-constraints', 'Model._lnprior',
                  'every constraint is checked on the scatterer built from pars; a '
                  'failed one gives -inf', loc)
    fin = [o for o in rets if not is_neg_inf(o.value)]
    ok = len(fin) == 1
    if ok:
        v = fin[0].value
        ok = v[0] == 'call' and v[1] == 'sum' and v[2] and v[2][0][0] == 'comp'
        if ok:
            comp = v[2][0]
            itr = comp[3][0][1]
            e = comp[3][0][0]
            P = intern(('attr', sym('self'), '_parameters'))
            ep, ev = intern(('elem', P, e[2])), intern(('elem', sym('pars'), e[2]))
            ok = itr == ('call', 'zip', (P, sym('pars')), ()) and \
                comp[2] == ('call', ('attr', ep, 'lnprob'), (ev,), ())
    check.require(ok, 'P3-sum-of-log-densities', 'Model._lnprior',
                  'log-prior = sum of p.lnprob(v) over zip(_parameters, pars)', loc,
                  fail_detail='returns %s' % (show(fin[0].value)[:200] if fin else None))


def likelihood(check, prog):
    q = M + 'Model._lnlike'
    fd = prog.func(q)
    loc = prog.loc(q, fd)
    U = 'holopy.core.utils.'
    it = Interp(prog, max_depth=1, opaque=[
        M + 'Model._find_noise', M + 'Model._residuals', U + 'ensure_scalar',
        U + 'ensure_array'])
    res = it.analyze(q)
    v = res.ret
    inner = v[2][0] if v[0] == 'call' and v[1] == U + 'ensure_scalar' and v[2] else v
    S = intern(('call', ('attr', sym('self'), '_find_noise'),
                (sym('pars'), sym('data')), ()))
    R = intern(('call', ('attr', sym('self'), '_residuals'),
                (sym('pars'), sym('data'), S), ()))
    env = {'N': intern(('attr', sym('data'), 'size')), 'S': S, 'R': R,
           'ensure_array': intern(('funcref', U + 'ensure_array'))}
    it2 = Interp(prog, opaque=[U + 'ensure_array'])
    oracle = expr_term(prog, '-N/2 * np.log(2*np.pi) - N * np.mean(np.log(ensure_array(S)))'
                             ' - 0.5 * (R**2).sum()', env, opaque=[U + 'ensure_array'])
    canon = Canon(atom_rewrite=atom_rewrite)
    check.require(canon.equal(inner, oracle), 'P4-gaussian-log-likelihood',
                  'Model._lnlike',
                  '-N/2 log(2 pi) - N mean(log sigma) - 1/2 sum(residual^2)', loc,
                  fail_detail='_lnlike computes %s; the Gaussian log-density is %s' % (
                      canon.show(inner)[:300], canon.show(oracle)[:300]))
    q = M + 'Model._residuals'
    fd = prog.func(q)
    it = Interp(prog, max_depth=1, opaque=[M + 'Model._forward'])
    res = it.analyze(q)
    F = intern(('call', ('attr', sym('self'), '_forward'), (sym('pars'), sym('data')), ()))
    oracle = expr_term(prog, '(F - data) / noise', {'F': F, 'data': sym('data'),
                                                     'noise': sym('noise')})
    check.require(canon.equal(res.ret, oracle), 'P4-residuals', 'Model._residuals',
                  'residual = (forward - data) / noise', prog.loc(q, fd),
                  fail_detail='residuals = %s' % canon.show(res.ret)[:200])


def precedence(check, prog):
    q = M + 'Model._find_noise'
    fd = prog.func(q)
    loc = prog.loc(q, fd)
    it = Interp(prog, max_depth=1, opaque=[RM, DTA])
    res = it.analyze(q)
    om = intern(('call', RM, (('idx', ('attr', sym('self'), '_maps'),
                               ('const', 'optics')), sym('pars')), ()))
    model_val = intern(('idx', om, ('const', 'noise_sd')))
    data_val = intern(('attr', sym('schema'), 'noise_sd'))
    # (the model's value may come attached to the data's channel labels -- when
    # there are data: the `noise_sd` property asks without any)
    model_lab = intern(('call', DTA, (sym('schema'), model_val), ()))
    there = intern(('cmp', 'is not', sym('schema'), NONE))
    model_lab2 = intern(('ite', there, model_lab, model_val))
    ok = False
    for o in res.returns:
        for x in subterms(o.value):
            if x[0] == 'ite' and x[2] in (model_val, model_lab, model_lab2) and \
                    x[3] == data_val:
                c = x[1]
                ok = any(y == ('cmp', 'is not', model_val, NONE) for y in subterms(c))
    check.require(ok, 'P5-noise-precedence', 'Model._find_noise',
                  "the model's noise_sd if it is set, otherwise the data's", loc,
                  fail_detail='returns %s' % show(res.ret)[:240])
    q = M + 'Model._find_optics'
    fd = prog.func(q)
    loc = prog.loc(q, fd)
    it = Interp(prog, max_depth=2, opaque=[RM])
    res = it.analyze(q)
    v = res.ret
    # per-key precedence and the key set: see precedence_tables


def precedence_tables(check, prog):
    """The two look-up functions as truth tables over their guard atoms."""
    import itertools
    from hpstatic.logic import select
    from hpstatic.interp import Frame
    me, pars, schema = sym('self'), sym('pars'), sym('schema')
    om = intern(('call', RM, (('idx', ('attr', me, '_maps'), ('const', 'optics')), pars),
                 ()))
    # ---- _find_optics: the per-key closure, with its raising path
    q = M + 'Model._find_optics'
    fd = prog.func(q)
    loc = prog.loc(q, fd)
    it = Interp(prog, max_depth=1, opaque=[RM])
    res0 = it.analyze(q)
    from hpstatic.logic import eval3
    KEYS = ('medium_index', 'illum_wavelen', 'illum_polarization')

    def atoms_for(key):
        K = intern(('const', key))
        mv = intern(('idx', om, K))
        dv = intern(('attr', schema, key))
        return (K, mv, dv,
                intern(('cmp', 'in', K, om)),
                intern(('cmp', 'is not', mv, NONE)),
                intern(('call', 'hasattr', (schema, K), ())),
                intern(('cmp', 'is not', dv, NONE)))

    def entry(t, key, hyp):
        """value stored under `key` in a dictionary-valued term (dict literal or
        a chain of item stores), following the conditionals the hypothesis decides"""
        while True:
            if t[0] == 'ite':
                c = eval3(t[1], hyp)
                if c is None:
                    return None
                t = t[2] if c else t[3]
            elif t[0] == 'upd' and t[2] == 'item':
                if t[3] == key:
                    return select(t[4], hyp)
                t = t[1]
            elif t[0] == 'dict':
                for k_, v_ in t[1]:
                    if k_ == key:
                        return select(v_, hyp)
                return None
            else:
                return t if t[0] == 'raise' else None
    if len(it.closures) == 1:
        # helper-function form: one closure evaluated per key
        (node_c, cenv, cframe), = it.closures.values()
        fr = Frame(cframe.module, cframe.owner, cframe.selfcls, cframe.selfname, 0,
                   q + '.<key>')

        def value(key, asg):
            K = intern(('const', key))
            v_ = it.inline_closure(node_c, cenv, cframe, [K], {}, fr, (),
                                   keep_raises=True)
            return select(v_, lambda t: asg.get(t))
    else:
        # loop form: the whole function, the other keys being available
        whole = res0.ret_with_raises

        def value(key, asg):
            full = dict(asg)
            for other in KEYS:
                if other != key:
                    _, _, _, A_, B_, C_, D_ = atoms_for(other)
                    full.update({A_: True, B_: True, C_: True, D_: True})
            return entry(whole, intern(('const', key)), lambda t: full.get(t))
    ok = True
    detail = ''
    rows = 0
    for key in KEYS:
        K, mv, dv, A, B, C, D = atoms_for(key)
        for a, b, c, d in itertools.product((True, False), repeat=4):
            if (b and not a) or (d and not c):
                continue          # a value can only be tested where it exists
            leaf = value(key, {A: a, B: b, C: c, D: d})
            rows += 1
            if a and b:
                good = leaf == mv
            elif c and d:
                good = leaf == dv
            else:
                good = leaf is not None and leaf[0] == 'raise' and \
                    'MissingParameter' in show(leaf)
            if not good and ok:
                ok = False
                detail = '%s: model has it=%s (set=%s), data has it=%s (set=%s): %s' % (
                    key, a, b, c, d, show(leaf)[:80] if leaf else 'undecided')
    # exactly the three optics fields are produced
    produced = set()

    def keys_of(t):
        if t[0] == 'ite':
            keys_of(t[2])
            keys_of(t[3])
        elif t[0] == 'upd' and t[2] == 'item':
            if t[3][0] == 'const':
                produced.add(t[3][1])
            keys_of(t[1])
        elif t[0] == 'dict':
            for k_, v_ in t[1]:
                if k_[0] == 'const':
                    produced.add(k_[1])
    it2 = Interp(prog, max_depth=2, opaque=[RM])
    keys_of(it2.analyze(q).ret)
    if produced != set(KEYS) and ok:
        ok = False
        detail = 'fields produced: %s' % sorted(produced)
    check.require(ok, 'P5-optics-precedence', 'Model._find_optics table',
                  "the model's value if present and not None; else the data's if "
                  'present and not None; else MissingParameter (%d rows)' % rows, loc,
                  fail_detail=detail)
    # ---- _find_noise
    q = M + 'Model._find_noise'
    fd = prog.func(q)
    loc = prog.loc(q, fd)
    it = Interp(prog, max_depth=1, opaque=[RM, DTA])
    res = it.analyze(q)
    v = res.ret_with_raises
    K = intern(('const', 'noise_sd'))
    mv = intern(('idx', om, K))
    dv = intern(('attr', schema, 'noise_sd'))
    A = intern(('cmp', 'in', K, om))
    B = intern(('cmp', 'is not', mv, NONE))
    C = intern(('call', 'hasattr', (schema, K), ()))
    labelled = intern(('call', 'holopy.core.metadata.dict_to_array', (schema, mv), ()))
    raw_model_noise = False
    uni = [x for x in subterms(v) if x[0] == 'call' and x[1] == 'numpy.all']
    ok = len(uni) == 1
    detail = 'no test that all priors are uniform'
    rows = 0
    if ok:
        U = uni[0]
        okU = U[2][0][0] in ('comp', 'call') and any(
            x[0] == 'call' and x[1] == 'isinstance' and
            x[2][1] == ('classref', 'holopy.core.prior.Uniform') and
            x[2][0][0] == 'elem' and x[2][0][1] == ('attr', me, '_parameters')
            for x in subterms(U))
        ok = okU
        for a, b, c, nn, u in itertools.product((True, False), repeat=5):
            if not ok:
                break
            if b and not a:
                continue
            src = mv if (a and b) else (dv if c else None)
            asg = {A: a, B: b, C: c, U: u,
                   intern(('cmp', 'is not', schema, NONE)): True,
                   intern(('cmp', 'is', schema, NONE)): False}
            if src is not None:
                asg[intern(('cmp', 'is', src, NONE))] = nn
                # the chosen value may appear as a conditional expression
                for x in subterms(v):
                    if x[0] == 'cmp' and x[1] == 'is' and x[3] == NONE and \
                            x[2][0] == 'ite':
                        asg[x] = nn
            if a and b and nn:
                continue          # the model's value was just tested not None
            leaf = select(v, lambda t: asg.get(t))
            if leaf is not None and leaf[0] == 'ite':
                leaf = select(leaf, lambda t: asg.get(t))
            rows += 1
            if src is None:
                good = leaf is not None and leaf[0] == 'raise'
            elif not nn:
                good = leaf == src or (src == mv and leaf == labelled)
                if src == mv and leaf == mv:
                    raw_model_noise = True
            elif u:
                good = leaf == num(1)
            else:
                good = leaf is not None and leaf[0] == 'raise'
            if not good:
                ok = False
                detail = 'model=%s/%s data=%s value None=%s uniform=%s: %s' % (
                    a, b, c, nn, u, show(leaf)[:80] if leaf else 'undecided')
    check.require(ok, 'P5-noise-precedence', 'Model._find_noise table',
                  "the model's noise_sd if set, else the data's attribute; a None "
                  'value becomes 1 only when every prior is Uniform, otherwise '
                  'MissingParameter (%d rows)' % rows, loc, fail_detail=detail)


    # per-channel noise: the data's own noise_sd was labelled by update_metadata
    # (dict_to_array: one value per illumination label); the model's comes straight
    # out of the parameter map -- a dict or a bare list -- and then divides a
    # (illumination, x, y, z) residual array
    check.require(not raw_model_noise, 'P5-per-channel-noise', 'Model._find_noise model value',
                  "the model's own noise_sd is attached to the illumination labels "
                  'before it is used, like the data\'s', loc,
                  fail_detail="the model's noise_sd is returned as it comes out of the "
                  "parameter map: a per-channel dict makes lnlike raise TypeError "
                  "(np.log of a dict), a per-channel list is broadcast against the "
                  "trailing z axis of the (illumination, x, y, z) residuals (lnlike "
                  "-23138 instead of -5902 for 3 channels; the same pixels flattened "
                  "give the right value)")


def forward(check, prog):
    I = 'holopy.scattering.interface.'
    specs = [('AlphaModel', I + 'calc_holo', True), ('ExactModel', None, False)]
    for cls, callee, has_alpha in specs:
        q = M + cls + '._forward'
        fd = prog.func(q)
        loc = prog.loc(q, fd)
        it = Interp(prog, max_depth=1, opaque=[
            RM, I + 'calc_holo', M + 'Model._find_optics',
            M + 'Model._scatterer_from_parameters', M + 'Model.theory_from_parameters'])
        res = it.analyze(q)
        normal = [o for o in res.returns if not is_neg_inf(o.value)]
        ok = len(normal) == 1
        if not ok:
            check.bad('P6-forward', cls + '._forward', 'expected one normal return', loc)
            continue
        v = normal[0].value
        if callee:
            okc = v[0] == 'call' and v[1] == callee
        else:
            okc = v[0] == 'call' and v[1] == ('attr', sym('self'), 'calc_func')
        check.require(okc, 'P6-forward', cls + '._forward callee',
                      'forward model = %s' % (callee or 'self.calc_func'), loc,
                      fail_detail='returns %s' % show(v)[:160])
        if not okc:
            continue
        pos = list(v[2])
        kws = dict(v[3])
        s = sym('self')
        want_scat = intern(('call', ('attr', s, '_scatterer_from_parameters'),
                            (sym('pars'),), ()))
        want_theory = intern(('call', ('attr', s, 'theory_from_parameters'),
                              (sym('pars'),), ()))
        want_opt = intern(('call', ('attr', s, '_find_optics'),
                           (sym('pars'), sym('detector')), ()))
        checks = [
            ('detector', pos[0] if pos else None, sym('detector')),
            ('scatterer', pos[1] if len(pos) > 1 else kws.get('scatterer'), want_scat),
            ('theory', kws.get('theory'), want_theory),
            ('optics', kws.get('**'), want_opt),
        ]
        if has_alpha:
            want_alpha = intern(('idx', ('call', RM, (
                ('idx', ('attr', s, '_maps'), ('const', 'model')), sym('pars')), ()),
                ('const', 'alpha')))
            checks.append(('scaling', kws.get('scaling'), want_alpha))
        for name, got, want in checks:
            check.require(got == want, 'P6-forward', '%s._forward %s' % (cls, name),
                          '%s = %s' % (name, show(want)[:80]), loc,
                          fail_detail='%s passed is %s' % (
                              name, show(got)[:120] if got else None))
        # failures of the solver give -inf
        fails = [o for o in res.returns if is_neg_inf(o.value)]
        check.require(len(fails) == 1, 'P6-forward', cls + '._forward failure',
                      'a solver failure / invalid scatterer gives -inf', loc)
    # theory_from_parameters / _scatterer_from_parameters covered by C11 (G3)
    q = 'holopy.core.utils.LnpostWrapper'
    it = Interp(prog, max_depth=1)
    res = it.analyze(q + '.evaluate')
    s = sym('self')
    want = intern(('bin', '*', ('attr', s, 'prefactor'),
                   ('call', ('attr', s, 'func'),
                    (sym('par_vals'), ('attr', s, 'data'), ('attr', s, 'pixels')), ())))
    check.require(Canon().equal(res.ret, want), 'P6-lnpost-wrapper', 'LnpostWrapper.evaluate',
                  'prefactor * func(par_vals, data, pixels)',
                  prog.loc(q, prog.func(q + '.evaluate')),
                  fail_detail='returns %s' % show(res.ret)[:160])
    it = Interp(prog, max_depth=1)
    res = it.analyze(q + '.__init__')
    st = {e['attr']: e['value'] for e in it.effects if e['kind'] == 'setattr'}
    ok = st.get('data') == sym('data') and st.get('pixels') == sym('new_pixels') and \
        st.get('func') == ('attr', sym('model'), '_lnposterior') and \
        st.get('prefactor') == ('ite', sym('minus'), num(-1), num(1))
    check.require(ok, 'P6-lnpost-wrapper', 'LnpostWrapper.__init__',
                  'func = model._lnposterior, pixels = new_pixels, prefactor = -1 if '
                  'minus else 1', prog.loc(q, prog.func(q + '.__init__')),
                  fail_detail='stores %s' % {k: show(v)[:50] for k, v in st.items()})


COMPILED = ('holopy.scattering.theory.mie_f', 'holopy.scattering.theory.tmatrix_f')


def solver_failures(prog):
    """Exception classes of holopy.scattering.errors that a theory raises after a
    compiled routine it called has come back: what a forward calculation at
    proposed parameter values can end in.  {class qual: [site, ...]}"""
    import ast
    out = {}
    for name, m in sorted(prog.modules.items()):
        if not name.startswith('holopy.scattering.theory.'):
            continue
        compiled = {local for local, imp in m.imports.items()
                    if local != '*' and imp[0] == 'obj' and imp[1].startswith(COMPILED)}
        if not compiled:
            continue
        for fd in ast.walk(m.tree):
            if not isinstance(fd, ast.FunctionDef):
                continue
            def has_call(node):
                for n in ast.walk(node):
                    if isinstance(n, ast.Call):
                        f = n.func
                        while isinstance(f, ast.Attribute):
                            f = f.value
                        if isinstance(f, ast.Name) and f.id in compiled:
                            return True
                return False

            if not has_call(fd):
                continue
            raises = []

            def visit(stmts, ran):
                # ran: a compiled routine may have run before this statement.
                # The refusals before it are about the kind of input, not about
                # what the solver found
                for st in stmts:
                    if isinstance(st, ast.Raise):
                        if ran and st.exc is not None:
                            raises.append(st)
                        continue
                    if isinstance(st, (ast.FunctionDef, ast.ClassDef)):
                        continue
                    blocks = [getattr(st, a) for a in ('body', 'orelse', 'finalbody')
                              if isinstance(getattr(st, a, None), list)]
                    blocks += [h.body for h in getattr(st, 'handlers', [])]
                    if blocks:
                        head = [getattr(st, a) for a in ('test', 'iter')
                                if getattr(st, a, None) is not None]
                        head += [i.context_expr for i in getattr(st, 'items', [])]
                        inner = ran or any(has_call(h) for h in head)
                        loop = isinstance(st, (ast.For, ast.While)) and has_call(st)
                        for b in blocks:
                            visit(b, inner or loop)
                    ran = ran or has_call(st)

            visit(fd.body, False)
            for n in raises:
                    e = n.exc.func if isinstance(n.exc, ast.Call) else n.exc
                    r = prog.resolve_expr(name, e)
                    if r[0] == 'class' and r[1].startswith('holopy.scattering.errors.'):
                        out.setdefault(r[1], []).append(
                            '%s:%d (%s)' % (m.relpath, n.lineno, fd.name))
    return out


def forward_failures(check, prog):
    """P6-forward-failures: `_forward` is what lnlike, the fitting residuals and
    the samplers call at every proposed parameter vector; each implementation of
    it turns a solver's refusal into -inf.  The implementations are siblings of
    one interface, so they must turn the same refusals into -inf: every failure
    class a theory raises around a compiled call must be handled by each."""
    import ast
    fails = solver_failures(prog)
    check.floor('P6-forward-failures: failure classes raised around compiled calls',
                len(fails), 2)
    mod = prog.module('holopy.inference.model')
    seen = 0
    for q in prog.subclasses(M + 'Model'):
        c = prog.cls(q)
        fd = c.methods.get('_forward')
        if fd is None:
            continue
        # the guarded region: the try statement around the forward calculation
        # (a call in its body), wherever the result is returned from
        tries = [n for n in ast.walk(fd) if isinstance(n, ast.Try) and n.handlers and any(
            isinstance(x, ast.Call) for b in n.body for x in ast.walk(b))]
        if not tries:
            continue
        seen += 1
        t = tries[0]
        handled = set()
        catch_all = False
        for h in t.handlers:
            inf = any(isinstance(x, ast.Return) and x.value is not None and
                      ast.unparse(x.value).replace(' ', '') in (
                          '-np.inf', '-numpy.inf', "-float('inf')", "float('-inf')",
                          '-math.inf', '-inf')
                      for b in h.body for x in ast.walk(b))
            if not inf:
                continue
            if h.type is None:
                catch_all = True
                continue
            for e in (h.type.elts if isinstance(h.type, ast.Tuple) else [h.type]):
                r = prog.resolve_expr(mod.name, e)
                if r[0] == 'class':
                    handled.add(r[1])
                elif isinstance(e, ast.Name) and e.id in ('Exception', 'BaseException'):
                    catch_all = True
        for f, sites in sorted(fails.items()):
            ok = catch_all or any(prog.is_subclass(f, h) for h in handled)
            check.require(ok, 'P6-forward-failures',
                          '%s._forward handles %s' % (c.name, f.rpartition('.')[2]),
                          'a forward calculation that ends in %s (raised at %s) gives '
                          '-inf' % (f.rpartition('.')[2], sites[0]),
                          prog.loc(mod, t),
                          fail_detail='handlers returning -inf name %s' % sorted(
                              h.rpartition('.')[2] for h in handled))
    check.floor('P6-forward-failures: _forward implementations with a handler', seen, 2)


def constraint_formula(check, prog):
    """P3-constraint-formula: `fraction is the largest overlap allowed, in terms of
    sphere diameter` -- a cluster violates the constraint exactly when its largest
    overlap exceeds fraction x diameter.  Decided: the verdict is one ordering
    comparison of `s.largest_overlap()` with 2 x fraction x (a statistic of the
    members' radii), with no tolerance term: an approximate-equality escape
    (`np.isclose` has an absolute tolerance of 1e-8, i.e. 10 nm for lengths in
    metres) lets a forbidden cluster through with a finite prior.  Not decided:
    which member's radius (the documentation does not say)."""
    from hpstatic.poly import Canon
    q = M + 'LimitOverlaps.check'
    fd = prog.func(q)
    loc = prog.loc(q, fd)
    it = Interp(prog, max_depth=0)
    res = it.analyze(q)
    v = res.ret
    s_ = sym(fd.args.args[1].arg)
    me = sym(fd.args.args[0].arg)
    while v[0] == 'call' and v[1] == 'bool' and len(v[2]) == 1:
        v = v[2][0]
    ok = v[0] == 'cmp' and v[1] in ('<=', '>=')
    detail = 'returns %s' % show(res.ret)[:160]
    if ok:
        small, big = (v[2], v[3]) if v[1] == '<=' else (v[3], v[2])
        ok = small == ('call', ('attr', s_, 'largest_overlap'), (), ())
        if ok:
            canon = Canon()
            radius = [x for x in subterms(big) if x[0] == 'call' and any(
                y == ('attr', s_, 'r') for a in x[2] for y in subterms(a))]
            ok = False
            for R in radius:
                want = intern(('bin', '*', ('bin', '*', num(2), R),
                               ('attr', me, 'fraction')))
                if canon.equal(big, want):
                    ok = True
            if not ok:
                detail = 'the limit is %s' % show(big)[:120]
    check.require(ok, 'P3-constraint-formula', 'LimitOverlaps.check',
                  'largest_overlap() <= 2 x fraction x (a radius of the cluster), and '
                  'nothing else', loc, fail_detail=detail)


def name_agreement(check, prog, modules=('holopy.inference.model',)):
    """A bare local `x` passed positionally must land on the callee's parameter
    `x` whenever the callee has a parameter of that name."""
    n = 0
    for mn in modules:
        m = prog.module(mn)
        for cq, c in prog.classes.items():
            if c.module is not m:
                continue
            for mname, fd in c.methods.items():
                for node in ast.walk(fd):
                    if not isinstance(node, ast.Call):
                        continue
                    f = node.func
                    callee = None
                    skip_self = 0
                    if isinstance(f, ast.Attribute) and isinstance(f.value, ast.Call) \
                            and isinstance(f.value.func, ast.Name) and \
                            f.value.func.id == 'super':
                        hit = prog.lookup(cq, f.attr, after=cq)
                        if hit and hit[0] == 'method':
                            callee, skip_self = hit[2], 1
                    elif isinstance(f, ast.Name):
                        r = prog.resolve_name(m.name, f.id)
                        if r[0] == 'func':
                            callee = prog.func(r[1])
                        elif r[0] == 'class':
                            hit = prog.lookup(r[1], '__init__')
                            if hit and hit[0] == 'method':
                                callee, skip_self = hit[2], 1
                    if callee is None:
                        continue
                    pnames = [a.arg for a in callee.args.args][skip_self:]
                    for k_ in node.keywords:
                        # handed over by name: routed correctly by construction
                        if k_.arg in pnames and isinstance(k_.value, ast.Name) and \
                                k_.value.id in pnames:
                            n += 1
                            check.require(
                                k_.arg == k_.value.id, 'P7-argument-routing',
                                '%s.%s -> %s(%s)' % (c.name, mname, callee.name,
                                                     k_.value.id),
                                'argument %s is bound to parameter %s' % (
                                    k_.value.id, k_.arg),
                                '%s:%d' % (m.relpath, node.lineno),
                                fail_detail='%s is passed as %s=, and the callee also '
                                'has a parameter named %r' % (k_.value.id, k_.arg,
                                                              k_.value.id))
                    for i, a in enumerate(node.args):
                        if isinstance(a, ast.Name) and a.id in pnames and i < len(pnames):
                            n += 1
                            ok = pnames[i] == a.id
                            check.require(
                                ok, 'P7-argument-routing',
                                '%s.%s -> %s(%s)' % (c.name, mname, callee.name, a.id),
                                'argument %s is bound to parameter %s' % (a.id, pnames[i]),
                                '%s:%d' % (m.relpath, node.lineno),
                                fail_detail='%s is passed in position %d, which is the '
                                'parameter %r of %s; the callee also has a parameter '
                                'named %r' % (a.id, i, pnames[i], callee.name, a.id))
    check.floor('name-agreeing arguments', n, 10)
