"""A generic composite (holopy.scattering.Scatterers, documented as 'multiple scattering primitives
(e.g. Sphere) or other Scatterers (e.g. two trimers)') cannot be given to calc_field / calc_holo /
calc_intensity: ImageFormation.calculate_scattered_field reads `scatterer.center`, which only the
subclass Spheres defines.  The superposition branch written for it
(`elif isinstance(scatterer, Scatterers): ... get_component_list()`), and with it the recursion of
get_component_list over nested composites, is unreachable; the field of the collection is never the
sum of the fields of its members - the call dies with an AttributeError."""
import sys, os; sys.path.insert(0, os.getcwd())
import warnings; warnings.simplefilter('ignore')
import numpy as np
import holopy as hp
from holopy.scattering import Sphere, Spheres, Scatterers, Mie, calc_field
print(hp.__file__)
det = hp.detector_grid((5, 4), 0.3)
a = Sphere(n=1.59, r=0.5, center=(1, 1, 8)); b = Sphere(n=1.45, r=0.3, center=(2.5, 1, 9)); c = Sphere(n=1.7, r=0.4, center=(0, 2, 7))
kw = dict(medium_index=1.33, illum_wavelen=0.66, illum_polarization=(1, 0), theory=Mie())
expected = sum(calc_field(det, s, **kw) for s in (a, b, c))
print('Spheres([a, b, c]) - sum of members:', float(abs(calc_field(det, Spheres([a, b, c]), **kw) - expected).max()))
bad = False
for label, comp in [('Scatterers([a, b, c])', Scatterers([a, b, c])),
                    ('Scatterers([Spheres([a, b]), Scatterers([c])])', Scatterers([Spheres([a, b]), Scatterers([c])]))]:
    print(label, '-> components', len(comp.get_component_list()))
    try:
        f = calc_field(det, comp, **kw)
        dev = float(abs(f - expected).max())
        print('   field - sum of members:', dev)
        bad = bad or dev > 1e-12
    except Exception as e:
        print('   raised', type(e).__name__ + ':', e)
        bad = True
print('VIOLATION' if bad else 'ok')
sys.exit(1 if bad else 0)
