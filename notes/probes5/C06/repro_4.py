"""The polarisation is normalised as c / sqrt(sum(c**2)) (metadata.to_vector, both branches): the
squares under- or overflow long before the vector itself does, so the clause 'for polarisation
(a, b) of ANY norm the field is (a E_x + b E_y)/|(a, b)|' fails for small and large norms:
  |c| ~ 1e-160 : the 'unit' vector has norm 1 + 5.6e-6 (denormal squares), fields off by 5.6e-6
  |c| ~ 1e-170 : squares flush to zero -> inf/nan polarisation -> NaN fields (no error)
  |c| ~ 1e+160 : squares overflow -> polarisation (0, 0, 0) -> an all-zero scattered field, no error
np.hypot / scaling by max|c| first would be exact."""
import sys, os; sys.path.insert(0, os.getcwd())
import warnings; warnings.simplefilter('ignore')
import numpy as np, xarray as xr
import holopy as hp
from holopy.core.metadata import to_vector
from holopy.scattering import Sphere, Mie, calc_field
print(hp.__file__)
det = hp.detector_grid((4, 3), 0.3)
s = Sphere(n=1.59, r=0.5, center=(1, 1, 8))
kw = dict(medium_index=1.33, illum_wavelen=0.66, theory=Mie())
ex = calc_field(det, s, illum_polarization=(1, 0), **kw); ey = calc_field(det, s, illum_polarization=(0, 1), **kw)
bad = False
for scale in [1.0, 1e-100, 1e-160, 1e-170, 1e160]:
    a, b = 3 * scale, 4 * scale
    expected = 0.6 * ex + 0.8 * ey
    for label, pol in [('tuple', (a, b)), ('labelled', xr.DataArray([a, b, 0.], dims='vector', coords={'vector': ['x', 'y', 'z']}))]:
        with np.errstate(all='ignore'):
            v = to_vector(pol).values
            try:
                f = calc_field(det, s, illum_polarization=pol, **kw)
                dev = float(abs(f - expected).max() / abs(expected).max())
                dev = np.inf if np.isnan(dev) else dev
                msg = f'relative deviation from (a Ex + b Ey)/|(a,b)| = {dev:.3g}'
            except Exception as e:
                dev = np.inf; msg = f'raised {type(e).__name__}: {e}'
        print(f'({a:g}, {b:g}) {label:8s} unit vector {v[:2]}  {msg}')
        if dev > 1e-9: bad = True
print('VIOLATION' if bad else 'ok')
sys.exit(1 if bad else 0)
