"""MieLens / AberratedMieLens: the default `calculator_accuracy_kwargs={}` is ONE dictionary shared by
every theory object built without that argument.  Changing the accuracy settings of one theory
object silently changes the fields computed by every other (earlier or later) default-built object."""
import sys, os; sys.path.insert(0, os.getcwd())
import warnings; warnings.simplefilter('ignore')
import numpy as np
import holopy as hp
from holopy.scattering import Sphere, MieLens, calc_field
from holopy.scattering.theory import AberratedMieLens
print(hp.__file__)
det = hp.detector_grid((6, 5), 0.3)
s = Sphere(n=1.59, r=0.5, center=(1, 1, 3))
kw = dict(medium_index=1.33, illum_wavelen=0.66, illum_polarization=(1, 0))

other = MieLens()                       # somebody else's theory object, never touched below
reference = calc_field(det, s, theory=MieLens(calculator_accuracy_kwargs={
    'interpolate_integrals': False}), **kw)      # what a default MieLens computes (100 nodes)

mine = MieLens()                        # my own object: make it coarse and quick
mine.calculator_accuracy_kwargs['interpolate_integrals'] = False
mine.calculator_accuracy_kwargs['quad_npts'] = 6

fresh = MieLens()                       # a brand-new default object, built afterwards
ab = AberratedMieLens(spherical_aberration=0.0)
print('other.calculator_accuracy_kwargs :', other.calculator_accuracy_kwargs)
print('fresh.calculator_accuracy_kwargs :', fresh.calculator_accuracy_kwargs)
print('AberratedMieLens default shared too:', ab.calculator_accuracy_kwargs is AberratedMieLens(0.0).calculator_accuracy_kwargs)
f_other = calc_field(det, s, theory=other, **kw)
f_fresh = calc_field(det, s, theory=fresh, **kw)
dev_other = float(abs(f_other - reference).max() / abs(reference).max())
dev_fresh = float(abs(f_fresh - reference).max() / abs(reference).max())
print('relative change of the field of the untouched object:', dev_other)
print('relative change of the field of a new default object :', dev_fresh)
bad = (other.calculator_accuracy_kwargs is mine.calculator_accuracy_kwargs) and (dev_other > 1e-6 or dev_fresh > 1e-6)
print('VIOLATION' if bad else 'ok')
sys.exit(1 if bad else 0)
