"""Side finding in compiled code reached by Mie.raw_fields (holopy/scattering/third_party/SBESJY.F,
called from asm_mie_fullradial / radial_field_mie in mie_f/mieangfuncs.f90).
The branch that renormalises the Bessel recurrence is chosen with
      IF (J(0) .GT. DSQRT(ACCUR)) THEN ! usual case, nonzero j(0)
i.e. on the SIGN of j0(kr), not its size: for every kr with sin(kr) < 0 the 'j(0) = 0' fallback is
taken, which normalises with j1(kr).  Next to the zeros of j1 that have j0 < 0 (kr = 4.4934, 10.9041,
17.2208, ...) that normalisation is 0/0 and the near field of a sphere jumps: the field at
kr0 and at kr0(1 + 1e-9) differ by tens of per cent although the exact field changes by ~1e-9."""
import sys, os; sys.path.insert(0, os.getcwd())
import warnings; warnings.simplefilter('ignore')
import numpy as np
from scipy.optimize import brentq
from scipy.special import spherical_jn
import holopy as hp
from holopy.core.metadata import detector_points
from holopy.scattering import Sphere, Mie, calc_field
print(hp.__file__)
k = 2 * np.pi * 1.33 / 0.66
s = Sphere(n=1.59, r=0.2, center=(0, 0, 0))
bad = False
for bracket in [(4.3, 4.7), (7.6, 7.8), (10.8, 11.0)]:
    x0 = brentq(lambda x: spherical_jn(1, x), *bracket, xtol=1e-16, rtol=1e-15)
    f = []
    for rel in [0.0, 1e-9, -1e-9]:
        det = detector_points(r=x0 * (1 + rel) / k, theta=0.7, phi=0.4)
        f.append(calc_field(det, s, 1.33, 0.66, (1, 0), theory=Mie()).values.ravel())
    jump = abs(f[0] - f[1]).max() / abs(f[1]).max()
    smooth = abs(f[2] - f[1]).max() / abs(f[1]).max()
    print(f'kr0 = {x0:.12f}  j0(kr0) = {np.sin(x0)/x0:+.3f}  |E(kr0) - E(kr0(1+1e-9))|/|E| = {jump:.3g}'
          f'   (neighbours kr0(1-1e-9) vs kr0(1+1e-9): {smooth:.3g})')
    if jump > 1e-6: bad = True
print('VIOLATION' if bad else 'ok')
sys.exit(1 if bad else 0)
