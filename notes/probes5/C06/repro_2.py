"""MieLens.raw_fields (and AberratedMieLens) rotates the azimuths of the caller's `positions`
array IN PLACE (phi -= pol_angle; phi %= 2 pi).  A second call on the same positions therefore
sees shifted azimuths: the same call returns a different field, and the polarisation-linearity
identity  E(a, b) = (a E_x + b E_y)/|(a, b)|  fails when the three fields are computed on one
positions array.  Lens(Mie) and Mie, given the same arguments, leave the array alone."""
import sys, os; sys.path.insert(0, os.getcwd())
import warnings; warnings.simplefilter('ignore')
import numpy as np
import holopy as hp
from holopy.core.metadata import to_vector
from holopy.scattering import Sphere, Mie, MieLens
from holopy.scattering.theory import Lens
print(hp.__file__)
s = Sphere(n=1.59, r=0.5, center=(0, 0, 0))
k = 2 * np.pi * 1.33 / 0.66
rho = k * np.array([0.5, 1.0, 1.5, 2.0]); phi = np.array([0.3, 1.1, 2.5, 4.0]); z = k * np.full(4, 3.0)
bad = False
for name, th in [('MieLens', MieLens(0.8, {'interpolate_integrals': False})), ('Lens(Mie)', Lens(0.8, Mie(), 40, 40))]:
    pos = np.array([rho, phi, z])
    before = pos.copy()
    pol = to_vector((1.0, 2.0))
    first = th.raw_fields(pos, s, k, 1.33, pol)
    changed = not np.array_equal(pos, before)
    second = th.raw_fields(pos, s, k, 1.33, pol)
    repeat_dev = float(abs(first - second).max() / abs(first).max())
    # linearity on one shared positions array
    pos = np.array([rho, phi, z])
    e_ab = th.raw_fields(pos, s, k, 1.33, to_vector((1.0, 2.0)))
    e_x = th.raw_fields(pos, s, k, 1.33, to_vector((1.0, 0.0)))
    e_y = th.raw_fields(pos, s, k, 1.33, to_vector((0.0, 1.0)))
    lin_dev = float(abs(e_ab - (e_x + 2 * e_y) / np.sqrt(5)).max() / abs(e_ab).max())
    print(f'{name:10s} positions modified: {changed};'
          f' same call twice differs by {repeat_dev:.3g};  linearity defect {lin_dev:.3g}')
    if name == 'MieLens' and (changed or repeat_dev > 1e-9 or lin_dev > 1e-9):
        bad = True
print('VIOLATION' if bad else 'ok')
sys.exit(1 if bad else 0)
