"""C12 repro 1: hp.fit with the default NmpfitStrategy does not maximise
Model.lnposterior = lnprior + lnlike.  Its prior pseudo-residuals are
sqrt(lnp(guess) - lnp(value)), so the minimised sum of squares is
-2*lnlike - 1*lnprior: the prior enters with half its weight."""
import sys, os; sys.path.insert(0, os.getcwd())
import warnings; warnings.simplefilter('ignore')
import numpy as np
np.NaN = np.nan          # sandbox: numpy 2 (needed by third_party nmpfit)
import holopy as hp
from holopy.scattering import Sphere, calc_holo
from holopy.inference import AlphaModel, prior, NmpfitStrategy
from holopy.core.metadata import detector_grid, update_metadata
from scipy.optimize import minimize_scalar

rng = np.random.default_rng(0)
det = update_metadata(detector_grid((20, 20), 0.2), 1.33, 0.66, (1, 0),
                      noise_sd=0.3)
data = calc_holo(det, Sphere(n=1.59, r=0.5, center=(2, 2, 8.0)))
data = data + rng.normal(0, 0.3, data.shape)
data.attrs = det.attrs
# informative prior on z that disagrees with the data (truth 8.0)
m = AlphaModel(Sphere(n=1.59, r=0.5,
                      center=(2, 2, prior.Gaussian(8.6, 0.05, name='z'))),
               alpha=1.0)
zfit = hp.fit(data, m, strategy=NmpfitStrategy()).parameters['z']
kw = dict(bounds=(7.5, 9.2), method='bounded', options={'xatol': 1e-10})
zmap = minimize_scalar(lambda z: -m.lnposterior([z], data), **kw).x
zhalf = minimize_scalar(
    lambda z: -(m.lnlike([z], data) + 0.5 * m.lnprior([z])), **kw).x
print('z from hp.fit (nmpfit)            :', zfit)
print('argmax lnprior + lnlike (the MAP) :', zmap)
print('argmax 0.5*lnprior + lnlike       :', zhalf)
print('lnposterior at fit', m.lnposterior([zfit], data),
      ' at MAP', m.lnposterior([zmap], data))
bad = abs(zfit - zmap) > 1e-3 and abs(zfit - zhalf) < 1e-5
print('VIOLATION: fit maximises lnlike + lnprior/2' if bad else 'ok')
sys.exit(1 if bad else 0)
