"""C12 repro 3: one plane selected from a colour stack (xarray keeps the
stack's per-channel metadata in attrs and the label as a scalar coordinate).
Model.forward returns a hologram with BOTH channels, the residuals broadcast the
single red plane against both, and lnlike mixes N = data.size (35) in its
normalisation with 70 residuals in its chi-square: it is not the Gaussian
log-density of any residual vector, and differs from the likelihood of the red
plane computed with the red optics."""
import sys, os; sys.path.insert(0, os.getcwd())
import warnings; warnings.simplefilter('ignore')
import numpy as np
from scipy import stats
from holopy.scattering import Sphere, calc_holo
from holopy.inference import AlphaModel, prior
from holopy.core.metadata import detector_grid, update_metadata

rng = np.random.default_rng(2)
det = detector_grid((7, 5), (0.1, 0.13),
                    extra_dims={'illumination': ['red', 'green']})
det = update_metadata(det, medium_index=1.33,
                      illum_wavelen={'red': 0.66, 'green': 0.52},
                      illum_polarization=(0, 1),
                      noise_sd={'red': 0.05, 'green': 0.07})
stack = det.copy(data=rng.normal(1, 0.1, det.shape))
stack.attrs = det.attrs
red = stack.sel(illumination='red')          # one plane; attrs come along
print('data dims', red.dims, 'size', red.size,
      '| scalar coord illumination =', red.illumination.item())

m = AlphaModel(Sphere(n=prior.Gaussian(1.58, 0.02), r=0.5,
                      center=[0.3, 0.25, prior.Uniform(3, 10)]), alpha=0.8)
pars = {'n': 1.57, 'center.2': 5.2}
fwd = m.forward(pars, red)
ll = m.lnlike(pars, red)
print('forward dims', fwd.dims, 'size', fwd.size)

# what the red plane's likelihood is with the red optics and noise
bare = red.copy(); bare.attrs = {}
h = calc_holo(bare, Sphere(n=1.57, r=0.5, center=(0.3, 0.25, 5.2)),
              1.33, 0.66, (0, 1), scaling=0.8)
ll_red = stats.norm.logpdf((h - bare).values, 0, 0.05).sum()
# Gaussian log-density of the residual vector the library itself forms
res = (fwd - red)
sd = (0 * res + red.noise_sd)
ll_self = stats.norm.logpdf(res.values, 0, sd.values).sum()
print('Model.lnlike                    :', ll)
print('red plane, red optics           :', ll_red)
print('logpdf of library residuals (70):', ll_self)
bad = fwd.size != red.size and not np.isclose(ll, ll_red) \
    and not np.isclose(ll, ll_self)
print('VIOLATION' if bad else 'ok')
sys.exit(1 if bad else 0)
