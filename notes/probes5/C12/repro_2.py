"""C12 repro 2: a Model on a Spheroid/Cylinder whose rotation parameter takes a
negative value (well inside the prior's support) never returns a log-posterior:
the compiled T-matrix code executes STOP and the Python interpreter ends
silently with exit status 0 (no exception, no -inf)."""
import sys, os, subprocess, textwrap
sys.path.insert(0, os.getcwd())

CHILD = textwrap.dedent('''
    import sys, os; sys.path.insert(0, os.getcwd())
    import warnings; warnings.simplefilter('ignore')
    import numpy as np
    from holopy.scattering import Spheroid, Cylinder
    from holopy.inference import AlphaModel, prior
    from holopy.core.metadata import detector_grid, update_metadata
    det = update_metadata(detector_grid((6, 5), 0.2), medium_index=1.33,
                          illum_wavelen=0.66, illum_polarization=(1, 0),
                          noise_sd=0.05)
    data = det + 1.0
    data.attrs = det.attrs
    kind, beta, gamma = sys.argv[1], float(sys.argv[2]), float(sys.argv[3])
    b = prior.Gaussian(0.5, 1.0, name='beta')
    g = prior.Gaussian(0.0, 1.0, name='gamma')
    if kind == 'spheroid':
        s = Spheroid(n=1.57, r=(0.3, 0.5), rotation=(0, b, g), center=(0.5, 0.5, 5.))
    else:
        s = Cylinder(n=1.57, d=0.6, h=0.5, rotation=(0, b, g), center=(0.5, 0.5, 5.))
    m = AlphaModel(s, alpha=0.8)
    pars = {'beta': beta, 'gamma': gamma}
    print('lnprior', m.lnprior(pars), flush=True)
    print('lnposterior', m.lnposterior(pars, data), flush=True)
    print('SURVIVED', flush=True)
''')

bad = 0
for kind, beta, gamma in [('spheroid', 0.7, 0.3), ('spheroid', 0.7, -0.3),
                          ('spheroid', -0.2, 0.3), ('cylinder', 0.7, -0.3),
                          ('spheroid', 3.3, 0.3), ('spheroid', 0.7, 6.5)]:
    p = subprocess.run([sys.executable, '-c', CHILD, kind, str(beta), str(gamma)],
                       capture_output=True, text=True)
    survived = 'SURVIVED' in p.stdout
    print(kind, 'beta', beta, 'gamma', gamma, '-> exit status', p.returncode,
          '| stdout:', p.stdout.strip().replace('\n', ' ; '),
          '| stderr tail:', p.stderr.strip()[-120:])
    if not survived and p.returncode == 0:
        bad += 1
        print('   VIOLATION: interpreter ended silently (status 0) inside '
              'Model.lnposterior for a parameter value with finite log-prior')
sys.exit(1 if bad else 0)
