"""C12 repro 5 (holopy/core/prior.py: make_center_priors): for an image with
non-square pixels the Gaussian x/y priors are centred many standard deviations
away from the particle, although the function takes a per-axis spacing and
scales the result per axis.  With square pixels the same scene is located to
a few hundredths of a pixel."""
import sys, os; sys.path.insert(0, os.getcwd())
import warnings; warnings.simplefilter('ignore')
import numpy as np
from holopy.scattering import Sphere, calc_holo
from holopy.core.prior import make_center_priors
from holopy.core.metadata import detector_grid, update_metadata

bad = 0
for spacing, centre in [((0.1, 0.1), (3.2, 6.5, 10)),
                        ((0.1, 0.15), (3.2, 9.5, 10)),
                        ((0.15, 0.1), (9.5, 3.2, 10))]:
    det = update_metadata(detector_grid((100, 100), spacing), 1.33, 0.66, (1, 0))
    holo = calc_holo(det, Sphere(n=1.59, r=0.5, center=centre))
    px, py, pz = make_center_priors(holo)
    nsig = max(abs(px.mu - centre[0]) / px.sd, abs(py.mu - centre[1]) / py.sd)
    print('spacing', spacing, 'true xy', centre[:2],
          'prior means', (round(float(px.mu), 3), round(float(py.mu), 3)),
          'sd', (float(px.sd), float(py.sd)), '-> off by %.1f sd' % nsig)
    if spacing[0] != spacing[1] and nsig > 5:
        bad += 1
# part B: a colour hologram in the axis order calc_holo returns
# (illumination, x, y, z): center_find drops "extra" axes with [:, :, 0],
# i.e. assumes they trail, and slices away y instead of the channel axis
det2 = detector_grid((80, 80), 0.1, extra_dims={'illumination': ['r', 'g']})
h2 = calc_holo(det2, Sphere(n=1.59, r=0.5, center=(3.2, 5.5, 8)), 1.33,
               {'r': .66, 'g': .52}, (1, 0))
for label, im in [('dims %s' % (h2.dims,), h2),
                  ('same data transposed to (z, x, y, illumination)',
                   h2.transpose('z', 'x', 'y', 'illumination'))]:
    px, py, pz = make_center_priors(im)
    print(label, '-> prior means', (round(float(px.mu), 3), round(float(py.mu), 3)),
          'true (3.2, 5.5)')
    if abs(px.mu - 3.2) > 0.5 or abs(py.mu - 5.5) > 0.5:
        bad += 1
print('VIOLATION' if bad else 'ok')
sys.exit(1 if bad else 0)
