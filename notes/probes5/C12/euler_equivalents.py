import sys, os; sys.path.insert(0, os.getcwd())
import numpy as np, warnings
warnings.simplefilter('ignore')
from holopy.scattering import Spheroid, Cylinder, calc_holo, calc_field
from holopy.core.metadata import detector_grid
det=detector_grid(12,0.4)
def h(sc): return calc_holo(det,sc,medium_index=1.33,illum_wavelen=0.66,illum_polarization=(1,0)).values
pi=np.pi
ref=h(Spheroid(n=1.5,r=(0.4,0.7),rotation=(0,0.3,0.5+pi),center=(2.4,2.4,6)))
for rot in [(0,-0.3,0.5),(0,0.3,0.5+pi-2*pi),(0,2*pi-0.3,0.5),(0,0.3+2*pi,0.5+pi),(0,-0.3-2*pi,0.5+4*pi),(0.7,-0.3,0.5)]:
    v=h(Spheroid(n=1.5,r=(0.4,0.7),rotation=rot,center=(2.4,2.4,6)))
    print(rot,'max diff vs in-range equivalent',np.abs(v-ref).max())
refc=h(Cylinder(n=1.5,d=0.6,h=0.9,rotation=(0,0.4,1.0),center=(2.4,2.4,6)))
v=h(Cylinder(n=1.5,d=0.6,h=0.9,rotation=(0,-0.4,1.0-pi),center=(2.4,2.4,6)))
print('cylinder',np.abs(v-refc).max())
# in-range angles unchanged? compare with direct known value: axis reversal: beta -> pi - beta, alpha -> alpha + pi is the same particle
v2=h(Spheroid(n=1.5,r=(0.4,0.7),rotation=(0,pi-0.3,0.5),center=(2.4,2.4,6)))
print('axis reversal',np.abs(v2-ref).max())
print('done')
