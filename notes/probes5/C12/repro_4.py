"""C12 repro 4 (same root as repro 1): with noise_sd given as a Prior (which
Model accepts and lnposterior handles exactly), hp.fit/NmpfitStrategy minimises
sum((model-data)/noise)**2 without the -N*log(noise) term of lnlike, so the
'best fit' noise runs to the upper bound of its prior, far from the maximum of
Model.lnposterior."""
import sys, os; sys.path.insert(0, os.getcwd())
import warnings; warnings.simplefilter('ignore')
import numpy as np
np.NaN = np.nan          # sandbox: numpy 2 (needed by third_party nmpfit)
import holopy as hp
from holopy.scattering import Sphere, calc_holo
from holopy.inference import AlphaModel, prior, NmpfitStrategy
from holopy.core.metadata import detector_grid, update_metadata
rng = np.random.default_rng(0)
det = update_metadata(detector_grid((20, 20), 0.2), 1.33, 0.66, (1, 0))
data = calc_holo(det, Sphere(n=1.59, r=0.5, center=(2, 2, 8.0)))
data = data + rng.normal(0, 0.3, data.shape)          # true noise 0.3
data.attrs = det.attrs
m = AlphaModel(Sphere(n=1.59, r=0.5,
                      center=(2, 2, prior.Uniform(7, 9, name='z'))),
               alpha=1.0,
               noise_sd=prior.Uniform(0.05, 2, guess=0.5, name='noise'))
res = hp.fit(data, m, strategy=NmpfitStrategy())
p = res.parameters
lp_fit = m.lnposterior(p, data)
lp_true = m.lnposterior({'z': p['z'], 'noise': 0.3}, data)
print('fit:', p)
print('lnposterior at fit', lp_fit, '| same z, noise=0.3:', lp_true)
bad = p['noise'] > 1.9 and lp_true - lp_fit > 100
print('VIOLATION: fit is not near the posterior maximum' if bad else 'ok')
sys.exit(1 if bad else 0)
