"""C02 / repro 1: Multisphere(qeps1=0) -- a single-sphere 'error tolerance' of
zero -- silently replaces the Lorenz-Mie series of every sphere by the one-term
Rayleigh (electric dipole) formula, whatever the size of the sphere.  The field
of a one-sphere cluster then disagrees with Mie by ~100 %.
(qeps1 < 0 is worse: mie1 then reads the never-assigned order `nstop`.)
Run from the checkout root.  Exit 1 when the violation is present."""
import sys, os
sys.path.insert(0, os.getcwd())
import warnings; warnings.filterwarnings('ignore')
import numpy as np
import holopy as hp
from holopy.scattering import Sphere, Mie, Multisphere, calc_field, calc_cross_sections
from holopy.core.metadata import detector_grid

print('holopy from', hp.__file__)
det = detector_grid(shape=(4, 5), spacing=(0.3, 0.2))
s = Sphere(n=1.59, r=0.5, center=(0.3, 0.4, 5))          # x = k a = 6.3
args = dict(medium_index=1.33, illum_wavelen=0.66, illum_polarization=(0.6, 0.8))
ref = calc_field(det, s, theory=Mie(compute_escat_radial=False), **args).values
bad = False
for q in (1e-5, 1e-12, 1e-300, 0.0):
    f = calc_field(det, s, theory=Multisphere(qeps1=q), **args).values
    err = np.abs(f - ref).max() / np.abs(ref).max()
    print('qeps1 = %-7g  max |E_multisphere - E_mie| / max|E_mie| = %.3e' % (q, err))
    if q == 0.0 and err > 1e-2:
        bad = True
cm = calc_cross_sections(s, 1.33, 0.66, (1, 0), theory=Mie()).values
c0 = calc_cross_sections(s, 1.33, 0.66, (1, 0), theory=Multisphere(qeps1=0)).values
print('C_scat  Mie %.4f   Multisphere(qeps1=0) %.4f' % (cm[0], c0[0]))
if bad:
    print('VIOLATION: tolerance 0 gives the dipole approximation, silently')
sys.exit(1 if bad else 0)
