"""C02 / repro 2: a layered Sphere whose outer radii are not increasing is
accepted silently (the sibling LayeredSphere refuses the equivalent negative
thickness).  Mie then mixes the largest radius (series length, psi/xi argument)
with the last radius (n/x term, last layer) in scatcoeffs_multi, and returns an
amplitude matrix that belongs to no particle: not to the particle with the
layers listed inside-out, not to what the scatterer's own geometry
(`index_at`: earlier layers have priority -> a homogeneous sphere of the first
index and the largest radius) describes.
Run from the checkout root.  Exit 1 when the violation is present."""
import sys, os
sys.path.insert(0, os.getcwd())
import warnings; warnings.filterwarnings('ignore')
import numpy as np
import holopy as hp
from holopy.scattering import Sphere, LayeredSphere, Mie, calc_scat_matrix
from holopy.core.metadata import detector_points

print('holopy from', hp.__file__)
th = np.array([0, 0.5, 1.3, 2.2, np.pi])
det = detector_points(theta=th, phi=0 * th)
S = lambda s: calc_scat_matrix(det, s, 1.33, 0.66, theory=Mie()).values
shell, core = 1.7, 1.59 + 0.01j
try:
    LayeredSphere(n=[shell, core], t=[0.5, -0.2])
    print('LayeredSphere accepted a negative thickness')
except Exception as e:
    print('LayeredSphere(t=[0.5, -0.2]) ->', type(e).__name__)
try:
    odd = Sphere(n=[shell, core], r=[0.5, 0.3], center=(0, 0, 0))  # outside-in
    S_odd = S(odd)
except Exception as e:
    print('Sphere(r=[0.5, 0.3]) refused:', type(e).__name__)
    sys.exit(0)
print('Sphere(r=[0.5, 0.3]) accepted, Mie returns finite values:', np.isfinite(S_odd).all())
pts = np.array([[0, 0, 0.1], [0, 0, 0.4]])
print('index_at (0.1, 0.4 from the centre):', odd.index_at(pts))
cands = {'layers reversed (core 0.3, shell 0.5)': Sphere(n=[core, shell], r=[0.3, 0.5]),
         'homogeneous n[0], r=0.5 (what index_at says)': Sphere(n=shell, r=0.5),
         'homogeneous n[-1], r=0.3': Sphere(n=core, r=0.3),
         'homogeneous n[-1], r=0.5': Sphere(n=core, r=0.5)}
best = np.inf
for name, c in cands.items():
    Sc = S(c)
    d = np.abs(S_odd - Sc).max() / np.abs(Sc).max()
    best = min(best, d)
    print('  relative difference to %-48s %.3f' % (name, d))
bad = best > 1e-3
if bad:
    print('VIOLATION: non-increasing radii are computed silently and match no particle')
sys.exit(1 if bad else 0)
