"""C01 / finding 4 (metadata): calc_scat_matrix overwrites the detector's
illumination polarisation with the sentinel False in the result's metadata
(prep_schema is called with illum_polarization=False, and update_metadata only
filters None)."""
import sys, os; sys.path.insert(0, os.getcwd())
import warnings; warnings.filterwarnings('ignore')
import numpy as np
import holopy as hp
from holopy.core.metadata import update_metadata
from holopy.scattering import calc_scat_matrix, calc_holo, Sphere
print(hp.__file__)
sc = Sphere(n=1.59, r=0.5, center=(0.3, 0.2, 5))
det = update_metadata(hp.detector_grid((2, 2), 0.1), 1.33, 0.66, (0, 1))
m = calc_scat_matrix(det, sc)
print('detector polarisation:', det.illum_polarization.values)
print('result   polarisation:', m.attrs['illum_polarization'])
bad = m.attrs['illum_polarization'] is False
sys.exit(1 if bad else 0)
