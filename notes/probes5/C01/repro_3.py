"""C01 / finding 3: MieLens / AberratedMieLens share ONE default
`calculator_accuracy_kwargs={}` dictionary between all instances built with
the default.  Changing the accuracy settings of one theory object changes the
holograms of every other default-constructed MieLens, including objects made
afterwards: the result no longer depends only on the arguments."""
import sys, os; sys.path.insert(0, os.getcwd())
import warnings; warnings.filterwarnings('ignore')
import numpy as np
import holopy as hp
from holopy.scattering import calc_holo, Sphere
from holopy.scattering.theory import MieLens, AberratedMieLens
print(hp.__file__)
det = hp.detector_grid((4, 4), 0.3)
sc = Sphere(n=1.59, r=0.6, center=(0.4, 0.5, 3))
explicit = {'interpolate_integrals': False}   # (sandbox numpy has no ndarray.ptp)
good = calc_holo(det, sc, 1.33, 0.66, (1, 0),
                 theory=MieLens(calculator_accuracy_kwargs=dict(explicit)))

a = MieLens()
b = MieLens()
print('a and b share the dictionary:',
      a.calculator_accuracy_kwargs is b.calculator_accuracy_kwargs)
# the user coarsens ONE theory object (e.g. for a quick preview)
a.calculator_accuracy_kwargs['interpolate_integrals'] = False
a.calculator_accuracy_kwargs['quad_npts'] = 6
c = MieLens()            # built afterwards, with the documented defaults
ab = AberratedMieLens(spherical_aberration=0.0)
print('settings of an untouched / a new default theory:',
      b.calculator_accuracy_kwargs, c.calculator_accuracy_kwargs,
      ab.calculator_accuracy_kwargs)
h_c = calc_holo(det, sc, 1.33, 0.66, (1, 0), theory=c)
diff = float(np.abs(h_c - good).max())
print('max |hologram(new default MieLens()) - hologram(accurate)| =', diff)
shared = a.calculator_accuracy_kwargs is c.calculator_accuracy_kwargs
sys.exit(1 if (shared and diff > 1e-6) else 0)
