"""C01 / finding 2: calc_holo / calc_field / calc_intensity drop every
coordinate of a grid detector that is not one of the x, y, z index
coordinates: the `time` of a frame taken from a time series, the
`illumination` label of one plane of a colour stack, auxiliary per-row
coordinates.  (The sibling repair 6229546 keeps such coordinates for point
detectors only.)"""
import sys, os; sys.path.insert(0, os.getcwd())
import warnings; warnings.filterwarnings('ignore')
import numpy as np
import holopy as hp
from holopy.scattering import calc_holo, calc_field, calc_intensity, Sphere
print(hp.__file__)
sc = Sphere(n=1.59, r=0.5, center=(0.3, 0.2, 5))
series = hp.detector_grid((3, 4), 0.1, extra_dims={'time': [0.0, 0.1, 0.2]})
frame = series.isel(time=1)                         # scalar coordinate time=0.1
frame = frame.assign_coords(row=('x', [10, 11, 12]))  # auxiliary coordinate
print('detector coordinates:', list(frame.coords))
bad = 0
for fn in (calc_holo, calc_field, calc_intensity):
    res = fn(frame, sc, 1.33, 0.66, (1, 0))
    lost = [c for c in frame.coords if c not in res.coords]
    print(fn.__name__, 'result coordinates:', list(res.coords), 'lost:', lost)
    bad += bool(lost)
sys.exit(1 if bad else 0)
