"""C01 / finding 1: a detector (or optics) with ONE illumination channel is
sent down the single-colour path with 1-element labelled optics and crashes
with an unrelated xarray error; with two channels the same call works."""
import sys, os; sys.path.insert(0, os.getcwd())
import warnings; warnings.filterwarnings('ignore')
import numpy as np, xarray as xr
import holopy as hp
from holopy.scattering import calc_holo, Sphere
print(hp.__file__)
sc = Sphere(n=1.59, r=0.5, center=(0.3, 0.2, 5))
ref = calc_holo(hp.detector_grid((3, 4), 0.1), sc, 1.33, 0.66, (0, 1))
bad = 0

# (a) a colour image that happens to have one channel
det1 = hp.detector_grid((3, 4), 0.1, extra_dims={'illumination': ['red']})
try:
    h = calc_holo(det1, sc, 1.33, {'red': 0.66}, {'red': (0, 1)})
    ok = np.allclose(h.values.squeeze(), ref.values.squeeze())
    print('(a) one-channel detector: result', h.dims, 'equal to grey calc:', ok)
    bad += not ok
except Exception as e:
    print('(a) one-channel detector: EXCEPTION', repr(e)[:150]); bad += 1

# (b) the same optics with two channels work
det2 = hp.detector_grid((3, 4), 0.1, extra_dims={'illumination': ['red', 'green']})
h2 = calc_holo(det2, sc, 1.33, {'red': 0.66, 'green': 0.52},
               {'red': (0, 1), 'green': (1, 0)})
print('(b) two-channel detector: fine', h2.dims)

# (c) the wavelength of one channel taken from the metadata of a colour
# hologram (a 0-d DataArray that carries its channel label)
wl_red = h2.illum_wavelen.sel(illumination='red')
try:
    h = calc_holo(hp.detector_grid((3, 4), 0.1), sc, 1.33, wl_red, (0, 1))
    ok = np.allclose(h.values.squeeze(), ref.values.squeeze())
    print('(c) labelled 0-d wavelength: equal to grey calc:', ok); bad += not ok
except Exception as e:
    print('(c) labelled 0-d wavelength: EXCEPTION', repr(e)[:150]); bad += 1

# (d) one channel selected from a colour hologram with isel([0])
one = h2.isel(illumination=[0])
one.attrs['illum_wavelen'] = one.attrs['illum_wavelen'].isel(illumination=[0])
one.attrs['illum_polarization'] = one.attrs['illum_polarization'].isel(illumination=[0])
try:
    h = calc_holo(one, sc)
    ok = np.allclose(h.values.squeeze(), ref.values.squeeze())
    print('(d) isel([0]) of colour hologram: equal:', ok); bad += not ok
except Exception as e:
    print('(d) isel([0]) of colour hologram: EXCEPTION', repr(e)[:150]); bad += 1
sys.exit(1 if bad else 0)
