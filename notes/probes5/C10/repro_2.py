"""C10 repro 2: the size guard in Tmatrix._parse_args (0 < r < inf) admits sizes that the
compiled code turns into silently wrong finite values, a Fortran STOP or a segmentation fault.
 (a) Sphere r = 1e-30 / 1e-20 / 1e-16: Tmatrix returns O(0.1) fields, or exactly 0, where the
     Lorenz-Mie value is ~r**3 (sphere-limit clause; single-precision T-matrix store underflows
     and the NMAX convergence loop accepts garbage);
 (b) r = 1e-80 (positive, finite): interpreter ends (STOP);
 (c) r = 1e9: size parameter > 2**31 overflows the INTEGER IXXX, the NPN1 guard is passed with
     NMAX = 4 and RJB writes far beyond Z(800): segmentation fault.
Run from the checkout root; exit 1 = violation present."""
import sys, os; sys.path.insert(0, os.getcwd())
import subprocess, textwrap

CHILD = textwrap.dedent('''
    import sys, os; sys.path.insert(0, os.getcwd())
    import warnings; warnings.simplefilter('ignore')
    import numpy as np, holopy as hp
    from holopy.scattering import Sphere, Tmatrix, Mie
    from holopy.scattering.theory.scatteringtheory import ScatteringTheory
    r = float(sys.argv[1])
    k = 2*np.pi*1.33/0.66
    theta = np.linspace(0, 1, 5); pos = np.array([np.full(5, 100.), theta, np.zeros(5)])  # azimuth 0
    s = Sphere(n=1.59, r=r, center=(0, 0, 0))
    try:
        st = Tmatrix().raw_scat_matrs(s, pos, k, 1.33)
        sm = np.array(Mie().raw_scat_matrs(s, pos, k, 1.33))
        print('RETURNED %r %r' % (float(np.abs(st).max()), float(np.abs(sm).max())))
    except Exception as e:
        print('RAISED', type(e).__name__, e)
''')
bad = 0
for r in ['1e-3', '1e-12', '1e-16', '1e-20', '1e-30', '1e-80', '1e9']:
    p = subprocess.run([sys.executable, '-c', CHILD, r], capture_output=True, text=True)
    out = p.stdout.strip()
    if out.startswith('RETURNED'):
        t, m = [float(v) for v in out.split()[1:]]
        ok = abs(t - m) <= 1e-3*m + 1e-30   # an underflow to exactly 0 is harmless
        print('r = %-6s  max|S| Tmatrix = %.4g   Mie = %.4g   %s' % (r, t, m, 'ok' if ok else '<-- WRONG (azimuth 0, sphere)'))
        bad += (not ok)
    elif out.startswith('RAISED'):
        print('r = %-6s  %s' % (r, out))
    else:
        print('r = %-6s  child interpreter ended: returncode %d (negative = signal), no output' % (r, p.returncode))
        bad += 1
print('VIOLATION in %d cases' % bad if bad else 'no violation')
sys.exit(1 if bad else 0)
