"""C10 repro 3 (minor, error reporting in anchored errors.py and its callers):
 (a) TheoryNotCompatibleError ignores its `reason` argument and repeats the message instead
     (errors.py: `message += " because: " + message`);
 (b) Spheroid.__init__ builds InvalidScatterer with swapped arguments, so a badly shaped `r`
     raises an unrelated TypeError instead of InvalidScatterer.
Run from the checkout root; exit 1 = slip present."""
import sys, os; sys.path.insert(0, os.getcwd())
from holopy.scattering import Spheroid, Sphere, Tmatrix
from holopy.scattering.errors import TheoryNotCompatibleError, InvalidScatterer
bad = 0
msg = str(TheoryNotCompatibleError(Tmatrix(), Sphere(n=[1.5, 1.4], r=[0.2, 0.3]), "layered spheres are not supported"))
print('(a)', msg)
if 'layered spheres are not supported' not in msg:
    print('    -> the reason is lost'); bad += 1
try:
    Spheroid(n=1.5, r=0.5, center=(0, 0, 1))
    print('(b) accepted')
except InvalidScatterer as e:
    print('(b) InvalidScatterer:', e)
except TypeError as e:
    print('(b) TypeError instead of InvalidScatterer:', e); bad += 1
sys.exit(1 if bad else 0)
