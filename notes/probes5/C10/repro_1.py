"""C10 repro 1: an index-matched particle (n == medium index) handed to Tmatrix
ends the interpreter (Fortran STOP after a 0/0 in the convergence test) instead of
returning a zero field (as Mie does) or raising a Python exception.
Run from the checkout root:  python repro_1.py      exit 1 = violation present."""
import sys, os; sys.path.insert(0, os.getcwd())
import subprocess, textwrap

CHILD = textwrap.dedent('''
    import sys, os; sys.path.insert(0, os.getcwd())
    import warnings; warnings.simplefilter('ignore')
    import numpy as np, holopy as hp
    from holopy.scattering import Sphere, Spheroid, Cylinder, Tmatrix, Mie, calc_field
    det = hp.detector_grid(shape=(4, 4), spacing=1.0)
    kw = dict(medium_index=1.33, illum_wavelen=0.66, illum_polarization=(1, 0))
    which = sys.argv[1]
    sc = {'sphere': Sphere(n=1.33, r=0.5, center=(2, 2, 8)),
          'spheroid': Spheroid(n=1.33, r=(0.4, 0.6), center=(2, 2, 8), rotation=(0, 0.5, 1.0)),
          'cylinder': Cylinder(n=1.33, d=0.5, h=0.7, center=(2, 2, 8), rotation=(0, 0.5, 1.0)),
          'mie': Sphere(n=1.33, r=0.5, center=(2, 2, 8))}[which]
    theory = Mie() if which == 'mie' else Tmatrix()
    try:
        f = calc_field(det, sc, theory=theory, **kw)
        print('RETURNED max|E| = %g finite=%s' % (np.abs(f.values).max(), np.isfinite(f.values).all()))
    except Exception as e:
        print('RAISED', type(e).__name__, e)
''')

bad = 0
for which in ['mie', 'sphere', 'spheroid', 'cylinder']:
    p = subprocess.run([sys.executable, '-c', CHILD, which], capture_output=True, text=True)
    out = p.stdout.strip()
    theory = 'Mie    ' if which == 'mie' else 'Tmatrix'
    if out.startswith('RETURNED') or out.startswith('RAISED'):
        print('%s %-8s n = medium index: %s' % (theory, which, out))
    else:
        print('%s %-8s n = medium index: child interpreter ended without returning or '
              'raising (returncode %d, stdout %r, stderr %r)' % (theory, which, p.returncode, out, p.stderr.strip()[-80:]))
        bad += 1
print('VIOLATION: %d index-matched T-matrix calls terminated the interpreter' % bad if bad else 'no violation')
sys.exit(1 if bad else 0)
