"""C10 repro 4 (additional SYMPTOM of the already-known transposed / lab-frame amplitude matrix in
Tmatrix.raw_fields, shown on a non-spherical particle and AT azimuth 0 / forward direction):
a small prolate spheroid lying in the x-y plane at +45 deg, x-polarised light.  Its induced dipole is
p = a_perp*E + (a_par - a_perp)(E.u)u, so the forward-scattered field has Ey/Ex = +(a_par-a_perp)/(a_par+a_perp)
(= +0.065 for aspect 3, m = 1.59/1.33).  The compiled code agrees (s21/s11 = +0.065) but holopy returns -0.065,
because raw_fields takes E_phi from -s12 (transposed matrix times `postfactor`) instead of s21.
Run from the checkout root; exit 1 = symptom present."""
import sys, os; sys.path.insert(0, os.getcwd())
import warnings; warnings.simplefilter('ignore')
import numpy as np, holopy as hp
from holopy.scattering import Spheroid, Tmatrix, calc_field
from holopy.scattering.theory.tmatrix_f.S import ampld
m2 = (1.59/1.33)**2
e = np.sqrt(1 - 1/9.); Lz = (1 - e*e)/e**2*(np.log((1 + e)/(1 - e))/(2*e) - 1); Lx = (1 - Lz)/2
apar = (m2 - 1)/(1 + Lz*(m2 - 1)); aperp = (m2 - 1)/(1 + Lx*(m2 - 1))
expected = (apar - aperp)/(apar + aperp)
det = hp.detector_grid(shape=(5, 5), spacing=1.0)
rod = Spheroid(n=1.59, r=(0.005, 0.015), center=(2, 2, 10), rotation=(0, np.pi/2, np.pi/4))
f = calc_field(det, rod, medium_index=1.33, illum_wavelen=0.66, illum_polarization=(1, 0), theory=Tmatrix())
f = f.transpose('x', 'y', 'z', 'vector').values[:, :, 0, :]
got = (f[2, 2, 1]/f[2, 2, 0]).real                      # pixel straight below the particle
s11, s12, s21, s22 = ampld((0.005**2*0.015)**(1/3.), 1, 0.66/1.33, 1.59/1.33, 0., 1/3., -1, 5, 45., 90., 0.,
                           np.array([0.]), 0., np.array([0.]), 1)
print('Rayleigh dipole  Ey/Ex (forward) = %+.4f' % expected)
print('compiled code    s21/s11         = %+.4f   (-s12/s11 = %+.4f)' % ((s21/s11).real[0], (-s12/s11).real[0]))
print('holopy calc_field Ey/Ex          = %+.4f' % got)
bad = abs(got - expected) > 0.01
print('SYMPTOM PRESENT: cross-polarised component has the wrong sign' if bad else 'ok')
sys.exit(1 if bad else 0)
