"""C15 (minor; sibling of the known shared `constraints=[]` of Model):
MieLens / AberratedMieLens keep the constructor's mutable default
`calculator_accuracy_kwargs={}` itself (scattering/theory/mielens.py:48,66 and
149-150).  Setting one accuracy option on one default-constructed theory
changes every other default-constructed MieLens, past and future, and a
theory built with no arguments at all is then saved with that option.
"""
import sys, os; sys.path.insert(0, os.getcwd())
import io
import numpy as np
np.NaN = np.nan
import holopy as hp
from holopy.scattering import MieLens

def dumps(o):
    f = io.BytesIO(); hp.save(f, o); return f.getvalue()

clean = dumps(MieLens())
first = MieLens()
first.calculator_accuracy_kwargs['quad_npts'] = 20      # meant for this object only
other = MieLens()                                        # built with no arguments
text = dumps(other)
print('MieLens() saved before:', clean)
print('MieLens() saved after another instance was configured:', text)
print('reloaded:', hp.load(io.BytesIO(text)))
bad = text != clean
print('VIOLATION' if bad else 'ok')
sys.exit(1 if bad else 0)
