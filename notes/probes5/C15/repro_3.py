"""C15: a TemperedStrategy built with a seed does not survive save -> load:
the constructor itself advances self.seed once per stage
(inference/emcee.py add_stage_strategy: `self.seed += 1`), the advanced value
is what _iteritems writes, so every save/load cycle shifts the seed of the
strategy and of all its stage strategies by stages + 1, and saving the
reloaded object does not reproduce the text.
(Different from the known loss of stages/stage_len/nsamples/npixels: here the
argument IS written, but with a value the constructor has altered.)
"""
import sys, os; sys.path.insert(0, os.getcwd())
import io
import numpy as np
np.NaN = np.nan
import holopy as hp
from holopy.inference import TemperedStrategy

def dumps(o):
    f = io.BytesIO(); hp.save(f, o); return f.getvalue()

original = TemperedStrategy(seed=5)
print('constructed with seed=5 -> .seed = %r, stage seeds = %r'
      % (original.seed, [s.seed for s in original.stage_strategies]))
text0 = dumps(original)
print(text0)
cur, text = original, text0
bad = False
for cycle in range(1, 4):
    cur = hp.load(io.BytesIO(text))
    newtext = dumps(cur)
    print('cycle %d: .seed = %r, stage seeds = %r, text identical: %s'
          % (cycle, cur.seed, [s.seed for s in cur.stage_strategies], newtext == text))
    if newtext != text or [s.seed for s in cur.stage_strategies] != [s.seed for s in original.stage_strategies]:
        bad = True
    text = newtext
print('VIOLATION' if bad else 'ok')
sys.exit(1 if bad else 0)
