"""C15 (save/load of an object modified after construction x an option that is
ignored): LeastSquaresScipyStrategy copies ftol/xtol/gtol/max_nfev into a
private dict at construction (inference/scipyfit.py:25-33) and `minimize`
reads only that dict.  Setting `strategy.max_nfev` / `strategy.ftol` afterwards
changes what repr() and the saved text show, but not what the fit does; the
object read back from that text is built from the shown values, so the
"same" object fits differently after save -> load.  (npixels of the same
class, and every option of the sibling NmpfitStrategy, are read at fit time.)
"""
import sys, os; sys.path.insert(0, os.getcwd())
import io, warnings
import numpy as np
np.NaN = np.nan
import holopy as hp
from holopy.core import prior
from holopy.core.metadata import detector_grid
from holopy.scattering import Sphere, Mie, calc_holo
from holopy.inference import AlphaModel, LeastSquaresScipyStrategy
warnings.simplefilter('ignore')

det = detector_grid((10, 10), 0.1)
holo = calc_holo(det, Sphere(n=1.59, r=0.5, center=(0.5, 0.5, 5)), medium_index=1.33,
                 illum_wavelen=0.66, illum_polarization=(1, 0))
holo.attrs['noise_sd'] = 0.1
model = AlphaModel(Sphere(n=1.59, r=prior.Uniform(0.3, 0.7, guess=0.45),
                          center=(0.5, 0.5, prior.Uniform(4, 6, guess=5.3))),
                   alpha=1.0, theory=Mie())

strategy = LeastSquaresScipyStrategy()
strategy.max_nfev = 3          # options set on the object after construction
strategy.ftol = 1e-2

stream = io.BytesIO()
hp.save(stream, strategy)
print('saved text:', stream.getvalue())
stream.seek(0)
reloaded = hp.load(stream)
print('library equality original == reloaded:', reloaded == strategy)
print('options used by the original :', strategy._optimizer_kwargs)
print('options used by the reloaded :', reloaded._optimizer_kwargs)

r1 = strategy.fit(model, holo)
r2 = reloaded.fit(model, holo)
print('original  : nfev = %d, best fit = %s' % (r1.minimizer_info.nfev, r1.parameters))
print('reloaded  : nfev = %d, best fit = %s' % (r2.minimizer_info.nfev, r2.parameters))
bad = (reloaded == strategy) and (r1.minimizer_info.nfev != r2.minimizer_info.nfev
                                  or r1.parameters != r2.parameters)
print('VIOLATION: equal objects, same text, different fits (max_nfev/ftol ignored by the original)'
      if bad else 'ok')
sys.exit(1 if bad else 0)
