"""C15 / objects sharing state: SamplingResult.burn_in makes a shallow copy
(inference/result.py burn_in: `burned_in = copy(self)`), so the copy shares
the list `_kwargs_keys` (the names of the attributes that _save writes) with
the original and inherits its cached `_hologram` / `_max_lnprob`.

(a) Asking the burned-in copy for .max_lnprob (or .hologram) appends
    '_max_lnprob' to the SHARED list; the original result then cannot be
    saved any more: hp.save raises AttributeError for an attribute the
    original never had.
(b) A value cached on the original before burn_in is returned by the copy,
    although the copy's best-fit parameters are different.

No sampler is needed: the SamplingResult is built from arrays drawn from the
model's priors (emcee is not installed in the sandbox).
"""
import sys, os; sys.path.insert(0, os.getcwd())
import tempfile, warnings
import numpy as np
np.NaN = np.nan
import xarray as xr
import holopy as hp
from holopy.core import prior
from holopy.core.metadata import detector_grid
from holopy.scattering import Sphere, Mie, calc_holo
from holopy.inference import AlphaModel, EmceeStrategy, SamplingResult
warnings.simplefilter('ignore')
np.random.seed(3)

det = detector_grid((6, 6), 0.1)
holo = calc_holo(det, Sphere(n=1.59, r=0.5, center=(0.3, 0.3, 5)), medium_index=1.33,
                 illum_wavelen=0.66, illum_polarization=(1, 0))
holo.attrs['noise_sd'] = 0.1
model = AlphaModel(Sphere(n=1.59, r=prior.Uniform(0.4, 0.6), center=(0.3, 0.3, prior.Uniform(4, 6))),
                   alpha=1., theory=Mie())
names = model._parameter_names
nwalkers, nchain = 4, 6

def make_result():
    pos = model.generate_guess(nwalkers * nchain).reshape(nwalkers, nchain, len(names))
    samples = xr.DataArray(pos, dims=['walker', 'chain', 'parameter'], coords={'parameter': names})
    lnprobs = xr.DataArray(np.array([[model.lnposterior(list(p), holo) for p in w] for w in pos]),
                           dims=['walker', 'chain'])
    # the best sample sits in the part of the chain that burn-in removes
    lnprobs.values[0, 0] = lnprobs.values.max() + 1
    return SamplingResult(holo, model, EmceeStrategy(nwalkers=nwalkers, nsamples=nchain, parallel=None),
                          1.0, {'samples': samples, 'lnprobs': lnprobs})

bad = False
# (a)
original = make_result()
burned = original.burn_in(2)
print('(a) _kwargs_keys is one list shared by both objects:', original._kwargs_keys is burned._kwargs_keys)
burned.max_lnprob
print('    original._kwargs_keys after burned.max_lnprob:', original._kwargs_keys)
try:
    hp.save(os.path.join(tempfile.mkdtemp(), 'original.h5'), original)
    print('    original saved')
except AttributeError as e:
    print('    hp.save(original) FAILS:', repr(e))
    bad = True
# (b)
original = make_result()
cached = original.max_lnprob
burned = original.burn_in(2)
true_value = burned.model.lnposterior(burned._parameters, burned.data)
print('(b) best fit of original :', original.parameters)
print('    best fit of burned-in:', burned.parameters)
print('    burned.max_lnprob = %r (cached on the original: %r); recomputed for its own best fit: %r'
      % (burned.max_lnprob, cached, true_value))
if burned.parameters != original.parameters and burned.max_lnprob != true_value:
    bad = True
print('VIOLATION' if bad else 'ok')
sys.exit(1 if bad else 0)
