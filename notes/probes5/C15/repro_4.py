"""C15 / state carried between calls: EmceeStrategy.sample stores the walker
positions it generated for the FIRST model on the strategy object itself
(inference/emcee.py:68-70, `self.walker_initial_pos = model.generate_guess(...)`).
The strategy the caller holds is thereby changed (its saved text grows a
walker_initial_pos block), and a second `sample` with the same strategy and a
different model starts every walker from the first model's guesses instead of
its own priors.

emcee is not installed in the sandbox, so a minimal stand-in EnsembleSampler is
put on sys.path (the library is not touched; the defect is in HoloPy's
strategy object, before the sampler is even called).
"""
import sys, os; sys.path.insert(0, os.getcwd())
import io, tempfile, warnings
stubdir = tempfile.mkdtemp()
with open(os.path.join(stubdir, 'emcee.py'), 'w') as f:
    f.write('"""Minimal stand-in for the emcee package (not installed in the sandbox):\nEnsembleSampler with the few members holopy.inference.emcee uses.  The \'chain\'\nis the initial position advanced by a small deterministic Metropolis step."""\nimport numpy as np\nclass EnsembleSampler:\n    def __init__(self, nwalkers, ndim, log_prob_fn, pool=None):\n        self.nwalkers, self.ndim, self.fn, self.pool = nwalkers, ndim, log_prob_fn, pool\n        self.random_state = None\n    def run_mcmc(self, initial_state, nsteps):\n        pos = np.array(initial_state, dtype=float)\n        assert pos.shape == (self.nwalkers, self.ndim), pos.shape\n        self.initial_state = pos.copy()\n        rng = np.random.RandomState(0)\n        lp = np.array([self.fn(p) for p in pos])\n        chain, lps, acc = [], [], 0\n        for i in range(nsteps):\n            new = pos + 1e-3 * rng.standard_normal(pos.shape)\n            newlp = np.array([self.fn(p) for p in new])\n            take = newlp >= lp\n            pos[take] = new[take]; lp[take] = newlp[take]; acc += take.mean()\n            chain.append(pos.copy()); lps.append(lp.copy())\n        self._chain = np.array(chain); self._lp = np.array(lps)\n        self.acceptance_fraction = np.full(self.nwalkers, acc / max(nsteps, 1))\n    def get_chain(self):\n        return self._chain.transpose(1, 0, 2)      # (walker, step, dim) as holopy labels it\n    def get_log_prob(self):\n        return self._lp.T\n')
sys.path.insert(1, stubdir)
import numpy as np
np.NaN = np.nan
import holopy as hp
from holopy.core import prior
from holopy.core.metadata import detector_grid
from holopy.scattering import Sphere, Mie, calc_holo
from holopy.inference import AlphaModel, EmceeStrategy
warnings.simplefilter('ignore')

def dumps(o):
    f = io.BytesIO(); hp.save(f, o); return f.getvalue()

det = detector_grid((6, 6), 0.1)
holo = calc_holo(det, Sphere(n=1.59, r=0.5, center=(0.3, 0.3, 5)), medium_index=1.33,
                 illum_wavelen=0.66, illum_polarization=(1, 0))
holo.attrs['noise_sd'] = 0.1
model_a = AlphaModel(Sphere(n=1.59, r=prior.Uniform(0.4, 0.6), center=(0.3, 0.3, prior.Uniform(4, 6))),
                     alpha=1., theory=Mie())
model_b = AlphaModel(Sphere(n=1.59, r=prior.Uniform(0.9, 1.1), center=(0.3, 0.3, prior.Uniform(9, 11))),
                     alpha=1., theory=Mie())

strategy = EmceeStrategy(nwalkers=6, nsamples=3, parallel=None, seed=1)
before = dumps(strategy)
strategy.sample(model_a, holo)
after = dumps(strategy)
print('strategy text before sampling:', before)
print('strategy text after  sampling:', after[:160], b'...')
reused = strategy.sample(model_b, holo)
fresh = EmceeStrategy(nwalkers=6, nsamples=3, parallel=None, seed=1).sample(model_b, holo)
lo, hi = reused.samples.min(['walker', 'chain']).values, reused.samples.max(['walker', 'chain']).values
flo, fhi = fresh.samples.min(['walker', 'chain']).values, fresh.samples.max(['walker', 'chain']).values
print('model B priors: r in [0.9, 1.1], z in [9, 11]')
print('samples of B, strategy reused after A : r in [%.3f, %.3f], z in [%.3f, %.3f]' % (lo[0], hi[0], lo[1], hi[1]))
print('samples of B, fresh strategy          : r in [%.3f, %.3f], z in [%.3f, %.3f]' % (flo[0], fhi[0], flo[1], fhi[1]))
bad = before != after or hi[0] < 0.9 or hi[1] < 9
print('VIOLATION' if bad else 'ok')
sys.exit(1 if bad else 0)
