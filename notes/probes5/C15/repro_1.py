"""C15: a TemperedSamplingResult written with hp.save and read back with hp.load
has lost its last stage result (constructor argument `stage_results` shrinks
from N to N-1), although every stage was written to the file.

The result object is assembled exactly the way TemperedStrategy.sample does
(inference/emcee.py:113-123: one SamplingResult per entry of
strategy.stage_strategies, end_result = the last one); emcee itself is not
needed (and is not installed in the sandbox).
"""
import sys, os; sys.path.insert(0, os.getcwd())
import tempfile, warnings
import numpy as np
np.NaN = np.nan
import xarray as xr
import holopy as hp
from holopy.core import prior
from holopy.core.metadata import detector_grid
from holopy.scattering import Sphere, Mie, calc_holo
from holopy.inference import AlphaModel, TemperedStrategy, SamplingResult, TemperedSamplingResult
warnings.simplefilter('ignore')
np.random.seed(0)

det = detector_grid((6, 6), 0.1)
holo = calc_holo(det, Sphere(n=1.59, r=0.5, center=(0.3, 0.3, 5)), medium_index=1.33,
                 illum_wavelen=0.66, illum_polarization=(1, 0))
holo.attrs['noise_sd'] = 0.1
model = AlphaModel(Sphere(n=1.59, r=prior.Uniform(0.3, 0.6), center=(0.3, 0.3, prior.Uniform(4, 6))),
                   alpha=prior.Uniform(0.5, 1.0), theory=Mie())
names = model._parameter_names

def stage_result(strategy, nwalkers=4, nchain=5):
    samples = xr.DataArray(np.random.rand(nwalkers, nchain, len(names)),
                           dims=['walker', 'chain', 'parameter'], coords={'parameter': names},
                           attrs={'acceptance_fraction': 0.3})
    lnprobs = xr.DataArray(np.random.rand(nwalkers, nchain), dims=['walker', 'chain'],
                           attrs={'acceptance_fraction': 0.3})
    return SamplingResult(holo, model, strategy, 1.0, {'samples': samples, 'lnprobs': lnprobs})

strategy = TemperedStrategy(nwalkers=4, nsamples=5, npixels=20, stage_len=5)   # default stages=3
# as TemperedStrategy.sample: one result per stage strategy, the last one is the end result
stage_results = [stage_result(st) for st in strategy.stage_strategies]
original = TemperedSamplingResult(stage_results[-1], stage_results, strategy, 2.0)

path = os.path.join(tempfile.mkdtemp(), 'tempered.h5')
hp.save(path, original)
import h5py
with h5py.File(path, 'r') as f:
    groups = sorted(k for k in f.keys() if k.startswith('stage_results'))
reloaded = hp.load(path)

print('stage strategies          :', len(strategy.stage_strategies))
print('stage_results, original   :', len(original.stage_results))
print('groups written to the file:', groups)
print('stage_results, reloaded   :', len(reloaded.stage_results))
last_kept = reloaded.stage_results[-1].samples.values
print('last reloaded stage is original stage #',
      [i for i, r in enumerate(original.stage_results) if np.array_equal(r.samples.values, last_kept)])
bad = len(reloaded.stage_results) != len(original.stage_results)
print('VIOLATION' if bad else 'ok')
sys.exit(1 if bad else 0)
