"""C03 probe, finding 1 (low severity / input validation).

A layered Sphere whose layer radii are not ascending (e.g. the user lists the
layers outermost-first) is accepted silently by Sphere.__init__ and by
Mie._scat_coeffs / scatcoeffs_multi, and calc_cross_sections returns numbers
that violate energy conservation (C_abs < 0 for Im(n) >= 0) instead of raising.
scatcoeffs_multi mixes xarray.max() (for nstop and psi/xi) with xarray[-1]
(for n/x in the boundary condition), i.e. it half-assumes ascending radii but
never checks.  LayeredSphere (thicknesses) does check for negative thickness.
"""
import sys, os; sys.path.insert(0, os.getcwd())
import warnings
import numpy as np
import holopy
from holopy.scattering import Sphere, calc_cross_sections

print('holopy from', holopy.__file__)
nm, lam = 1.33, 0.66
good = Sphere(n=[1.59 + 0.01j, 1.45], r=[0.3, 0.5])      # core first
bad = Sphere(n=[1.45, 1.59 + 0.01j], r=[0.5, 0.3])       # shell first
violated = False
with warnings.catch_warnings():
    warnings.simplefilter('ignore')
    cs_good = calc_cross_sections(good, nm, lam, (1, 0)).values
    try:
        cs_bad = calc_cross_sections(bad, nm, lam, (1, 0)).values
    except Exception as e:   # a validation error would be the repaired behaviour
        print('descending radii rejected:', type(e).__name__, e)
        sys.exit(0)
print('ascending radii  [sca, abs, ext, g] =', cs_good)
print('descending radii [sca, abs, ext, g] =', cs_bad)
if cs_bad[1] < -1e-6 * abs(cs_bad[2]) or not np.allclose(cs_bad, cs_good, rtol=1e-6):
    print('VIOLATION: descending layer radii accepted silently; '
          'C_abs/C_ext = %.3g (negative absorption for Im(n) >= 0)'
          % (cs_bad[1] / cs_bad[2]))
    violated = True
sys.exit(1 if violated else 0)
