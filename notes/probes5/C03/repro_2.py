"""C03 probe, observation 2 (NEW MANIFESTATION of the KNOWN S3/S4-sign defect of
Multisphere._asm_far -- not a new root cause).

The known list mentions C_ext / asymmetry under OBLIQUE polarisation.  The same
sign error also breaks the clause "scattering and asymmetry equal the
solid-angle integrals of the squared scattering amplitude" for AXIS-ALIGNED
polarisation (1,0) and (0,1) as soon as the cluster is not on the z axis:
the integral of |S.e_inc|^2 over the sphere, with S from the public
calc_scat_matrix, differs from the reported C_sca by several per cent, and the
reported asymmetry parameter (= quadrature of the wrong-signed matrix divided
by the coefficient-sum C_sca) is off in the third digit.  Flipping the sign of
the off-diagonal elements S3, S4 restores agreement to 1e-9.
"""
import sys, os; sys.path.insert(0, os.getcwd())
import warnings
import numpy as np
import holopy
from holopy.scattering import (Sphere, Spheres, calc_cross_sections,
                               calc_scat_matrix, Multisphere)
from holopy.core.metadata import detector_points

warnings.simplefilter('ignore')
print('holopy from', holopy.__file__)
nm, lam = 1.0, 1.0
k = 2 * np.pi * nm / lam
xs = np.array([0.83, 0.47, 0.21]); ns = [1.457, 1.851, 1.127]
cents = [(0, 0, 0), (0.15, 0.10, 0.12), (-0.10, 0.12, -0.09)]
sc = Spheres([Sphere(n=n, r=x / k, center=c) for n, x, c in zip(ns, xs, cents)])
th = Multisphere(eps=1e-12, qeps1=1e-10, qeps2=1e-12)

mu, w = np.polynomial.legendre.leggauss(24)
nphi = 48
phis = np.arange(nphi) * 2 * np.pi / nphi
T, P = np.meshgrid(np.arccos(mu), phis, indexing='ij')
W = np.repeat(w[:, None], nphi, 1) * 2 * np.pi / nphi
det = detector_points(theta=T.ravel(), phi=P.ravel())
S = calc_scat_matrix(det, sc, nm, lam, theory=th).values   # (N, 2, 2)

def quad(pol, flip):
    M = S.copy()
    if flip:
        M[:, 0, 1] *= -1; M[:, 1, 0] *= -1
    ph = P.ravel()
    # incident field in the (parallel, perpendicular) basis of each plane
    einc = np.stack([pol[0] * np.cos(ph) + pol[1] * np.sin(ph),
                     pol[0] * np.sin(ph) - pol[1] * np.cos(ph)], axis=1)
    a = (np.abs(np.einsum('nij,nj->ni', M, einc))**2).sum(1)
    csca = (W.ravel() * a).sum() / k**2
    g = (W.ravel() * a * np.cos(T.ravel())).sum() / k**2 / csca
    return csca, g

bad = False
for pol in [(1., 0.), (0., 1.)]:
    cs = calc_cross_sections(sc, nm, lam, pol, theory=th).values
    q, gq = quad(pol, False)
    qf, gf = quad(pol, True)
    print('pol', pol)
    print('  reported   C_sca = %.8g  C_ext = %.8g  g = %.6f' % (cs[0], cs[2], cs[3]))
    print('  quadrature of calc_scat_matrix : C_sca = %.8g  g = %.6f' % (q, gq))
    print('  same with S3, S4 sign flipped   : C_sca = %.8g  g = %.6f' % (qf, gf))
    if abs(q / cs[0] - 1) > 1e-3 or abs(gq - cs[3]) > 1e-3:
        bad = True
if bad:
    print('VIOLATION: C_sca / <cos theta> are not the solid-angle integrals of '
          'the amplitude matrix returned by calc_scat_matrix (axis-aligned '
          'polarisation, real indices, C_abs ~ 0)')
sys.exit(1 if bad else 0)
