"""C07 repro 1: beyond k*r ~ 19830 the value the default Mie / Multisphere
theories return for a detector location is not a function of the location: it
is computed from spherical-Bessel work arrays that SBESJY never wrote (its
continued fraction gives up after LIMIT = 20000 terms and the callers ignore
IFAIL), i.e. from whatever the previous point of the list left on the stack.
The same far pixel gets a different value as part of different point lists /
grids / subsets.  Run from the checkout root."""
import sys, os
sys.path.insert(0, os.getcwd())
import warnings
import numpy as np
warnings.simplefilter('ignore')
from holopy.core.metadata import detector_points, detector_grid, flat, make_subset_data
from holopy.scattering import calc_field, calc_holo, Sphere, Spheres, Mie, Multisphere
from holopy.scattering.theory.mie_f import uts_scsmfo


class quiet_fortran:
    """the compiled code prints an advice for every point; keep it off screen"""
    def __enter__(self):
        sys.stdout.flush()
        self.saved = os.dup(1)
        null = os.open(os.devnull, os.O_WRONLY)
        os.dup2(null, 1)
        os.close(null)
    def __exit__(self, *a):
        os.dup2(self.saved, 1)
        os.close(self.saved)


opt = dict(medium_index=1.33, illum_wavelen=0.66, illum_polarization=(1, 0))
k = 2 * np.pi * 1.33 / 0.66
sphere = Sphere(n=1.58, r=0.5, center=(0., 0., 0.))
far = (3.0, 4.0, -2000.)       # 2 mm from a 1 um sphere: k r = 25300
near_a = (1.0, 1.0, -10.)
near_b = (5.0, -2.0, -30.)


def field_at_far(theory, scatterer, before):
    pts = list(before) + [far]
    det = detector_points(x=[p[0] for p in pts], y=[p[1] for p in pts],
                          z=[p[2] for p in pts])
    with quiet_fortran():
        out = calc_field(det, scatterer, theory=theory, **opt).values[-1]
    return out


bad = False
with quiet_fortran():
    ifail_ok = uts_scsmfo.sbesjy(19000., 8)[-1]
    ifail_far = uts_scsmfo.sbesjy(k * 2000., 8)[-1]
print("SBESJY ifail at kr=19000: %d, at kr=%.0f: %d" % (ifail_ok, k * 2000, ifail_far))

cluster = Spheres([Sphere(n=1.58, r=0.5, center=(0, 0, 0.6)),
                   Sphere(n=1.58, r=0.5, center=(0, 0, -0.6))])
for name, theory, scat in [('Mie()', Mie(), sphere),
                           ('Multisphere()', Multisphere(), cluster)]:
    a = field_at_far(theory, scat, [near_a])
    b = field_at_far(theory, scat, [near_b])
    print(name, "E_x at", far, "after point", near_a, ":", a[0])
    print(name, "E_x at", far, "after point", near_b, ":", b[0])
    if not np.allclose(a, b, rtol=1e-6, atol=0, equal_nan=True):
        print("  -> the same location, two different values")
        bad = True
ff = field_at_far(Mie(False, False), sphere, [near_a])
print("Mie(False, False) (far-field radial dependence) gives E_x =", ff[0])

# the same thing seen through a grid and a pixel subset of it: only the first
# pixel (straight below the sphere) is nearer than the limit
det = detector_grid((3, 3), 150.)
s2 = Sphere(n=1.58, r=0.5, center=(0., 0., 1560.))
with quiet_fortran():
    full = calc_field(det, s2, **opt)
    sub, sel = make_subset_data(det, pixels=4, seed=1, return_selection=True)
    # (an unrelated calculation in between: the stale work arrays even
    # survive from one call of calc_field to the next)
    calc_field(detector_points(x=[2.], y=[1.], z=[-7.]), sphere, **opt)
    part = calc_field(sub, s2, **opt)
ref = flat(full).isel(flat=sel).transpose('flat', 'vector').values
got = part.transpose('flat', 'vector').values
print("grid pixels", sel, "E_x taken from the full grid :", ref[:, 0])
print("the same pixels computed as a subset         :", got[:, 0])
if not np.allclose(ref, got, rtol=1e-6, atol=0, equal_nan=True):
    print("  -> selecting pixels does not commute with the calculation")
    bad = True

sys.exit(1 if bad else 0)
