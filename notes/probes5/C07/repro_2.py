"""C07 repro 2: a grid detector that carries r / theta / phi coordinates --
which is what calc_scat_matrix returns for a grid -- is read by the next
calculation as a list of *spherical* points about the new scatterer: its pixel
positions x, y, z and the new scatterer's centre are ignored, and the stale
angles (measured from the previous scatterer) are used instead.  The values
returned are labelled with the grid's x, y, z but belong to other locations.
Run from the checkout root."""
import sys, os
sys.path.insert(0, os.getcwd())
import warnings
import numpy as np
warnings.simplefilter('ignore')
from holopy.core.metadata import detector_grid
from holopy.scattering import calc_holo, calc_field, calc_scat_matrix, Sphere

det = detector_grid((5, 4), (0.1, 0.2))
opt = dict(medium_index=1.33, illum_wavelen=0.66, illum_polarization=(1, 0))
s1 = Sphere(n=1.58, r=0.5, center=(0.3, 0.4, 5.0))
s2 = Sphere(n=1.50, r=0.4, center=(-1.0, 2.0, 9.0))

bad = False
# any earlier result can serve as the detector of the next calculation ...
holo1 = calc_holo(det, s1, **opt)
ref = calc_holo(det, s2, **opt)
via_holo = calc_holo(holo1, s2, **opt)
print("detector = earlier hologram  : max |diff| =",
      float(np.abs(via_holo - ref).max()))

# ... except the result of calc_scat_matrix
matr1 = calc_scat_matrix(det, s1, medium_index=1.33, illum_wavelen=0.66)
print("calc_scat_matrix result: dims", matr1.dims, "coords", list(matr1.coords))
via_matr = calc_holo(matr1, s2, **opt)
same_grid = (np.array_equal(via_matr.x, det.x) and np.array_equal(via_matr.y, det.y))
d = float(np.abs(via_matr - ref).max())
print("detector = earlier scat. matrix: same x, y labels:", same_grid,
      " max |diff| =", d)
if d > 1e-9:
    bad = True
# the positions handed to the theory are the stale (r, theta, phi) of the
# matrix result, i.e. the pixel positions relative to s1, not to s2:
from holopy.scattering.imageformation import ImageFormation
from holopy.scattering.interface import prep_schema
from holopy.scattering.theory import Mie
k = 2 * np.pi * 1.33 / 0.66
former = ImageFormation(Mie())
got = former._transform_to_desired_coordinates(
    prep_schema(matr1, **opt), s2.center, wavevec=k).reshape(3, -1)
about_s1 = former._transform_to_desired_coordinates(
    prep_schema(det, **opt), s1.center, wavevec=k)
about_s2 = former._transform_to_desired_coordinates(
    prep_schema(det, **opt), s2.center, wavevec=k)
print("   positions used == pixel positions about s1:",
      bool(np.allclose(got, about_s1)), "; == about s2:",
      bool(np.allclose(got, about_s2)))
f_stale = calc_field(matr1, s2, **opt)
f_right = calc_field(det, s2, **opt)
print("   calc_field: |E| differs from the right one by up to",
      float(np.abs(np.abs(f_stale) - np.abs(f_right)).max()),
      "of", float(np.abs(f_right).max()))
# even for the scatterer the matrix was computed for the hologram is wrong on a
# grid: the (nx, ny, nz)-shaped angle arrays reach the compiled code unravelled
# in another order than the pixels
d_same = float(np.abs(calc_holo(matr1, s1, **opt) - holo1).max())
print("same scatterer, detector = its scat. matrix: max |diff| =", d_same)
if d_same > 1e-9:
    bad = True
sys.exit(1 if bad else 0)
