# CSG operand checks misbehave for a sphere whose index is held in a sequence:
#  (a) a two-layer sphere with n as a numpy array (what LayeredSphere always
#      stores) makes Sphere.num_domains raise a bare ValueError ("truth value of
#      an array ...") instead of the InvalidScatterer a list-valued n gives;
#  (b) a one-layer sphere written Sphere(n=[1.5], r=[.5]) is refused as having a
#      "different index" from Sphere(n=1.5): the test is `s1.n != s2.n`, and
#      [1.5] != 1.5 is True for a list.
import sys, os; sys.path.insert(0, os.getcwd())
import numpy as np
from holopy.scattering.scatterer import Sphere, LayeredSphere, Union
from holopy.scattering.errors import InvalidScatterer
a = Sphere(n=1.5, r=.5, center=(0, 0, 0))
bad = 0
for name, other in (('Sphere n=list', Sphere(n=[1.5, 1.6], r=[.3, .5], center=(1, 0, 0))),
                    ('Sphere n=array', Sphere(n=np.array([1.5, 1.6]), r=[.3, .5], center=(1, 0, 0))),
                    ('LayeredSphere', LayeredSphere(n=[1.5, 1.6], t=[.3, .2], center=(1, 0, 0)))):
    try:
        Union(a, other); print(name, 'accepted'); bad = 1
    except InvalidScatterer as e:
        print(name, '-> InvalidScatterer (as intended)')
    except ValueError as e:
        print(name, '-> ValueError:', e); bad = 1
for name, other in (('n=[1.5] list', Sphere(n=[1.5], r=[.5], center=(.5, 0, 0))),
                    ('n=array([1.5])', Sphere(n=np.array([1.5]), r=[.5], center=(.5, 0, 0)))):
    try:
        u = Union(a, other); print(name, 'accepted, contains:', u.contains([[.9, 0, 0]]))
    except InvalidScatterer as e:
        print(name, '-> refused:', str(e).splitlines()[-1]); bad = 1
sys.exit(bad)
