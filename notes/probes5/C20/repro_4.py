# Spheroid's malformed-size rejection passes InvalidScatterer's arguments in the
# wrong order (message, self) instead of (self, message), so the intended
# InvalidScatterer never materialises: building the message does
# str + Spheroid and a TypeError escapes instead.
import sys, os; sys.path.insert(0, os.getcwd())
from holopy.scattering.scatterer import Spheroid, Ellipsoid
from holopy.scattering.errors import InvalidScatterer
bad = 0
for r in (0.5, (0.5,), (0.5, 0.6, 0.7)):
    try:
        Spheroid(n=1.5, r=r, center=(0, 0, 0)); print(r, 'accepted'); bad = 1
    except InvalidScatterer as e:
        print(r, '-> InvalidScatterer (as intended)')
    except TypeError as e:
        print(r, '-> TypeError:', e); bad = 1
try:
    Ellipsoid(n=1.5, r=0.5, center=(0, 0, 0))
except InvalidScatterer:
    print('sibling Ellipsoid(r=0.5) -> InvalidScatterer')
sys.exit(bad)
