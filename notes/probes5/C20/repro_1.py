# Nested CSG (a set operation whose operand is itself a Union/Difference/
# Intersection) cannot be built: CsgScatterer.__init__ asks every operand for
# .num_domains, which CsgScatterer inherits from Scatterer as
# len(self.indicators.functions) -- but a CsgScatterer never has .indicators.
import sys, os; sys.path.insert(0, os.getcwd())
import numpy as np
from holopy.scattering.scatterer import Sphere, Union, Difference, Intersection
a = Sphere(n=1.5, r=.5, center=(0, 0, 0))
b = Sphere(n=1.5, r=.5, center=(.5, 0, 0))
c = Sphere(n=1.5, r=.3, center=(.25, 0, 0))
bad = 0
try:
    print('num_domains of a Union:', Union(a, b).num_domains)
except AttributeError as e:
    print('Union(a, b).num_domains ->', type(e).__name__, e); bad = 1
for op in (Union, Difference, Intersection):
    try:
        shape = op(Union(a, b), c)
        pts = np.array([[0., 0, 0], [.25, 0, 0], [.9, 0, 0], [3, 0, 0]])
        inner = np.linalg.norm(pts - c.center, axis=1) < .3
        outer = (np.linalg.norm(pts, axis=1) < .5) | (np.linalg.norm(pts - b.center, axis=1) < .5)
        expect = {Union: outer | inner, Difference: outer & ~inner, Intersection: outer & inner}[op]
        got = shape.contains(pts)
        print(op.__name__, 'of a Union and a sphere:', got, 'expected', expect)
        bad |= int((got != expect).any())
    except Exception as e:
        print(op.__name__, '(Union(a, b), c) ->', type(e).__name__, e); bad = 1
sys.exit(bad)
