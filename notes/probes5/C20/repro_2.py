# JanusSphere_Tapered's default rotation is the 2-tuple (0, 0), but its
# indicators unpack it into rotation_matrix(alpha, beta, gamma): a Janus sphere
# built with the default orientation cannot answer contains / in_domain /
# index_at / voxelate at all.  (JanusSphere_Uniform defaults to (0, 0, 0).)
import sys, os; sys.path.insert(0, os.getcwd())
import numpy as np
from holopy.scattering.scatterer import JanusSphere_Tapered, JanusSphere_Uniform
pts = np.array([[0., 0, 0], [0, 0, .55], [0, 0, -.55], [2, 0, 0]])
u = JanusSphere_Uniform(n=[1.5, 1.4], r=[.5, .6], center=(0, 0, 0))
print('uniform, default rotation :', u.rotation, u.in_domain(pts))
t = JanusSphere_Tapered(n=[1.5, 1.4], r=[.5, .6], center=(0, 0, 0))
print('tapered, default rotation :', t.rotation)
try:
    print(t.in_domain(pts))
    sys.exit(0)
except TypeError as e:
    print('tapered.in_domain ->', type(e).__name__, e)
    t3 = JanusSphere_Tapered(n=[1.5, 1.4], r=[.5, .6], rotation=(0, 0, 0), center=(0, 0, 0))
    print('with rotation=(0, 0, 0)   :', t3.in_domain(pts))
    sys.exit(1)
