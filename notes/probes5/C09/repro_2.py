# C09 / repro_2: a one-sphere cluster under the default theory has no cross
# sections (sibling of the known calc_scat_matrix(Spheres([s])) failure): the
# rule picks Mie for a one-sphere cluster, and Mie.raw_cross_sections refuses
# every Spheres object, although calc_holo / calc_field of the same object work
# and Multisphere gives the single-sphere numbers.
import sys, os; sys.path.insert(0, os.getcwd())
import warnings; warnings.filterwarnings('ignore')
import numpy as np
import holopy
from holopy.scattering import Sphere, Spheres, Multisphere, calc_cross_sections
print(holopy.__file__)
s = Sphere(n=1.59, r=0.5, center=(0, 0, 5))
single = calc_cross_sections(s, 1.33, 0.66, (1, 0)).values
print('single sphere            :', single)
print('Spheres([s]), Multisphere:',
      calc_cross_sections(Spheres([s]), 1.33, 0.66, (1, 0), theory=Multisphere()).values)
try:
    one = calc_cross_sections(Spheres([s]), 1.33, 0.66, (1, 0)).values
    print('Spheres([s]), default    :', one)
    bad = not np.allclose(one, single, rtol=1e-6)
except Exception as e:
    print('Spheres([s]), default    :', type(e).__name__, str(e).replace('\n', ' '))
    bad = True
print('VIOLATION' if bad else 'ok')
sys.exit(1 if bad else 0)
