# C09 / repro_1: the separation guard of Multisphere._scsmfo_setup is one-sided
# (`(centers > 1e4).any()` instead of `(np.abs(centers) > 1e4).any()`), so a
# cluster and its mirror image / 180-degree rotation about the optical axis are
# treated differently: one raises InvalidScatterer, the other silently returns
# numbers from an expansion clamped far below the order it needs.
import sys, os; sys.path.insert(0, os.getcwd())
import warnings; warnings.filterwarnings('ignore')
import numpy as np
import holopy
from holopy.scattering import Sphere, Spheres, Multisphere, calc_field
from holopy.scattering.errors import InvalidScatterer
from holopy.core.metadata import detector_points
print(holopy.__file__)
det = detector_points(x=np.array([0., 1., 2.]), y=np.array([1., 2., 3.]),
                      z=np.zeros(3))

def outcome(xs):
    cl = Spheres([Sphere(n=1.59, r=0.5, center=(x, 0, 20)) for x in xs])
    try:
        f = calc_field(det, cl, 1.33, 0.66, (1, 0), theory=Multisphere())
        return 'returned max|E| = %.3e' % np.abs(f.values).max()
    except InvalidScatterer as e:
        return 'InvalidScatterer: ' + str(e).split('\n')[-1]

a = outcome([0, -2, 2300])   # the lone sphere lies at +x of the centroid
b = outcome([0, 2, -2300])   # same cluster rotated by 180 deg about z
print('cluster            :', a)
print('rotated by 180 deg :', b)
bad = a.startswith('InvalidScatterer') != b.startswith('InvalidScatterer')
print('VIOLATION' if bad else 'ok')
sys.exit(1 if bad else 0)
