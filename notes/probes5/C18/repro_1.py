"""center_find / make_center_priors on a multi-channel hologram as returned by calc_holo.

calc_holo on a detector with an 'illumination' axis returns dims
('illumination', 'x', 'y', 'z').  center_find removes the extra axes of the
gradient arrays with `arr[:, :, 0]` (centerfinder.py lines 92-94), i.e. it
assumes that x and y are the first two axes left after np.squeeze.  With the
illumination axis first it votes on an (illumination, x) slab and silently
returns a meaningless centre; make_center_priors turns it into a wrong prior.
"""
import sys, os; sys.path.insert(0, os.getcwd())
import warnings; warnings.simplefilter('ignore')
import numpy as np
import holopy as hp
from holopy.scattering import Sphere, calc_holo
from holopy.core.process import center_find
from holopy.core.prior import make_center_priors

sp = 0.1
true_px = np.array([73., 41.])
sphere = Sphere(n=1.59, r=0.5, center=(true_px[0]*sp, true_px[1]*sp, 10))
det = hp.detector_grid((120, 100), sp, extra_dims={'illumination': ['red', 'green']})
holo = calc_holo(det, sphere, medium_index=1.33,
                 illum_wavelen={'red': 0.66, 'green': 0.52}, illum_polarization=(1, 0))
print('holopy from', hp.__file__)
print('detector dims', det.dims, '-> hologram dims', holo.dims)
c_all = np.asarray(center_find(holo))
c_chan = [np.asarray(center_find(holo.sel(illumination=c))) for c in ['red', 'green']]
c_reord = np.asarray(center_find(holo.transpose(*det.dims)))
pri = make_center_priors(holo)
print('true centre (pixels)            ', true_px)
print('center_find(colour hologram)    ', c_all)
print('center_find(each channel)       ', c_chan)
print('center_find(same data, dims z,x,y,illumination)', c_reord)
print('make_center_priors(colour hologram) x, y:', pri[0], pri[1], ' true', true_px*sp)
bad = np.abs(c_all - true_px).max() > 1
print('VIOLATION' if bad else 'ok', '- error in pixels:', np.abs(c_all - true_px))
sys.exit(1 if bad else 0)
