"""holopy.core.process.fft labels the Fourier axes with np.linspace(-1/(2dx), 1/(2dx), N)
(fourier.py ft_coord) instead of the FFT frequencies (k - N//2)/(N dx): the zero
frequency bin is labelled 1/(2(N-1)dx) for even N and every label is stretched by
N/(N-1).  propagate() builds its transfer function on those labels
(convolution_propagation.trans_func), so a reconstruction on an even-sized
detector is displaced sideways by about d*lambda/(2*N*dx^2) pixels (4 pixels here);
with the true FFT frequencies the focus is where the particle is.
(The sandbox's xarray makes Dataset.update return None; patched below as allowed.)
"""
import sys, os; sys.path.insert(0, os.getcwd())
import warnings; warnings.simplefilter('ignore')
import numpy as np, xarray as xr
_upd = xr.Dataset.update
def _update(self, other):
    r = _upd(self, other)
    return self if r is None else r
xr.Dataset.update = _update
import holopy as hp
from holopy.scattering import Sphere, calc_holo
from holopy.core.metadata import data_grid
from holopy.core.process import fft

print('holopy from', hp.__file__)
# 1. frequency labels of fft
N = 8
im = data_grid(np.cos(2*np.pi*2*np.arange(N)/N)[:, None]*np.ones((1, N)), spacing=1.0)
F = fft(im)
k = int(np.abs(F.values[0, :, N//2]).argmax())
label = float(F.m.values[k]); true = float(np.fft.fftshift(np.fft.fftfreq(N, 1.0))[k])
print('cosine with 2 periods over 8 pixels: fft peak labelled m = %.4f, FFT frequency is %.4f' % (label, true))
print('fft m labels   ', F.m.values.round(4))
print('FFT frequencies', np.fft.fftshift(np.fft.fftfreq(N, 1.0)))

# 2. consequence: sideways displacement of a reconstruction
def focus(h, z):
    a = np.abs(hp.propagate(h - 1, z).values).squeeze()
    i, j = np.unravel_index(a.argmax(), a.shape)
    w = a[i-5:i+6, j-5:j+6]**2; ii, jj = np.mgrid[i-5:i+6, j-5:j+6]
    return np.array([(ii*w).sum()/w.sum(), (jj*w).sum()/w.sum()])
sp, z = 0.1, 15.
worst = 0
for N, c in [(100, (50, 50)), (100, (30, 65)), (64, (32, 32)), (101, (51, 51))]:
    h = calc_holo(hp.detector_grid(N, sp), Sphere(n=1.59, r=0.5, center=(c[0]*sp, c[1]*sp, z)),
                  medium_index=1.33, illum_wavelen=0.66, illum_polarization=(1, 0))
    f = focus(h, z)
    print('N=%3d particle at pixel %s: reconstruction at z focuses at pixel %s' % (N, c, f.round(2)))
    if N % 2 == 0:
        worst = max(worst, np.abs(f - c).max())
bad = abs(label - true) > 1e-6 or worst > 1
print('VIOLATION' if bad else 'ok', '- worst displacement on even detectors: %.2f pixels' % worst)
sys.exit(1 if bad else 0)
