"""bg_correct on unsigned-integer camera images with a dark field: (raw-df) and
(bg-df) are formed in the images' own unsigned arithmetic and wrap around
whenever a raw (or background) pixel is darker than the dark field, instead of
giving the (small, negative) value (raw-df)/(bg-df).  display_image got a repair
for exactly this ("subtract in floating point: integer images would wrap
around"); bg_correct (img_proc.py line 247) did not.
"""
import sys, os; sys.path.insert(0, os.getcwd())
import warnings; warnings.simplefilter('ignore')
import numpy as np
import holopy as hp
from holopy.core.metadata import data_grid
from holopy.core.process import bg_correct

raw = np.array([[12, 40, 41], [39, 42, 40], [41, 40, 43]], dtype=np.uint8)
bg = np.full((3, 3), 200, dtype=np.uint8)
df = np.full((3, 3), 15, dtype=np.uint8)      # raw[0,0] < df[0,0]: a dark pixel
mk = lambda a: data_grid(a, spacing=0.1, medium_index=1.33, illum_wavelen=0.66,
                         illum_polarization=(1, 0))
res = bg_correct(mk(raw), mk(bg), mk(df)).values[0]
expected = (raw.astype(float) - df) / (bg.astype(float) - df)
res_float = bg_correct(mk(raw.astype(float)), mk(bg.astype(float)), mk(df.astype(float))).values[0]
print('holopy from', hp.__file__)
print('expected (raw-df)/(bg-df):\n', expected.round(4))
print('bg_correct on uint8 images:\n', res.round(4))
print('bg_correct on the same images as floats agrees with the formula:', np.allclose(res_float, expected))
err = np.abs(res - expected).max()
print('max abs difference', err)
sys.exit(1 if err > 1e-9 else 0)
