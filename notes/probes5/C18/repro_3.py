"""normalize does not give mean 1 (a) for an image with masked (NaN) pixels and
(b) for a half-precision image whose pixel sum exceeds the float16 range.

(a) `image.sum()` (xarray, skipna=True) leaves the NaN pixels out while
`image.size` counts them, so the mean of the valid pixels is size/n_valid, not 1,
and normalize is not idempotent.
(b) `image.sum()` is accumulated in the image's own dtype: a float16 image sums
to inf and normalize silently returns an all-zero image.
"""
import sys, os; sys.path.insert(0, os.getcwd())
import warnings; warnings.simplefilter('ignore')
import numpy as np
import holopy as hp
from holopy.core.metadata import data_grid
from holopy.core.process import normalize

rng = np.random.default_rng(0)
a = rng.random((10, 10)) + 1
a[:2, :] = np.nan                                   # 20 % masked pixels
im = data_grid(a, spacing=0.1)
n1 = normalize(im); n2 = normalize(n1)
m1, m2 = float(np.nanmean(n1.values)), float(np.nanmean(n2.values))
print('holopy from', hp.__file__)
print('(a) mean of valid pixels after normalize:', m1, ' after normalizing again:', m2, '(expected 1, 1)')
h = data_grid((rng.random((60, 60))*100 + 50).astype(np.float16), spacing=0.1)
nh = normalize(h)
print('(b) float16 image, pixel sum', float(h.values.astype(float).sum()), '-> normalize mean', float(nh.mean()), 'max', float(nh.max()))
bad = abs(m1 - 1) > 1e-6 or abs(float(nh.mean()) - 1) > 1e-2
sys.exit(1 if bad else 0)
