"""C11: a prior NAMED BY THE USER loses its name when it is used at the same
place of two members of a collection and the name contains a colon:
Mapper.get_parameter_index re-names every shared parameter to the part of its
current name after the first ':' (meant for the automatic names '0:r', '1:r'),
without checking that the current name is an automatic one."""
import sys, os; sys.path.insert(0, os.getcwd())
import warnings
import numpy as np
np.NaN = np.nan
warnings.simplefilter('ignore')
from holopy.scattering import Sphere, Spheres
from holopy.core.prior import Uniform
from holopy.inference import AlphaModel

shared = Uniform(0.4, 0.6, name='dimer:r')
s = Spheres([Sphere(n=1.5, r=shared, center=[0, 0, 5]),
             Sphere(n=1.5, r=shared, center=[2, 0, 5])])
names = AlphaModel(s)._parameter_names
print('shared user name  :', names)
alone = AlphaModel(Sphere(n=1.5, r=Uniform(0.4, 0.6, name='dimer:r'), center=[0, 0, 5]))._parameter_names
print('unshared user name:', alone)
# same prior, shared between a derived place and a plain one of ONE sphere
q = Uniform(1.4, 1.6, name='0:r')
s = Spheres([Sphere(n=q * 1.0001, r=q, center=[0, 0, 5])])
names2 = AlphaModel(s)._parameter_names
print('second pattern    :', names2)
bad = names != ['dimer:r'] or names2 != ['0:r']
print('VIOLATION (user-given name replaced)' if bad else 'ok')
sys.exit(1 if bad else 0)
