"""C11: Model.add_tie on a shallow copy of a model leaves the ORIGINAL model
inconsistent: add_tie deletes from the lists _parameters / _parameter_names in
place (shared with the copy) but re-binds _maps (not shared), so the original
keeps maps that index a list that has shrunk, and silently puts values at the
wrong places."""
import sys, os; sys.path.insert(0, os.getcwd())
import warnings, copy
import numpy as np
np.NaN = np.nan
warnings.simplefilter('ignore')
from holopy.scattering import Sphere, Spheres
from holopy.core.prior import Uniform
from holopy.inference import AlphaModel

s = Spheres([Sphere(n=1.5, r=Uniform(0.4, 0.6), center=[0, 0, Uniform(5, 15)]),
             Sphere(n=1.5, r=Uniform(0.4, 0.6), center=[2, 0, Uniform(5, 15)])])
model = AlphaModel(s, medium_index=Uniform(1.3, 1.4))
names = list(model._parameter_names)
values = {'0:r': 0.45, '0:center.2': 9.0, '1:r': 0.55, '1:center.2': 11.0, 'medium_index': 1.33}
before = repr(model.scatterer_from_parameters(values))
print(names)
print('before:', before)

tied = copy.copy(model)
tied.add_tie(['0:r', '1:r'])

print('original names now:', model._parameter_names)
try:
    after = repr(model.scatterer_from_parameters([values[k] for k in names]))
except Exception as e:
    after = 'raised %r' % e
print('after :', after)
after_d = None
try:
    after_d = repr(model.scatterer_from_parameters({k: values[k] for k in model._parameter_names}))
except Exception as e:
    after_d = 'raised %r' % e
print('after (by name):', after_d)
bad = model._parameter_names != names or after_d != before
print('VIOLATION (original model changed behind the caller\'s back)' if bad else 'ok')
sys.exit(1 if bad else 0)
