"""C11: fixed tuple-valued parameters come back as lists from a Model (and from
validate_scatterer), and HoloPyObject equality tells a tuple from a list, so a
scatterer built from parameter values is not equal to the same scatterer
written by hand -- also for the default rotation=(0, 0, 0) of Spheroid and
Cylinder -- although Scatterer.from_parameters(Scatterer.parameters) is."""
import sys, os; sys.path.insert(0, os.getcwd())
import warnings
import numpy as np
np.NaN = np.nan
warnings.simplefilter('ignore')
from holopy.scattering import Spheroid, Cylinder
from holopy.scattering.theory import Mie
from holopy.scattering.interface import validate_scatterer
from holopy.core.prior import Uniform
from holopy.inference import AlphaModel

bad = False
s = Spheroid(n=Uniform(1.5, 1.7), r=(0.5, 0.8), center=[1, 2, 3])
by_hand = Spheroid(n=1.6, r=(0.5, 0.8), center=[1, 2, 3])
built = AlphaModel(s, theory=Mie).scatterer_from_parameters({'n': 1.6})
print('by hand :', by_hand)
print('built   :', built)
print('equal   :', built == by_hand, '| rebuilt from own parameters equal:',
      by_hand.from_parameters(by_hand.parameters) == by_hand)
bad |= not (built == by_hand)
c = Cylinder(n=1.5, d=0.5, h=1.0, center=[1, 2, 3])
print('validate_scatterer(cylinder without priors) == cylinder:', validate_scatterer(c) == c)
bad |= not (validate_scatterer(c) == c)
print('VIOLATION' if bad else 'ok')
sys.exit(1 if bad else 0)
