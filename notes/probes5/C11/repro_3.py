"""C11: hp.save / hp.load of a scatterer in which one prior object is used at
several places returns a scatterer in which every place has a prior of its own,
so a Model built on the re-loaded scatterer has more parameters than a Model
built on the original (the tie is lost).  HoloPyObject.to_yaml builds its
MappingNode by hand and never records it in dumper.represented_objects, so the
second occurrence of the same object is written out again instead of as an
alias (while plain floats, which need none, do get anchors)."""
import sys, os; sys.path.insert(0, os.getcwd())
import warnings, tempfile
import numpy as np
np.NaN = np.nan
warnings.simplefilter('ignore')
import holopy as hp
from holopy.scattering import Sphere, Spheres
from holopy.core.prior import Uniform
from holopy.inference import AlphaModel

n = Uniform(1.4, 1.6)
r = Uniform(0.4, 0.6)
s = Spheres([Sphere(n=n, r=r, center=[0, 0, 5]), Sphere(n=n, r=r, center=[2, 0, 5])])
fname = os.path.join(tempfile.mkdtemp(), 'dimer.yaml')
hp.save(fname, s)
s2 = hp.load(fname)
before = AlphaModel(s)._parameter_names
after = AlphaModel(s2)._parameter_names
print('equal by value          :', s2 == s)
print('parameters, original    :', before)
print('parameters, re-loaded   :', after)
print('same object, original   :', s[0].r is s[1].r, ' re-loaded:', s2[0].r is s2[1].r)
bad = before != after
print('VIOLATION (tie lost on save/load)' if bad else 'ok')
sys.exit(1 if bad else 0)
