"""C11: a fixed value None that the scatterer keeps (HoloPyObject._iteritems
keeps an explicit None whose constructor default is something else) is
replaced by 0 in every scatterer a Model builds: Mapper.map_dictionary drops
None entries from the map, and Scatterer.from_parameters of the model's
all-zero template then fills the missing key from the template (0).
validate_scatterer (same map, but on the original scatterer) keeps None."""
import sys, os; sys.path.insert(0, os.getcwd())
import warnings
import numpy as np
np.NaN = np.nan
warnings.simplefilter('ignore')
from holopy.scattering import Sphere, Spheroid
from holopy.scattering.theory import Mie
from holopy.scattering.interface import validate_scatterer
from holopy.core.prior import Uniform
from holopy.inference import AlphaModel

bad = False
for s in [Sphere(n=Uniform(1.4, 1.6), r=None, center=[1, 2, 3]),
          Spheroid(n=Uniform(1.4, 1.6), r=(0.5, 0.8), rotation=None, center=[1, 2, 3])]:
    key = 'r' if isinstance(s, Sphere) else 'rotation'
    m = AlphaModel(s, theory=Mie)
    built = m.initial_guess_scatterer
    direct = validate_scatterer(s)
    print(type(s).__name__, key, '-> original', getattr(s, key), '| model-built', getattr(built, key),
          '| validate_scatterer', getattr(direct, key))
    if getattr(built, key) is not None:
        bad = True
print('VIOLATION (fixed None became 0)' if bad else 'ok')
sys.exit(1 if bad else 0)
