"""C11: a TransformedPrior whose fixed arguments include a numpy array (or a
tuple) is not evaluated by a Model / validate_scatterer with the values it was
given: core.mapping.Mapper.convert_to_map turns every ndarray / tuple it meets
into a plain list, also the *constant* arguments of a transformation, so the
transformation is later called with a list.

 (a) `prior ** ndarray` is explicitly accepted by Prior.__pow__, its .guess
     works, but the model (and calc_holo) cannot evaluate it;
 (b) a user transformation doing arithmetic on its array argument silently
     returns something else than the prior's own .guess."""
import sys, os; sys.path.insert(0, os.getcwd())
import warnings
import numpy as np
np.NaN = np.nan
warnings.simplefilter('ignore')
import holopy
from holopy.scattering import Sphere
from holopy.scattering.interface import validate_scatterer
from holopy.core.prior import Uniform, TransformedPrior
from holopy.inference import AlphaModel

print(holopy.__file__)
bad = False

# (a) layered sphere whose radii are powers of one free parameter
p = Uniform(0.4, 0.6)
radii = p ** np.array([1, 0.5])          # accepted: Prior.__pow__ allows ndarray
print('(a) prior guess              :', radii.guess)
sph = Sphere(n=[1.5, 1.6], r=radii, center=[1, 2, 3])
model = AlphaModel(sph)
try:
    print('(a) model initial guess      :', model.initial_guess_scatterer.r)
except TypeError as e:
    print('(a) model initial guess      : TypeError:', e)
    bad = True
try:
    validate_scatterer(sph)
except TypeError as e:
    print('(a) validate_scatterer       : TypeError:', e)
    bad = True

# (b) a transformation that uses its constant array argument arithmetically
def shell_radii(scale, base):
    return base * 2 if scale > 0 else base
tp = TransformedPrior(shell_radii, [Uniform(0.4, 0.6), np.array([0.2, 0.3])])
sph = Sphere(n=[1.5, 1.6], r=tp, center=[1, 2, 3])
expected = list(tp.guess)
got = list(AlphaModel(sph).initial_guess_scatterer.r)
got2 = list(validate_scatterer(sph).r)
print('(b) prior guess              :', expected)
print('(b) model initial guess      :', got)
print('(b) validate_scatterer guess :', got2)
if got != expected or got2 != expected:
    bad = True
print('VIOLATION' if bad else 'ok')
sys.exit(1 if bad else 0)
