"""C13 / fit(): default model for a bare scatterer.  hp.fit(data, scatterer)
with the documented default "adjust all parameters" cannot build its model for
an absorbing sphere: make_uniform wraps the complex index in
Uniform(0, inf, guess=<complex>), whose bounds check compares a complex number
(TypeError about '<', nothing about the index).  The same sphere is fitted
fine when 'n' is left out of `parameters`, and a hand-made model can fit the
complex index through ComplexPrior.
Run from the checkout root:  /venv/bin/python /tmp/probe5_out/C13/repro_5.py
"""
import sys, os
sys.path.insert(0, os.getcwd())
import warnings; warnings.filterwarnings('ignore')
import numpy as np
np.NaN = np.nan          # sandbox: numpy 2 (third_party/nmpfit uses np.NaN)
import holopy as hp
from holopy.scattering import Sphere, calc_holo
from holopy.core.metadata import detector_grid, update_metadata

det = update_metadata(detector_grid(16, 0.1), medium_index=1.33,
                      illum_wavelen=0.66, illum_polarization=(1, 0))
data = calc_holo(det, Sphere(n=1.59 + 0.01j, r=0.5, center=(0.8, 0.9, 5.0)),
                 scaling=0.8)
guess = Sphere(n=1.59 + 0.01j, r=0.51, center=(0.82, 0.88, 5.1))
ok = hp.fit(data, guess, parameters=['r', 'x', 'y', 'z'])
print("parameters=['r','x','y','z'] :", {k: round(v, 6) for k, v in ok.parameters.items()})
bad = False
try:
    res = hp.fit(data, guess)             # default: all parameters
    print('parameters=None (default)    :', res.parameters)
except Exception as err:
    print('parameters=None (default)    : %s: %s' % (type(err).__name__, err))
    bad = True
sys.exit(1 if bad else 0)
