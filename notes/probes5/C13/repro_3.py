"""C13 / recovery, hologram = forward model: fitting ONE plane of a colour
stack.  `stack.sel(illumination='green')` keeps the scalar coordinate
illumination='green' and the per-channel metadata of the stack.  The forward
model computed "on" that plane has BOTH channels, Model._residuals subtracts the
one-plane image from it with xarray broadcasting (no shape check), and the
least-squares fit silently fits the green image to the red and the green model
at once: wrong parameters, a best-fit "hologram" with twice the pixels of the
data, and a log-probability whose pixel count (data.size) disagrees with the
number of residuals.
Run from the checkout root:  /venv/bin/python /tmp/probe5_out/C13/repro_3.py
"""
import sys, os
sys.path.insert(0, os.getcwd())
import warnings; warnings.filterwarnings('ignore')
import numpy as np
np.NaN = np.nan          # sandbox: numpy 2 (third_party/nmpfit uses np.NaN)
import holopy as hp
from holopy.scattering import Sphere, calc_holo
from holopy.inference import prior, AlphaModel, NmpfitStrategy
from holopy.core.metadata import detector_grid, update_metadata

det = detector_grid((16, 18), 0.1, extra_dims={'illumination': ['red', 'green']})
det = update_metadata(det, medium_index=1.33,
                      illum_wavelen={'red': 0.66, 'green': 0.52},
                      illum_polarization=(1, 0))
truth = dict(r=0.5, x=0.8, y=0.9, z=5.0, alpha=0.8)
stack = calc_holo(det, Sphere(n=1.59, r=0.5, center=(0.8, 0.9, 5.0)),
                  scaling=0.8)
plane = stack.sel(illumination='green')       # one plane; scalar coordinate kept
print('data: dims', plane.dims, 'scalar coordinate illumination =',
      plane.illumination.item(), ' size', plane.size)

sph = Sphere(n=1.59, r=prior.Uniform(0.3, 0.8, 0.505),
             center=(prior.Uniform(0, 2, 0.81), prior.Uniform(0, 2, 0.89),
                     prior.Uniform(2, 8, 5.05)))
model = AlphaModel(sph, alpha=prior.Uniform(0.5, 1, 0.79), noise_sd=1)
result = hp.fit(plane, model, strategy=NmpfitStrategy())
got = dict(zip(['r', 'x', 'y', 'z', 'alpha'], result.parameters.values()))
print('generating parameters', truth)
print('fitted parameters    ', {k: round(v, 5) for k, v in got.items()})
resid = model._residuals(list(result.parameters.values()), plane, 1)
print('best-fit hologram dims', result.hologram.dims, result.hologram.shape,
      '| residuals', resid.shape, 'for', plane.size, 'data pixels')
misfit_guess = (model._residuals(list(model.initial_guess.values()), plane, 1)**2).sum()
print('misfit at guess %.3e, at result %.3e' % (misfit_guess, (resid**2).sum()))
err = max(abs(got[k] - truth[k]) for k in truth)
bad = err > 1e-4 or result.hologram.size != plane.size
print('max parameter error %.2e' % err)
sys.exit(1 if bad else 0)
