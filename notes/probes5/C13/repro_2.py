"""C13 / consistent results: LeastSquaresScipyStrategy multiplies the parameter
uncertainties by the noise level twice.  Its residuals (and so its Jacobian)
are already divided by noise_sd, and the 'unit noise' errors derived from that
Jacobian are then multiplied by noise_sd again, so the reported one-sigma
errors scale with noise_sd**2: equal to NmpfitStrategy's for noise_sd = 1,
a factor noise_sd off otherwise (and a factor noise_sd away from the actual
scatter of the fitted values over noise realisations).
Run from the checkout root:  /venv/bin/python /tmp/probe5_out/C13/repro_2.py
"""
import sys, os
sys.path.insert(0, os.getcwd())
import warnings; warnings.filterwarnings('ignore')
import numpy as np
np.NaN = np.nan          # sandbox: numpy 2 (third_party/nmpfit uses np.NaN)
import holopy as hp
from holopy.scattering import Sphere, calc_holo
from holopy.inference import (prior, AlphaModel, NmpfitStrategy,
                              LeastSquaresScipyStrategy)
from holopy.core.metadata import detector_grid, update_metadata

det = update_metadata(detector_grid(20, 0.1), medium_index=1.33,
                      illum_wavelen=0.66, illum_polarization=(1, 0))
clean = calc_holo(det, Sphere(n=1.59, r=0.5, center=(0.8, 0.9, 5.0)),
                  scaling=0.8)
rng = np.random.default_rng(0)


def model(noise_sd):
    sph = Sphere(n=1.59, r=prior.Uniform(0.3, 0.8, 0.5),
                 center=(prior.Uniform(0, 2, 0.8), prior.Uniform(0, 2, 0.9),
                         prior.Uniform(2, 8, 5.0)))
    return AlphaModel(sph, alpha=prior.Uniform(0.5, 1, 0.8),
                      noise_sd=noise_sd)


bad = False
sigma = 0.02
# (a) the two least-squares strategies on the same data and model
noisy = clean + rng.normal(0, sigma, clean.shape)
noisy.attrs = clean.attrs
for noise_sd in (1.0, sigma):
    a = hp.fit(noisy, model(noise_sd), strategy=NmpfitStrategy())
    b = hp.fit(noisy, model(noise_sd), strategy=LeastSquaresScipyStrategy())
    ratio = np.array([y.plus / x.plus for x, y in zip(a.intervals, b.intervals)])
    same_values = max(abs(a.parameters[k] - b.parameters[k])
                      for k in a.parameters)
    print('noise_sd = %-5g best-fit values differ by at most %.1e; reported errors '
          'scipy/nmpfit = %s' % (noise_sd, same_values, np.round(ratio, 4)))
    if not np.allclose(ratio, 1, rtol=0.05):
        bad = True

# (b) which one is right: scatter of the fitted values over noise realisations
values, err_nmp, err_sci = [], [], []
for i in range(25):
    noisy = clean + rng.normal(0, sigma, clean.shape)
    noisy.attrs = clean.attrs
    a = hp.fit(noisy, model(sigma), strategy=NmpfitStrategy())
    b = hp.fit(noisy, model(sigma), strategy=LeastSquaresScipyStrategy())
    values.append(list(b.parameters.values()))
    err_nmp.append([iv.plus for iv in a.intervals])
    err_sci.append([iv.plus for iv in b.intervals])
scatter = np.std(values, axis=0, ddof=1)
print('parameters                        ', list(b.parameters))
print('scatter of fitted values (25 fits)', scatter)
print('mean reported error, nmpfit       ', np.mean(err_nmp, axis=0))
print('mean reported error, scipy lsq    ', np.mean(err_sci, axis=0))
print('scipy error / scatter             ', np.mean(err_sci, axis=0) / scatter,
      '(noise_sd = %g)' % sigma)
if not np.allclose(np.mean(err_sci, axis=0) / scatter, 1, rtol=0.6):
    bad = True
sys.exit(1 if bad else 0)
