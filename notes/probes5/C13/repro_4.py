"""C13 / strategy reusable, options honoured: LeastSquaresScipyStrategy copies
ftol/xtol/gtol/max_nfev into a private dictionary when it is constructed, so a
strategy whose options are changed afterwards (strategy.max_nfev = ...,
strategy.ftol = ...) keeps fitting with the old values, while its repr, its
saved form and the copy that hp.load returns all show -- and the reloaded copy
uses -- the new ones.  npixels, set the same way, IS honoured, and
NmpfitStrategy honours every option changed after construction.
Run from the checkout root:  /venv/bin/python /tmp/probe5_out/C13/repro_4.py
"""
import sys, os
sys.path.insert(0, os.getcwd())
import warnings; warnings.filterwarnings('ignore')
import tempfile
import numpy as np
np.NaN = np.nan          # sandbox: numpy 2 (third_party/nmpfit uses np.NaN)
import holopy as hp
from holopy.scattering import Sphere, calc_holo
from holopy.inference import (prior, AlphaModel, NmpfitStrategy,
                              LeastSquaresScipyStrategy)
from holopy.core.metadata import detector_grid, update_metadata

det = update_metadata(detector_grid(16, 0.1), medium_index=1.33,
                      illum_wavelen=0.66, illum_polarization=(1, 0))
data = calc_holo(det, Sphere(n=1.59, r=0.5, center=(0.8, 0.9, 5.0)),
                 scaling=0.8)
sph = Sphere(n=1.59, r=prior.Uniform(0.3, 0.8, 0.53),
             center=(prior.Uniform(0, 2, 0.85), prior.Uniform(0, 2, 0.86),
                     prior.Uniform(2, 8, 5.3)))
model = AlphaModel(sph, alpha=prior.Uniform(0.5, 1, 0.75), noise_sd=1)

strategy = LeastSquaresScipyStrategy()
strategy.max_nfev = 2            # "stop after two evaluations"
print('strategy as printed      :', strategy)
first = hp.fit(data, model, strategy=strategy)
fname = os.path.join(tempfile.mkdtemp(), 'strategy.h5')
hp.save(fname, strategy)
reloaded = hp.load(fname)
second = hp.fit(data, model, strategy=reloaded)
print('modified strategy  : nfev = %d, r = %.12f' % (
    first.minimizer_info.nfev, first.parameters['r']))
print('saved + reloaded   : nfev = %d, r = %.12f' % (
    second.minimizer_info.nfev, second.parameters['r']))

nmp = NmpfitStrategy()
nmp.maxiter = 2
third = hp.fit(data, model, strategy=nmp)
print('NmpfitStrategy with maxiter = 2 set the same way: niter = %d'
      % third.mpfit_details.niter)
bad = (first.minimizer_info.nfev != second.minimizer_info.nfev
       or first.parameters != second.parameters)
sys.exit(1 if bad else 0)
