"""C13 / save-load: a FitResult whose data is a pixel subset (dimension 'flat')
that carries a scalar coordinate (one frame of a time series, one plane of a
colour stack) is written by hp.save without complaint but cannot be read back:
FitResult._unserialize takes every *coordinate* of the stored array for a
*dimension*.
Run from the checkout root:  /venv/bin/python /tmp/probe5_out/C13/repro_1.py
"""
import sys, os
sys.path.insert(0, os.getcwd())
import warnings; warnings.filterwarnings('ignore')
import tempfile
import numpy as np
np.NaN = np.nan          # sandbox: numpy 2 (third_party/nmpfit uses np.NaN)
import holopy as hp
from holopy.scattering import Sphere, calc_holo
from holopy.inference import prior, AlphaModel, NmpfitStrategy
from holopy.core.metadata import detector_grid, update_metadata, make_subset_data

det = update_metadata(detector_grid(18, 0.1), medium_index=1.33,
                      illum_wavelen=0.66, illum_polarization=(1, 0))
truth = Sphere(n=1.59, r=0.5, center=(0.8, 0.9, 5.0))
image = calc_holo(det, truth, scaling=0.8)
# one frame of a time series: a scalar (non-index) coordinate rides along
frame = image.assign_coords(time=2.0)

sph = Sphere(n=1.59, r=prior.Uniform(0.3, 0.8, 0.51),
             center=(prior.Uniform(0, 2, 0.82), prior.Uniform(0, 2, 0.88),
                     prior.Uniform(2, 8, 5.1)))
model = AlphaModel(sph, alpha=prior.Uniform(0.5, 1, 0.78), noise_sd=1)

tmp = tempfile.mkdtemp()
bad = False
for label, data in [('full frame', frame),
                    ('150-pixel subset of the same frame',
                     make_subset_data(frame, pixels=150, seed=1)),
                    ('150-pixel subset without the scalar coordinate',
                     make_subset_data(image, pixels=150, seed=1))]:
    result = hp.fit(data, model, strategy=NmpfitStrategy())
    fname = os.path.join(tmp, 'result.h5')
    hp.save(fname, result)                       # succeeds in every case
    try:
        loaded = hp.load(fname)
        ok = (loaded.parameters == result.parameters and
              np.array_equal(loaded.data.values, result.data.values))
        print('%-50s saved, reloaded, equivalent: %s' % (label, ok))
        bad |= not ok
    except Exception as err:
        print('%-50s saved, but hp.load raises %s: %s'
              % (label, type(err).__name__, str(err).splitlines()[0]))
        bad = True
sys.exit(1 if bad else 0)
