# hp.save(): docstring says a file name with an image extension gives an image;
# only the four literal spellings in io.tiflist do.  '.png', '.jpg', '.Tif',
# '.Tiff' silently produce an HDF5 file under an image file name, which
# hp.load_image / any image viewer cannot read.
import sys, os; sys.path.insert(0, os.getcwd())
import warnings; warnings.simplefilter('ignore')
import tempfile
import numpy as np
import holopy as hp
from holopy.core.metadata import data_grid

d = tempfile.mkdtemp()
im = data_grid(np.random.default_rng(0).random((5, 6)), spacing=0.1, name='h',
               medium_index=1.33)
bad = False
for ext in ['.tif', '.Tif', '.Tiff', '.png', '.jpg']:
    fn = os.path.join(d, 'img' + ext)
    hp.save(fn, im)
    magic = open(fn, 'rb').read(4)
    is_hdf = magic == b'\x89HDF'
    print(ext, 'HDF5 container' if is_hdf else 'image file', magic)
    bad = bad or is_hdf
print('VIOLATION' if bad else 'ok')
sys.exit(1 if bad else 0)
