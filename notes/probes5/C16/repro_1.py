# load_image: negative channel numbers are labelled by indexing the fixed list
# ['red','green','blue'], not by the channel actually read.  On a 4-channel
# (RGBA) file channel=[-1, 0] reads the ALPHA plane and labels it 'blue'.
import sys, os; sys.path.insert(0, os.getcwd())
import warnings; warnings.simplefilter('ignore')
import tempfile
import numpy as np
from PIL import Image
import holopy as hp

d = tempfile.mkdtemp()
rgba = np.zeros((4, 6, 4), 'uint8')
rgba[..., 0], rgba[..., 1], rgba[..., 2], rgba[..., 3] = 10, 20, 30, 200
Image.fromarray(rgba, 'RGBA').save(os.path.join(d, 'rgba.png'))
im = hp.load_image(os.path.join(d, 'rgba.png'), spacing=1, channel=[-1, 0])
labels = list(im.illumination.values)
blue_plane = float(im.sel(illumination='blue').values.mean())
print('holopy from', hp.__file__)
print('labels:', labels, ' value of the plane labelled blue:', blue_plane,
      '(blue plane of the file holds 30, alpha holds 200)')
bad = ('blue' in labels) and blue_plane != 30
print('VIOLATION' if bad else 'ok')
sys.exit(1 if bad else 0)
