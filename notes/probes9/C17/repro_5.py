import sys, os; sys.path.insert(0, os.getcwd())
import warnings; warnings.filterwarnings('ignore')
import numpy as np, xarray as xr
# sandbox workaround (not a library defect): Dataset.update returns None in this xarray
_u = xr.Dataset.update
def _upd(self, other):
    r = _u(self, other)
    return self if r is None else r
xr.Dataset.update = _upd
import holopy as hp
from holopy.core.process import fft, ifft
from holopy.core.metadata import data_grid
print('holopy from', hp.__file__)
lam, n = 0.66, 1.33
ml = lam / n
bad = False
# ifft(fft(image)) does not return the image's coordinates when the image does not start
# at the origin (a crop, a shifted image): ift_coord always starts at 0.
rng = np.random.default_rng(0)
big = data_grid(rng.normal(size=(12, 10)), spacing=(0.1, 0.2), medium_index=n, illum_wavelen=lam)
crop = big.isel(x=slice(3, 10), y=slice(2, 8))
back = ifft(fft(crop))
print('values round trip:', np.allclose(back.values, crop.values))
print('x in ', crop.x.values, '\nx out', back.x.values)
print('y in ', crop.y.values, '\ny out', back.y.values)
if not (np.allclose(back.x, crop.x) and np.allclose(back.y, crop.y)):
    bad = True
sys.exit(1 if bad else 0)
