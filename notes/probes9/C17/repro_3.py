import sys, os; sys.path.insert(0, os.getcwd())
import warnings; warnings.filterwarnings('ignore')
import numpy as np, xarray as xr
# sandbox workaround (not a library defect): Dataset.update returns None in this xarray
_u = xr.Dataset.update
def _upd(self, other):
    r = _u(self, other)
    return self if r is None else r
xr.Dataset.update = _upd
import holopy as hp
from holopy.core.process import fft, ifft
from holopy.core.metadata import data_grid
print('holopy from', hp.__file__)
lam, n = 0.66, 1.33
ml = lam / n
bad = False
# A list of distances containing 0: the zero-distance slice is put FIRST whatever its
# position, repeated zeros are collapsed, and it is labelled with the image's own z.
rng = np.random.default_rng(1)
a = rng.normal(size=(6, 5)) + 1j * rng.normal(size=(6, 5))
im = data_grid(a, spacing=0.5, medium_index=n, illum_wavelen=lam)
single = lambda d: a if d == 0 else hp.propagate(im, d).values.squeeze()
for ds in ([1., 0., 2.], [1., 0.], [0., 0., 1.]):
    r = hp.propagate(im, ds).transpose('z', 'x', 'y')
    print('d =', ds, '-> z labels', r.z.values, 'n slices', r.sizes['z'])
    if r.sizes['z'] != len(ds) or not np.array_equal(r.z.values, ds):
        bad = True
    for k, d in enumerate(ds[:r.sizes['z']]):
        ok = np.allclose(r.values[k], single(d))
        print('   slice %d equals propagate(im, %g)? %s' % (k, d, ok))
        bad |= not ok
im5 = im.assign_coords(z=[5.0])
r = hp.propagate(im5, [1., 0., 2.])
print('image recorded at z=5, d=[1,0,2] -> z labels', r.z.values)
sys.exit(1 if bad else 0)
