import sys, os; sys.path.insert(0, os.getcwd())
import warnings; warnings.filterwarnings('ignore')
import numpy as np, xarray as xr
# sandbox workaround (not a library defect): Dataset.update returns None in this xarray
_u = xr.Dataset.update
def _upd(self, other):
    r = _u(self, other)
    return self if r is None else r
xr.Dataset.update = _upd
import holopy as hp
from holopy.core.process import fft, ifft
from holopy.core.metadata import data_grid
print('holopy from', hp.__file__)
lam, n = 0.66, 1.33
ml = lam / n
bad = False
# trans_func: `root *= (root >= 0)` zeroes the negative entries, so the later mask
# `g = g * (root >= 0)` is all True: evanescent frequencies are passed with G = 1
# instead of being set to zero as the comment and docstring say.
from holopy.propagation.convolution_propagation import trans_func
im = data_grid(np.ones((9, 9), complex), spacing=0.1, medium_index=n, illum_wavelen=lam)
G = trans_func(im, 5.0, ml).transpose('m', 'n', 'z')
m, nn = G.m.values, G.n.values
root = 1 - (ml * m[:, None]) ** 2 - (ml * nn[None, :]) ** 2
g = G.values[..., 0]
print('evanescent bins:', int((root < 0).sum()), 'of', root.size)
print('G at evanescent bins:', np.unique(g[root < 0]), '(documented: 0)')
rng = np.random.default_rng(0)
a = rng.normal(size=(9, 9))
r = hp.propagate(data_grid(a, spacing=0.1, medium_index=n, illum_wavelen=lam), 5.0)
ratio = (np.abs(r.values) ** 2).sum() / (a ** 2).sum()
print('energy ratio after propagating white noise sampled at 0.2 wavelengths:', ratio)
if np.any(g[root < 0] != 0):
    bad = True
sys.exit(1 if bad else 0)
