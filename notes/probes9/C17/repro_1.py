import sys, os; sys.path.insert(0, os.getcwd())
import warnings; warnings.filterwarnings('ignore')
import numpy as np, xarray as xr
# sandbox workaround (not a library defect): Dataset.update returns None in this xarray
_u = xr.Dataset.update
def _upd(self, other):
    r = _u(self, other)
    return self if r is None else r
xr.Dataset.update = _upd
import holopy as hp
from holopy.core.process import fft, ifft
from holopy.core.metadata import data_grid
print('holopy from', hp.__file__)
lam, n = 0.66, 1.33
ml = lam / n
bad = False
# ft_coord builds the frequency axis with linspace(-1/(2s), 1/(2s), N) instead of
# fftshift(fftfreq(N, s)): frequencies are mis-scaled (odd N) and the DC bin is not at
# frequency 0 (even N), so propagate applies the wrong transfer function.
N, s, d = 8, 0.5, 10.0
im = data_grid(np.ones((N, N), complex), spacing=s, medium_index=n, illum_wavelen=lam)
f = fft(im)
print('fft m axis      :', f.m.values)
print('true frequencies:', np.fft.fftshift(np.fft.fftfreq(N, s)))
if not np.allclose(f.m.values, np.fft.fftshift(np.fft.fftfreq(N, s))):
    bad = True
# (a) a uniform image is a normally incident plane wave: must pick up exp(-2 pi i d / lambda_med)
r = hp.propagate(im, d).values.squeeze()
exp = np.exp(-2j * np.pi * d / ml)
print('uniform image propagated by', d, '->', r[0, 0], ' expected', exp)
if abs(r[0, 0] - exp) > 1e-6:
    bad = True
# (b) tilted plane wave periodic on the grid (k cycles across the image), odd N too
for N in (9, 16):
    k = 3
    a = np.exp(2j * np.pi * k * np.arange(N) / N)[:, None] * np.ones((1, N))
    im = data_grid(a, spacing=s, medium_index=n, illum_wavelen=lam)
    fx = k / (N * s)
    exp = np.exp(-2j * np.pi * d / ml * np.sqrt(1 - (ml * fx) ** 2))
    got = (hp.propagate(im, d).values.squeeze() / a)[0, 0]
    print('N=%d tilted plane wave factor' % N, got, 'expected', exp)
    if abs(got - exp) > 1e-6:
        bad = True
# (c) mirror covariance: propagating the mirrored image must give the mirrored result
rng = np.random.default_rng(0)
a = rng.normal(size=(8, 8))
mirror = lambda v: np.roll(v[::-1], 1, axis=0)
P = lambda v: hp.propagate(data_grid(v, spacing=s, medium_index=n, illum_wavelen=lam), d).values.squeeze()
err = np.abs(mirror(P(a)) - P(mirror(a))).max()
print('mirror covariance error (8x8):', err)
if err > 1e-6:
    bad = True
# (d) fft(shift=False): data unshifted, labels still in shifted order
f = fft(im, shift=False)
print('shift=False m labels', f.m.values[:4], '... but data is in fftfreq order', np.fft.fftfreq(16, s)[:4])
sys.exit(1 if bad else 0)
