import sys, os; sys.path.insert(0, os.getcwd())
import warnings; warnings.filterwarnings('ignore')
import numpy as np, xarray as xr
# sandbox workaround (not a library defect): Dataset.update returns None in this xarray
_u = xr.Dataset.update
def _upd(self, other):
    r = _u(self, other)
    return self if r is None else r
xr.Dataset.update = _upd
import holopy as hp
from holopy.core.process import fft, ifft
from holopy.core.metadata import data_grid
print('holopy from', hp.__file__)
lam, n = 0.66, 1.33
ml = lam / n
bad = False
# fft / ifft document "data : ndarray or xarray" but the 2-D branch uses data.dims
a = np.arange(12.).reshape(3, 4)
for f, name in ((fft, 'fft'), (ifft, 'ifft')):
    try:
        f(a); print(name, 'of a 2-D ndarray ok')
    except Exception as e:
        print(name, 'of a 2-D ndarray raised', type(e).__name__, e); bad = True
sys.exit(1 if bad else 0)
