import sys, os; sys.path.insert(0, os.getcwd())
import warnings; warnings.filterwarnings('ignore')
import numpy as np, xarray as xr
# sandbox workaround (not a library defect): Dataset.update returns None in this xarray
_u = xr.Dataset.update
def _upd(self, other):
    r = _u(self, other)
    return self if r is None else r
xr.Dataset.update = _upd
import holopy as hp
from holopy.core.process import fft, ifft
from holopy.core.metadata import data_grid
print('holopy from', hp.__file__)
lam, n = 0.66, 1.33
ml = lam / n
bad = False
# The d == 0 shortcuts ignore the other arguments: gradient_filter is not applied to the
# zero-distance result (scalar or inside a list), and medium_index / illum_wavelen given
# to propagate are not recorded; the result is the very same object as the input.
rng = np.random.default_rng(0)
a = rng.normal(size=(7, 6)) + 1j * rng.normal(size=(7, 6))
im = data_grid(a, spacing=0.5, medium_index=n, illum_wavelen=lam)
gf = 0.3
P = lambda d, **kw: hp.propagate(im, d, **kw).values.squeeze()
expected = a - P(gf)                       # P(0) - P(0 + gf), the documented filter
print('limit d=1e-12 agrees with data - P(gf):', np.abs(P(1e-12, gradient_filter=gf) - expected).max())
r0 = P(0, gradient_filter=gf)
print('d=0, gradient_filter: max |result - (data - P(gf))| =', np.abs(r0 - expected).max(), ' equals raw data:', np.allclose(r0, a))
rl = hp.propagate(im, [0., 2.], gradient_filter=gf).sel(z=0).values.squeeze()
print('d=[0,2], gradient_filter: zero slice equals raw data:', np.allclose(rl, a))
if np.abs(r0 - expected).max() > 1e-6 or np.abs(rl - expected).max() > 1e-6:
    bad = True
r = hp.propagate(im, 0, medium_index=1.5, illum_wavelen=0.5)
r1 = hp.propagate(im, 1e-30, medium_index=1.5, illum_wavelen=0.5)
print('propagate(im, 0, medium_index=1.5, illum_wavelen=0.5) attrs:', r.attrs['medium_index'], r.attrs['illum_wavelen'], ' same object as input:', r is im, ' dims', r.dims)
print('propagate(im, 1e-30, ...) attrs:', r1.attrs['medium_index'], r1.attrs['illum_wavelen'], ' dims', r1.dims)
if r.attrs['medium_index'] != 1.5 or r is im:
    bad = True
sys.exit(1 if bad else 0)
