"""load_average of images of unequal size depends on the file order: with the
smallest image first the larger ones are silently cropped to it (label-aligned
arithmetic = inner join in Accumulator.push); in any other order it raises."""
import sys, os; sys.path.insert(0, os.getcwd())
import warnings; warnings.simplefilter('ignore')
import tempfile
import numpy as np
from PIL import Image
import holopy as hp
from holopy.core.io import load_average
print(hp.__file__)
d = tempfile.mkdtemp(); rng = np.random.default_rng(0)
paths = []
for i, shp in enumerate([(6, 8), (6, 8), (4, 8)]):
    p = os.path.join(d, 'im%d.tif' % i)
    Image.fromarray((rng.random(shp) * 250).astype('uint8')).save(p); paths.append(p)
out = []
for order in [paths, paths[::-1]]:
    try:
        r = load_average(order, spacing=0.1)
        out.append('shape %s' % (r.shape,))
    except Exception as e:
        out.append('raises %s' % type(e).__name__)
    print([os.path.basename(p) for p in order], '->', out[-1])
sys.exit(1 if out[0] != out[1] else 0)
