"""hp.save writes scalar metadata with yaml.dump but hp.load reads it with
yaml.safe_load: a complex (absorbing) medium index, a numpy float32 value or a
tuple is written without complaint into a file that hp.load then refuses
(complex, float32) or returns with another type (tuple -> list)."""
import sys, os; sys.path.insert(0, os.getcwd())
import warnings; warnings.simplefilter('ignore')
import tempfile
import numpy as np
import holopy as hp
from holopy.core.metadata import data_grid, update_metadata
print(hp.__file__)
d = tempfile.mkdtemp()
im = data_grid(np.random.default_rng(0).random((4, 6)), spacing=0.1, medium_index=1.33,
               illum_wavelen=0.66, illum_polarization=(1, 0), name='im')
bad = False
for ext in ['.h5', '.tif']:
    for tag, val in [('complex medium index', 1.33 + 0.01j), ('numpy float32 index', np.float32(1.33)),
                     ('control: float', 1.33), ('control: numpy float64', np.float64(1.33))]:
        p = os.path.join(d, tag.replace(' ', '_').replace(':', '') + ext)
        hp.save(p, update_metadata(im, medium_index=val))     # succeeds silently
        try:
            back = hp.load(p)
            ok = back.medium_index == val
            print(ext, tag, '-> loaded medium_index', repr(back.medium_index))
        except Exception as e:
            ok = False
            print(ext, tag, '-> hp.load raises', type(e).__name__, str(e).splitlines()[0][:90])
        if not tag.startswith('control'):
            bad |= not ok
sys.exit(1 if bad else 0)
