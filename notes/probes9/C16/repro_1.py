"""TIFF round trip with an explicit scaling (or a z stack): hp.load stretches
the stored counts so that the file's own min/max land on the recorded
_image_scaling limits, instead of undoing the mapping used by save_image."""
import sys, os; sys.path.insert(0, os.getcwd())
import warnings; warnings.simplefilter('ignore')
import tempfile
import numpy as np
import holopy as hp
from holopy.core.metadata import data_grid
from holopy.core.io import save_image
print(hp.__file__)
d = tempfile.mkdtemp()
rng = np.random.default_rng(0)
# camera counts between 20 and 200, stored unscaled in an 8 bit file
counts = data_grid((rng.random((5, 7)) * 180 + 20).round(), spacing=0.1,
                   medium_index=1.33, illum_wavelen=0.66,
                   illum_polarization=(1, 0), name='counts')
bad = False
for depth, quantum in [(8, 1.0), (16, 255 / 32767), ('float', 1e-4)]:
    p = os.path.join(d, 'counts_%s.tif' % depth)
    save_image(p, counts, scaling=(0, 255), depth=depth)
    back = hp.load(p)
    err = float(np.abs(back.values - counts.values).max())
    print('depth', depth, ': saved range', float(counts.min()), float(counts.max()),
          '-> loaded range', float(back.min()), float(back.max()),
          '; max error', err, '(quantum %g)' % quantum)
    bad |= err > quantum
# control: scaling='auto' is within half a quantum
p = os.path.join(d, 'auto.tif')
save_image(p, counts); back = hp.load(p)
print('auto: max error', float(np.abs(back.values - counts.values).max()))
# variant with every option at its default: a z stack through hp.save -- only
# plane 0 is written, and on loading it is stretched to the range of the stack
import xarray as xr
plane = data_grid(rng.random((5, 7)) * 0.7 + 0.2, spacing=0.1, medium_index=1.33, name='st')
stack = xr.concat([plane, 3 * plane], 'z').assign_coords(z=[0., 1.])
stack.attrs = plane.attrs; stack.name = 'st'
p = os.path.join(d, 'stack.tif'); hp.save(p, stack); back = hp.load(p)
err = float(np.abs(back.values[0] - stack.values[0]).max())
print('z stack: plane 0 range', float(stack[0].min()), float(stack[0].max()), '-> loaded', back.shape,
      float(back.min()), float(back.max()), '; max error on plane 0', err)
bad |= err > (float(stack.max() - stack.min())) / 255
# variant scaling=None ("no scaling") on an image with max <= 1: counts are written, nothing undoes it
p = os.path.join(d, 'none.tif'); save_image(p, plane, scaling=None); back = hp.load(p)
print('scaling=None: range', float(plane.min()), float(plane.max()), '-> loaded', float(back.min()), float(back.max()))
bad |= not np.allclose(back.values, plane.values, atol=1 / 255)
sys.exit(1 if bad else 0)
