"""A constant image (e.g. an empty detector_grid, a flat background) saved as
TIFF comes back as all-NaN: display_image divides by max-min = 0 and load()
divides by the loaded image's max-min = 0."""
import sys, os; sys.path.insert(0, os.getcwd())
import warnings; warnings.simplefilter('ignore')
import tempfile
import numpy as np
import holopy as hp
from holopy.core.metadata import data_grid, detector_grid
print(hp.__file__)
d = tempfile.mkdtemp()
bad = False
for tag, im in [('flat 2.5', data_grid(np.full((4, 6), 2.5), spacing=0.1, medium_index=1.33, name='flat')),
                ('detector_grid zeros', detector_grid(4, 0.1, name='det')),
                ('uint8 ones', data_grid(np.ones((4, 6), dtype='uint8'), spacing=0.1, name='ones'))]:
    p = os.path.join(d, im.name + '.tif')
    hp.save(p, im)
    back = hp.load(p)
    print(tag, ': saved value', float(im.values.flat[0]), '-> loaded', np.unique(back.values),
          ' recorded _image_scaling', back.attrs.get('_image_scaling', 'n/a'))
    bad |= not np.allclose(back.values, im.values, equal_nan=False)
    # the same file through HDF5 is exact
    hp.save(p[:-4] + '.h5', im); assert np.array_equal(hp.load(p[:-4] + '.h5').values, im.values)
sys.exit(1 if bad else 0)
