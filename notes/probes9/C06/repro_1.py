"""C06 repro 1: theory='auto' is resolved on the scatterer BEFORE the per-channel
values are selected.  A cluster with a per-channel radius (dictionary or labelled
array) looks 'coated' to _choose_mie_vs_multisphere (np.isscalar(dict) is False),
so the multi-channel calculation silently (misleading warning) uses Mie
superposition, while each single-channel calculation of the same cluster uses
Multisphere.  multi-channel != stacked single-channel."""
import sys, os; sys.path.insert(0, os.getcwd())
import warnings
import numpy as np, xarray as xr
from holopy.scattering import Sphere, Spheres, Mie, Multisphere, calc_holo
from holopy.scattering.interface import determine_default_theory_for
from holopy.core.metadata import detector_grid

det = detector_grid([6, 5], [0.1, 0.13])
detc = detector_grid([6, 5], [0.1, 0.13],
                     extra_dims={'illumination': ['red', 'green']})
wl = {'red': 0.66, 'green': 0.52}
pol = {'red': (1, 0), 'green': (1, 1)}
r_dict = {'red': 0.55, 'green': 0.5}
r_arr = xr.DataArray([0.55, 0.5], dims='illumination',
                     coords={'illumination': ['red', 'green']})


def cluster(r):
    return Spheres([Sphere(n=1.59, r=r, center=(0.3, 0.2, 5)),
                    Sphere(n=1.5, r=0.4, center=(0.3, 1.3, 5.2))])

bad = False
for label, r in [('dict', r_dict), ('labelled array', r_arr)]:
    with warnings.catch_warnings(record=True) as w:
        warnings.simplefilter('always')
        multi = calc_holo(detc, cluster(r), 1.33, wl, pol)       # theory='auto'
    print(label, '-> warnings:', [str(x.message) for x in w])
    print(label, '-> theory chosen for the multi-channel scatterer:',
          type(determine_default_theory_for(cluster(r))).__name__)
    for c in wl:
        rc = r_dict[c]
        single = calc_holo(det, cluster(rc), 1.33, wl[c], pol[c])  # 'auto'
        print('   theory chosen for channel', c, ':',
              type(determine_default_theory_for(cluster(rc))).__name__)
        d_auto = float(abs(multi.sel(illumination=c) - single).max())
        multi_ms = calc_holo(detc, cluster(r), 1.33, wl, pol, theory=Multisphere())
        d_ms = float(abs(multi_ms.sel(illumination=c) - single).max())
        print('   channel', c, ': |multi(auto) - single(auto)| =', d_auto,
              '; |multi(Multisphere) - single(auto)| =', d_ms)
        if d_auto > 1e-6:
            bad = True
print('VIOLATION' if bad else 'ok')
sys.exit(1 if bad else 0)
