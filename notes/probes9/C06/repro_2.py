"""C06 repro 2 (low interest: crash, not a silent wrong value).
calc_scat_matrix and calc_cross_sections document 'If illum_wavelen is an array
result will add a dimension and have all wavelengths', but neither has a
multi-channel path: calc_scat_matrix dies in prep_schema on
`illumination in illum_polarization.dims` with illum_polarization False, and
calc_cross_sections multiplies the radii by the array of wavevectors (the
wavelengths are taken for layers)."""
import sys, os; sys.path.insert(0, os.getcwd())
import numpy as np
from holopy.scattering import Sphere, Mie, calc_scat_matrix, calc_cross_sections
from holopy.core.metadata import detector_points
pts = detector_points(theta=np.linspace(0, np.pi, 5), phi=0.3)
s = Sphere(n=1.59, r=0.5, center=(0, 0, 0))
bad = False
try:
    m = calc_scat_matrix(pts, s, 1.33, [0.66, 0.52], theory=Mie())
    print('calc_scat_matrix dims', m.dims)
except Exception as e:
    bad = True
    print('calc_scat_matrix with two wavelengths:', type(e).__name__, e)
try:
    c = calc_cross_sections(s, 1.33, np.array([0.66, 0.52]), (1, 0))
    print('calc_cross_sections', c.shape)
except Exception as e:
    bad = True
    print('calc_cross_sections with two wavelengths:', type(e).__name__,
          str(e).replace('\n', ' '))
sys.exit(1 if bad else 0)
