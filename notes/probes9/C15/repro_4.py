"""C15 repro 4: complex numbers. np.complex128 is written by holopy's own
'!complex' representer, but read back as a Python complex, which PyYAML writes
differently ('!!python/complex'): (a) the text of the second save differs from
the first; (b) Python complex values take PyYAML's path, which drops the sign of
a zero imaginary part and writes an unreadable file for a NaN imaginary part,
while the same values as np.complex128 survive."""
import sys, os; sys.path.insert(0, os.getcwd())
import io, warnings
warnings.simplefilter('ignore')
import numpy as np
import holopy as hp
from holopy.scattering import Sphere

def cycle(obj):
    stream = io.BytesIO(); hp.save(stream, obj); text = stream.getvalue().decode()
    stream.seek(0)
    return text, hp.load(stream)
bad = 0
s = Sphere(n=np.complex128(1.5 + 0.1j), r=.5, center=[1, 2, 3])
t1, back = cycle(s)
t2, back2 = cycle(back)
print('first save :', t1.split('\n')[1]); print('second save:', t2.split('\n')[1])
if t1 != t2:
    bad += 1; print('-> text of the re-saved object differs')
for n in [complex(1.5, -0.0), complex(1.5, float('nan'))]:
    for value in (np.complex128(n), n):
        try:
            text, back = cycle(Sphere(n=value, r=.5, center=[1, 2, 3]))
            same = repr(complex(back.n)) == repr(complex(n))
            print(type(value).__name__, repr(n), '->', repr(back.n), 'same' if same else 'CHANGED')
            bad += not same
        except Exception as e:
            bad += 1
            print(type(value).__name__, repr(n), 'LOST:', type(e).__name__, e)
print('violations:', bad)
sys.exit(1 if bad else 0)
