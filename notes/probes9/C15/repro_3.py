"""C15 repro 3: a derived prior whose transformation is a NumPy function that
is not a ufunc (np.mean, np.linalg.norm, np.clip, np.real, np.dot ...) cannot be
saved: hp.save raises AttributeError("'str' object has no attribute
'__name__'") from inside PyYAML (only np.ufunc has a representer)."""
import sys, os; sys.path.insert(0, os.getcwd())
import io, warnings
warnings.simplefilter('ignore')
import numpy as np
import holopy as hp
from holopy.core.prior import Uniform, TransformedPrior
bad = 0
for func in [np.hypot, np.sqrt, np.mean, np.linalg.norm, np.clip, np.real, np.dot]:
    prior = TransformedPrior(func, [Uniform(1, 2), Uniform(1, 2)])
    stream = io.BytesIO()
    try:
        hp.save(stream, prior); stream.seek(0)
        back = hp.load(stream)
        print('ok   ', func.__name__, back.transformation is func)
    except Exception as e:
        bad += 1
        print('FAIL ', func.__name__, type(func).__name__, ':', type(e).__name__, str(e)[:80])
print('numpy', np.__version__, 'violations:', bad)
sys.exit(1 if bad else 0)
