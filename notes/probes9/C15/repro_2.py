"""C15 repro 2: a bound method (the '!method' representer/constructor of
serialize.py) is only readable again when the owning object is flat and its
text does not contain the letters 'of'."""
import sys, os; sys.path.insert(0, os.getcwd())
import io, warnings
warnings.simplefilter('ignore')
import numpy as np
import holopy as hp
from holopy.core.prior import Uniform, Gaussian, ComplexPrior, TransformedPrior

def cycle(obj):
    stream = io.BytesIO(); hp.save(stream, obj); text = stream.getvalue().decode()
    stream.seek(0)
    return text, hp.load(stream)

bad = 0
owners = {'flat owner (control)': Uniform(0, 1, name='a'),
          "owner whose name contains 'of'": Uniform(0, 1, name='offset'),
          'owner with a nested object': ComplexPrior(Uniform(1, 2), Uniform(0, 1))}
for label, owner in owners.items():
    derived = TransformedPrior(owner.lnprob, [Uniform(0, 1)])
    try:
        text, back = cycle(derived)
        same = back.transformation.__self__ == owner
        print('ok   ', label, same)
        bad += not same
    except Exception as e:
        bad += 1
        print('LOST ', label, ':', type(e).__name__, str(e).split('\n')[0][:100])
print('violations:', bad)
sys.exit(1 if bad else 0)
