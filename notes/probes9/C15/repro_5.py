"""C15 repro 5: dictionaries come back with their keys sorted (yaml.dump's
default sort_keys=True in serialize.save). A per-channel dictionary of priors
therefore returns in another order, and the model built from the reloaded
scatterer numbers its parameters differently (value-to-place mapping)."""
import sys, os; sys.path.insert(0, os.getcwd())
import io, warnings
warnings.simplefilter('ignore')
import numpy as np
import holopy as hp
from holopy.scattering import Sphere
from holopy.inference import AlphaModel
from holopy.core.prior import Uniform

s = Sphere(n={'red': Uniform(1.5, 1.6), 'green': Uniform(1.6, 1.7)},
           r=.5, center=[1, 2, 3])
stream = io.BytesIO(); hp.save(stream, s); stream.seek(0)
back = hp.load(stream)
print('keys before:', list(s.n), ' after:', list(back.n), ' == :', back == s)
m1 = AlphaModel(s, medium_index=1.33)
m2 = AlphaModel(back, medium_index=1.33)
print('parameter names before:', m1._parameter_names)
print('parameter names after :', m2._parameter_names)
values = [1.55, 1.65]
print('scatterer_from_parameters([1.55, 1.65]) before:', m1.scatterer_from_parameters(values).n)
try:
    print('scatterer_from_parameters([1.55, 1.65]) after :', m2.scatterer_from_parameters(values).n,
          ' lnprior', m1.lnprior(values), m2.lnprior(values))
except Exception as e:
    print(e)
bad = list(s.n) != list(back.n) or m1._parameter_names != m2._parameter_names
sys.exit(1 if bad else 0)
