"""C15 repro 1: NumPy scalars other than float64/int64/int32/complex128 (float32,
bool_, uint32, int16, ...) and 1-D arrays of such dtypes are written by hp.save
as '!!python/object/apply:numpy...scalar', which hp.load refuses: the object
is saved without complaint and the file cannot be read back."""
import sys, os; sys.path.insert(0, os.getcwd())
import io, warnings
warnings.simplefilter('ignore')
import numpy as np
import holopy as hp
from holopy.scattering import Sphere, LayeredSphere, Mie
from holopy.inference import NmpfitStrategy, EmceeStrategy
from holopy.core.prior import Uniform

cases = {
    'Sphere(r=np.float32)': Sphere(n=1.5, r=np.float32(.5), center=[1, 2, 3]),
    'Sphere(center=1-D float32 array)':
        Sphere(n=1.5, r=.5, center=np.array([1, 2, 3], dtype='f4')),
    'LayeredSphere(t=1-D float32 array)':
        LayeredSphere(n=[1.5, 1.6], t=np.array([.1, .2], dtype='f4'),
                      center=[1, 2, 3]),
    'Mie(compute_escat_radial=np.bool_ from a comparison)':
        Mie(compute_escat_radial=np.float64(3) > 2),
    'NmpfitStrategy(npixels=np.uint16)': NmpfitStrategy(npixels=np.uint16(100)),
    'EmceeStrategy(seed=np.uint32)': EmceeStrategy(seed=np.uint32(7)),
    'Uniform(0, 1) * np.float32(2)': Uniform(0, 1) * np.float32(2),
}
bad = 0
for label, obj in cases.items():
    stream = io.BytesIO()
    hp.save(stream, obj)            # succeeds silently
    stream.seek(0)
    try:
        back = hp.load(stream)
        print('ok   ', label, '->', back)
    except Exception as e:
        bad += 1
        print('LOST ', label, ':', type(e).__name__,
              str(e).split('\n')[0][:110])
# control: the same values as float64 / 2-D float32 array survive
ctrl = io.BytesIO(); hp.save(ctrl, EmceeStrategy(walker_initial_pos=np.ones((2, 2), dtype='f4'))); ctrl.seek(0)
print('control (2-D float32 array):', hp.load(ctrl).walker_initial_pos)
print('violations:', bad)
sys.exit(1 if bad else 0)
