import sys, os, subprocess
here = os.path.dirname(os.path.abspath(__file__))
rc = 0
for f in ('repro_1.py', 'repro_4.py', 'repro_5.py'):
    r = subprocess.call([sys.executable, os.path.join(here, f)]); print(f, 'rc', r); rc = rc or r
sys.exit(1 if rc else 0)
