# C11 repro 2: fixed values do not come back untouched: a centre (or any fixed
# sequence) given as a tuple is rebuilt as a list, so the scatterer a Model builds
# is not equal (HoloPyObject.__eq__) to the same scatterer built directly, although
# Scatterer.from_parameters(parameters) keeps the tuple.
import sys, os; sys.path.insert(0, os.getcwd())
import warnings; warnings.simplefilter('ignore')
from holopy.scattering import Sphere, Mie
from holopy.inference import AlphaModel
from holopy.core.prior import Uniform
from holopy.scattering.interface import validate_scatterer

s = Sphere(n=1.59, r=Uniform(.4, .6), center=(1, 2, 3))
m = AlphaModel(s, theory=Mie)
expected = Sphere(n=1.59, r=.5, center=(1, 2, 3))
got = m.initial_guess_scatterer
got2 = validate_scatterer(s)
print('model guess scatterer   :', got, ' == expected:', got == expected)
print('validate_scatterer      :', got2, ' == expected:', got2 == expected)
print('from_parameters directly:', expected.from_parameters(expected.parameters) == expected)
sys.exit(0 if (got == expected and got2 == expected) else 1)
