# C11 repro 3: a user-given prior name that contains ':' is silently replaced when
# the prior is shared between two members at the same site: the Mapper believes the
# stored name is the positional name '0:r' and "generalises" it to 'r'.
import sys, os; sys.path.insert(0, os.getcwd())
import warnings; warnings.simplefilter('ignore')
from holopy.scattering import Sphere, Spheres, Mie
from holopy.inference import AlphaModel
from holopy.core.prior import Uniform

p = Uniform(.4, .6, name='bead:r')
one = AlphaModel(Spheres([Sphere(n=1.5, r=p, center=(0, 0, 5)),
                          Sphere(n=1.5, r=.5, center=(2, 0, 5))]), theory=Mie)
two = AlphaModel(Spheres([Sphere(n=1.5, r=p, center=(0, 0, 5)),
                          Sphere(n=1.5, r=p, center=(2, 0, 5))]), theory=Mie)
print('used once :', list(one.parameters))
print('used twice:', list(two.parameters))
sys.exit(0 if list(two.parameters) == ['bead:r'] else 1)
