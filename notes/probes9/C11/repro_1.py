# C11 repro 1: a fixed value that is a 0-d numpy array (what `labelled.sel(...).values`
# returns) is treated as a sequence by the Mapper and by Model._create_dummy_scatterer:
# neither calc_holo nor a Model accepts the scatterer ("iteration over a 0-d array").
import sys, os; sys.path.insert(0, os.getcwd())
import warnings; warnings.simplefilter('ignore')
import numpy as np, xarray as xr
import holopy as hp
from holopy.scattering import Sphere, Mie, calc_holo
from holopy.inference import AlphaModel
from holopy.core.prior import Uniform
from holopy.scattering.interface import validate_scatterer

ns = xr.DataArray([1.58, 1.60], dims=['illumination'],
                  coords={'illumination': ['red', 'green']})
n0 = ns.sel(illumination='red').values          # 0-d ndarray, a legitimate "one number"
bad = 0
s_fixed = Sphere(n=n0, r=0.5, center=(1, 1, 5))
try:
    print('validate_scatterer:', validate_scatterer(s_fixed))
except TypeError as e:
    bad = 1; print('validate_scatterer (used by every calc_*) raised:', repr(e))
s = Sphere(n=n0, r=Uniform(.4, .6), center=(1, 1, 5))
try:
    m = AlphaModel(s, theory=Mie)
    print('model scatterer:', m.scatterer_from_parameters([.5]))
except TypeError as e:
    bad = 1; print('AlphaModel raised:', repr(e))
# the same number as a float is fine
m = AlphaModel(Sphere(n=float(n0), r=Uniform(.4, .6), center=(1, 1, 5)), theory=Mie)
print('with float(n):', m.scatterer_from_parameters([.5]))
sys.exit(bad)
