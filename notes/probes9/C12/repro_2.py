"""C12 (variant of the known 'per-channel noise given to the model as a
sequence'): the same happens when the noise is taken from the DATA.
update_metadata(noise_sd=[...]) stores a positional per-channel sequence
unchanged; Model._residuals divides the labelled residual image
(illumination, x, y, z) by it, and NumPy broadcasting pairs the sequence with
the LAST axis (z, length 1): the residual array becomes (3, 8, 7, 3) -- every
pixel of every channel is divided by all three noise levels -- and lnlike is
silently not the Gaussian log-density.  The dictionary form gives the right
answer."""
import sys, os; sys.path.insert(0, os.getcwd())
import warnings; warnings.filterwarnings('ignore')
import numpy as np
from holopy.scattering import Sphere, calc_holo
from holopy.inference import prior, AlphaModel
from holopy.core.metadata import detector_grid, update_metadata

labels = ['red', 'green', 'blue']
wl = {'red': 0.66, 'green': 0.52, 'blue': 0.45}
sd = [0.05, 0.1, 0.2]
det = detector_grid((8, 7), (0.1, 0.12), extra_dims={'illumination': labels})
det_seq = update_metadata(det, medium_index=1.33, illum_wavelen=wl,
                          illum_polarization=(1, 0), noise_sd=sd)
det_dict = update_metadata(det_seq, noise_sd=dict(zip(labels, sd)))
truth = calc_holo(det_seq, Sphere(n=1.59, r=0.5, center=(0.4, 0.45, 5)), scaling=0.8)
model = AlphaModel(Sphere(n=prior.Uniform(1.4, 1.7), r=0.5, center=(0.4, 0.45, 5)), alpha=0.8)

def expected(data):
    fw = calc_holo(data, Sphere(n=1.6, r=0.5, center=(0.4, 0.45, 5)), scaling=0.8)
    tot = 0
    for lab, s in zip(labels, sd):
        res = (fw - data).sel(illumination=lab).values
        tot += np.sum(-0.5*np.log(2*np.pi) - np.log(s) - 0.5*(res/s)**2)
    return tot
out = {}
for name, d in [('sequence', det_seq), ('dict', det_dict)]:
    data = truth.copy(); data.attrs = d.attrs
    res = model._residuals([1.6], data, model._find_noise([1.6], data))
    out[name] = model.lnlike([1.6], data)
    print(name, 'residual shape', res.shape, 'data shape', data.shape,
          'lnlike', out[name], 'expected', expected(data))
bad = abs(out['sequence'] - expected(truth)) > 1e-6
print('VIOLATION' if bad else 'ok')
sys.exit(1 if bad else 0)
