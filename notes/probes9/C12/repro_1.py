"""C12: lnprior must be -inf (and no hologram computed) when the parameter
values yield an invalid scatterer.  Negative sizes are refused by Sphere,
LayeredSphere, Spheroid, Ellipsoid and Cylinder (InvalidScatterer at
construction -> Model._lnprior returns -inf), but Capsule, Bisphere and the
Janus spheres accept them, so the model returns a finite prior/posterior and
calls the forward calculation for a particle of negative height/diameter/radius.
"""
import sys, os; sys.path.insert(0, os.getcwd())
import warnings; warnings.filterwarnings('ignore')
import numpy as np
import holopy
from holopy.scattering import Cylinder, Capsule, Bisphere, JanusSphere_Uniform
from holopy.scattering.scatterer import JanusSphere_Tapered
from holopy.scattering import Mie
from holopy.inference import prior, ExactModel
from holopy.core.metadata import detector_grid, update_metadata

det = update_metadata(detector_grid((4, 4), 0.1), medium_index=1.33,
                      illum_wavelen=0.66, illum_polarization=(1, 0),
                      noise_sd=0.1)
calls = [0]
def counting(detector, scatterer, **kw):
    calls[0] += 1
    return detector * 0 + 1.0

G = lambda mu: prior.Gaussian(mu, 1.0)   # support is the whole real line
cases = {
    'Cylinder d (reference, repaired)': Cylinder(n=1.5, d=G(.5), h=1., center=(1, 1, 5)),
    'Capsule h': Capsule(n=1.5, h=G(1.), d=0.5, center=(1, 1, 5)),
    'Capsule d': Capsule(n=1.5, h=1., d=G(.5), center=(1, 1, 5)),
    'Bisphere h': Bisphere(n=1.5, h=G(1.), d=0.5, center=(1, 1, 5)),
    'Bisphere d': Bisphere(n=1.5, h=1., d=G(.5), center=(1, 1, 5)),
    'JanusSphere_Uniform r': JanusSphere_Uniform(n=[1.5, 1.4], r=[G(.3), .5], center=(1, 1, 5)),
    'JanusSphere_Tapered r': JanusSphere_Tapered(n=[1.5, 1.4], r=[G(.3), .5], center=(1, 1, 5)),
}
bad = 0
for name, scat in cases.items():
    m = ExactModel(scat, calc_func=counting, theory=Mie())
    calls[0] = 0
    lp = m.lnprior([-0.1])
    post = m.lnposterior([-0.1], det)
    viol = not (lp == -np.inf and post == -np.inf and calls[0] == 0)
    print('%-34s value -0.1: lnprior %8.4f lnposterior %10.4f forward calls %d %s'
          % (name, lp, post, calls[0], 'VIOLATION' if viol else 'ok'))
    bad += viol and 'reference' not in name
print('violations:', bad)
sys.exit(1 if bad else 0)
