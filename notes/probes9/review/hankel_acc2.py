import sys, os
sys.path.insert(0, os.getcwd())
sys.path.insert(0, '/tmp/review_out/H')
import numpy as np
from scipy.special import spherical_jn
from scipy.optimize import brentq
from hankel_acc import relerr
xs = []
g = np.linspace(0.5, 59.9, 60000)
for n in range(0, 12):
    fv = spherical_jn(n, g)
    xs += [brentq(lambda x: spherical_jn(n, x), g[i], g[i+1], xtol=1e-15) for i in range(len(g)-1) if fv[i]*fv[i+1] < 0]
rng = np.random.default_rng(1)
xs += list(rng.uniform(0.01, 60, 1500))
rows = []
for x in xs:
    ns = int(round(x + 4.*x**.3333 + 17))
    nn = min(int(x) + 9, ns - 1)
    e = relerr(nn, float(x))
    rows.append((e.max(), x, nn, e.argmax()))
rows.sort(reverse=True)
for r in rows[:6]:
    print("scaled err %.3e  x=%.17g n=%d order=%d" % r)
sys.exit(1 if rows[0][0] > 1e-12 else 0)
