import sys, os
sys.path.insert(0, os.getcwd())
import numpy as np
from decimal import Decimal, getcontext
getcontext().prec = 120
from holopy.scattering.theory.mie_f import scsmfo_min

def psi_exact(n, xd):
    # psi_n(x) = x^{n+1} sum_k (-1)^k (x^2/2)^k / (k! (2n+2k+1)!!)
    x = Decimal(xd)  # exact conversion of the double
    h = x * x / 2
    # (2n+1)!!
    df = Decimal(1)
    for j in range(1, 2 * n + 2, 2):
        df *= j
    term = Decimal(1) / df
    s = term
    k = 0
    while True:
        k += 1
        term = -term * h / (k * (2 * n + 2 * k + 1))
        s += term
        if abs(term) < Decimal(10) ** (-110) * max(abs(s), Decimal(10)**-300) and k > 5:
            break
        if k > 2000:
            break
    return s * x ** (n + 1)

def hank(n, x):
    xi = np.zeros(n + 2, dtype=complex)
    scsmfo_min.hankel(n, x, xi)
    return xi[:n + 1]

def relerr(n, x):
    got = hank(n, x).real
    out = []
    for i in range(n + 1):
        ex = psi_exact(i, x)
        g = Decimal(float(got[i]))
        out.append((g - ex, ex))
    res = []
    for i in range(n + 1):
        sc = max(abs(out[j][1]) for j in range(max(0, i-1), min(n, i+1)+1))
        res.append(float(abs(out[i][0]) / sc))
    return np.array(res)

if __name__ == '__main__':
    xs = list(np.logspace(-8, np.log10(60), 300))
    xs += [k * np.pi for k in range(1, 19)]
    xs += [np.nextafter(k*np.pi, 0) for k in range(1, 19)] + [np.nextafter(k*np.pi, 100) for k in range(1, 19)]
    # zeros of psi_1: tan x = x
    from scipy.optimize import brentq
    z1 = [brentq(lambda x: np.sin(x)/x - np.cos(x), (k+0.5)*np.pi - 1.4, (k+0.5)*np.pi - 1e-9) for k in range(1, 18)]
    xs += z1 + [4.4934094579090642]
    # branch switch |psi0| == |psi1|
    f = lambda x: abs(np.sin(x)) - abs(np.sin(x)/x - np.cos(x))
    g = np.linspace(0.5, 59, 200000)
    fv = f(g)
    sw = [brentq(f, g[i], g[i+1]) for i in range(len(g)-1) if fv[i]*fv[i+1] < 0]
    for s in sw:
        xs += [s, np.nextafter(s, 0), np.nextafter(s, 100), s*(1-1e-12), s*(1+1e-12)]
    worst = (0, None, None)
    rows = []
    for x in xs:
        n = int(x) + 1 + 8   # backward branch requires int(x) < n
        ns = int(round(x + 4.*x**.3333 + 17))
        for nn in sorted(set((int(x) + 1, min(n, ns - 1)))):
            e = relerr(nn, float(x))
            # ignore first entry psi_0 (sin) ; report max over orders
            m = e.max(); im = e.argmax()
            rows.append((m, x, nn, im))
    rows.sort(reverse=True)
    for r in rows[:15]:
        print("relerr %.3e  x=%.17g n=%d order=%d" % r)
    print("n switch points", len(sw))
