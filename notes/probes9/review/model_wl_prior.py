import sys, os, warnings
sys.path.insert(0, os.getcwd())
warnings.simplefilter('ignore')
import numpy as np, xarray as xr
import holopy as hp
from holopy.scattering import Sphere, calc_holo
from holopy.core.metadata import detector_grid
from holopy.core import prior
from holopy.inference import AlphaModel, ExactModel
sph = Sphere(n=1.59, r=.5, center=(.4, .5, 5))
base = detector_grid(6, .1)
P = {'a': (1, 0), 'b': (1, 1)}
bad = 0
for labs in (['red', 'green'], [.52, .66], [.66, .52]):
    det = detector_grid(6, .1, extra_dims={'illumination': labs})
    pol = {labs[0]: P['a'], labs[1]: P['b']}
    for wl, wexp in (([prior.Uniform(.6, .7, guess=.66), .52], None),
               ({labs[0]: prior.Uniform(.6, .7, guess=.66), labs[1]: .52}, {labs[0]: .66, labs[1]: .52}),
               (prior.Uniform(.6, .7, guess=.66), {labs[0]: .66, labs[1]: .66})):
        if wexp is None:
            if isinstance(labs[0], str):
                wexp = {labs[0]: .66, labs[1]: .52}
            else:
                wexp = {.66: .66, .52: .52}
        try:
            m = ExactModel(sph, calc_holo, noise_sd=.1, medium_index=1.33, illum_wavelen=wl, illum_polarization=pol)
            h = m.forward(m.initial_guess, det)
            ok = all(np.allclose(h.sel(illumination=l).values.squeeze(),
                                 calc_holo(base, sph, 1.33, wexp[l], pol[l]).values.squeeze()) for l in labs)
            print(labs, type(wl).__name__, 'ok' if ok else 'BAD')
            bad += not ok
        except Exception as e:
            print(labs, type(wl).__name__, 'RAISES', type(e).__name__, str(e)[:100]); bad += 1
sys.exit(1 if bad else 0)
