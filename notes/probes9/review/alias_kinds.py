import sys, os, warnings, enum, datetime
sys.path.insert(0, os.getcwd())
import numpy as np, yaml
from decimal import Decimal
from fractions import Fraction
import holopy as hp
from holopy.core.holopy_object import FullLoader
from holopy.scattering import Sphere
class Colour(enum.Enum):
    RED = 1
class IColour(enum.IntEnum):
    RED = 1
vals = {'np.str_': np.str_('abc'), 'np.bool_': np.bool_(True), 'np.datetime64': np.datetime64('2020-01-01'),
        'np.timedelta64': np.timedelta64(3, 's'),
        '0d float': np.array(1.5), '0d int': np.array(3), '0d complex': np.array(1 + 2j),
        'Decimal': Decimal('1.5'), 'Fraction': Fraction(1, 3), 'enum': Colour.RED, 'intenum': IColour.RED,
        'bytes': b'abc', 'np.bytes_': np.bytes_(b'abc'), 'np.int64': np.int64(3), 'np.int32': np.int32(3), 'np.int16': np.int16(3), 'np.uint8': np.uint8(3),
        'np.float32': np.float32(1.5), 'np.float16': np.float16(1.5), 'np.longdouble': np.longdouble(1.5),
        'complex': 1 + 2j, 'np.complex128': np.complex128(1 + 2j), 'np.complex64': np.complex64(1 + 2j),
        'np.void': np.void(b'ab'), 'date': datetime.date(2020, 1, 1), 'big int': 10**30, 'float': 1.5e-300, 'inf': float('inf'), 'nan': float('nan'),
        'np.nan': np.float64('nan'), 'structured': np.array([(1, 2.)], dtype=[('a', int), ('b', float)])[0]}
for k, v in vals.items():
    out = []
    for container in ('list', 'sphere'):
        obj = [v, v, {'a': v}] if container == 'list' else Sphere(n=v, r=v, center=(v, v, v))
        try:
            text = yaml.dump(obj)
        except Exception as e:
            out.append('%s DUMP RAISES %s' % (container, type(e).__name__)); continue
        anchors = '&id' in text
        try:
            back = yaml.load(text, Loader=FullLoader)
            first = back[0] if container == 'list' else back.r
            same = (first == v) if not (isinstance(v, float) and v != v) else True
            try: same = bool(np.all(same))
            except Exception: same = str(same)
            rt = 'rt=%s(%s)' % (same, type(first).__name__)
        except Exception as e:
            rt = 'LOAD RAISES %s: %s' % (type(e).__name__, str(e).replace('\n', ' ')[:70])
        out.append('%s anchors=%s %s lines=%d' % (container, anchors, rt, text.count('\n')))
    print('%-14s %s' % (k, ' || '.join(out)))
