# Polarisations keyed by wavelength, wavelengths as a plain list in another
# order, detector WITHOUT an illumination axis: channel .66 is computed at .52.
import sys, os, warnings
sys.path.insert(0, os.getcwd()); warnings.simplefilter('ignore')
import numpy as np, xarray as xr
from holopy.scattering import Sphere, calc_holo
from holopy.core.metadata import detector_grid
sph = Sphere(n=1.59, r=.5, center=(.4, .5, 5))
det = detector_grid(6, .1)
pol = xr.DataArray([[1, 0, 0], [0, 1, 0]], dims=['illumination', 'vector'],
                   coords={'illumination': [.66, .52], 'vector': ['x', 'y', 'z']})
h = calc_holo(det, sph, 1.33, [.52, .66], pol)
bad = False
for lab, p in ((.66, (1, 0)), (.52, (0, 1))):
    ref = calc_holo(det, sph, 1.33, lab, p).values.squeeze()
    ok = np.allclose(h.sel(illumination=lab).values.squeeze(), ref)
    print('channel', lab, 'computed at its own wavelength:', ok)
    bad = bad or not ok
sys.exit(1 if bad else 0)
