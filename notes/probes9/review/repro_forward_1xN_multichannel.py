# FitResult.hologram of a pixel-subset fit on a ONE-ROW multi-channel image still raises
# (N x 1 multi-channel works). Exit 1 when the problem is present.
import sys, os, warnings
sys.path.insert(0, os.getcwd()); warnings.simplefilter('ignore')
import numpy as np
from holopy.scattering import Sphere
from holopy.inference import prior, AlphaModel, NmpfitStrategy
from holopy.inference.result import FitResult, UncertainValue
from holopy.core import detector_grid
from holopy.core.metadata import make_subset_data
U = prior.Uniform
m = AlphaModel(Sphere(n=1.59, r=U(.4,.6), center=(U(0,3), U(0,3), U(4,8))), alpha=U(.5,1),
               medium_index=1.33, illum_wavelen={'red':.66,'green':.52}, illum_polarization=(1,0), noise_sd=.1)
bad = 0
for label, sel in [('1 x 12', dict(x=[0])), ('12 x 1', dict(y=[0]))]:
    det = detector_grid((12, 12), .2, extra_dims={'illumination': ['red', 'green']}).isel(**sel)
    full = m.forward(m.initial_guess, det)
    sub = make_subset_data(full, pixels=6, seed=1)
    iv = [UncertainValue(m.initial_guess[n], .01, name=n) for n in m._parameter_names]
    res = FitResult(sub, m, NmpfitStrategy(), 1., {'intervals': iv})
    try:
        h = res.hologram
        print(label, 'multi-channel: ok', h.shape, float(abs(h.values - full.values).max()))
    except Exception as e:
        print(label, 'multi-channel: FAILS', type(e).__name__, e)
        bad = 1
sys.exit(bad)
