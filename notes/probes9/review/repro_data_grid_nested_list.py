"""data_grid accepted a nested list with more than one row before d7516b0 (len(arr) > 1 short-circuited,
np.expand_dims converts); now arr.ndim raises AttributeError.  Exits 1 when the problem is present."""
import sys, os, warnings
sys.path.insert(0, os.getcwd())
warnings.simplefilter('ignore')
from holopy.core.metadata import data_grid
try:
    out = data_grid([[1., 2.], [3., 4.]], spacing=1)
    print('ok', out.shape, out.dims); sys.exit(0)
except AttributeError as e:
    print('FAIL', e); sys.exit(1)
