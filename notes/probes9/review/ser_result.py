import sys, os, warnings, tempfile
sys.path.insert(0, os.getcwd())
import numpy as np, yaml
import holopy as hp
from holopy.core import prior
from holopy.core.metadata import detector_grid
from holopy.scattering import Sphere, calc_holo, Mie
from holopy.inference import LeastSquaresScipyStrategy, AlphaModel, ExactModel, NmpfitStrategy, TemperedStrategy, EmceeStrategy
from holopy.inference.result import FitResult

s = Sphere(n=1.59, r=prior.Uniform(.4, .6, guess=.5), center=(1, 1, prior.Uniform(4, 6, guess=5)))
det = detector_grid(8, .2)
data = calc_holo(det, Sphere(n=1.59, r=.5, center=(1, 1, 5)), 1.33, .66, (1, 0))
tmp = tempfile.mkdtemp()
bad = 0
def my_calc(*a, **k): return calc_holo(*a, **k)
for name, model in (('alpha', AlphaModel(s, alpha=.9, noise_sd=.1)),
                    ('exact', ExactModel(s, calc_holo, noise_sd=.1)),
                    ('exact_lambda', ExactModel(s, lambda *a, **k: calc_holo(*a, **k), noise_sd=.1)),
                    ('exact_mainfunc', ExactModel(s, my_calc, noise_sd=.1))):
    with warnings.catch_warnings(record=True) as w0:
        warnings.simplefilter('always')
        res = FitResult(data, model, TemperedStrategy(next_initial_dist=(lambda x, n: x)) if 'lambda' in name else EmceeStrategy(), 1.0, {'intervals': [hp.inference.result.UncertainValue(.5, .01, name='r'), hp.inference.result.UncertainValue(5, .1, name='center.2')]})
    path = os.path.join(tmp, name + '.h5')
    with warnings.catch_warnings(record=True) as w:
        warnings.simplefilter('always')
        hp.save(path, res)
    msgs = [str(x.message) for x in w if 'cannot be saved' in str(x.message)]
    with warnings.catch_warnings(record=True) as w2:
        warnings.simplefilter('always')
        back = hp.load(path)
    print(name, 'fit warnings:', len([x for x in w0 if 'cannot be saved' in str(x.message)]),
          'save warnings:', len(msgs), 'other save warnings:', [str(x.message)[:60] for x in w if 'cannot be saved' not in str(x.message)],
          'loaded calc_func:', getattr(back.model, 'calc_func', None) and back.model.calc_func.__name__,
          'model eq:', back.model == res.model)
    # yaml file of the model alone
    with warnings.catch_warnings(record=True) as w3:
        warnings.simplefilter('always')
        hp.save(os.path.join(tmp, name + '.yaml'), model)
    print('   model.yaml warnings', len([x for x in w3 if 'cannot be saved' in str(x.message)]))
