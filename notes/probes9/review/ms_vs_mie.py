import sys, os, warnings
sys.path.insert(0, os.getcwd()); warnings.simplefilter('ignore')
import numpy as np
from scipy.optimize import brentq
from holopy.scattering import Sphere, Spheres, Mie, Multisphere, calc_cross_sections, calc_holo
from holopy.core.metadata import detector_grid
xs = [1e-3, 1e-2, .1, .5, 1., 2., 2.04, 3., 5., 7.7252518369377068, 10., 14.066193912831473, 20., 23.519452498689006, 30., 39.244432361164193, 50.]
xs += [k * np.pi for k in range(1, 13)]
xs += [brentq(lambda x: np.sin(x)/x - np.cos(x), (k+.5)*np.pi - 1.4, (k+.5)*np.pi - 1e-9) for k in range(1, 13)]
f = lambda x: abs(np.sin(x)) - abs(np.sin(x)/x - np.cos(x))
g = np.linspace(.5, 40, 100000); fv = f(g)
sw = [brentq(f, g[i], g[i+1]) for i in range(len(g)-1) if fv[i]*fv[i+1] < 0]
xs += sw
med, wl = 1.33, .66
k = 2 * np.pi * med / wl
worst = []
for x in sorted(xs):
    r = x / k
    for n in (1.59, 1.2 + .05j):
        s = Sphere(n=n, r=r, center=(0, 0, 0))
        try:
            ms = calc_cross_sections(Spheres([s]), med, wl, (1, 0), theory=Multisphere()).values
            mi = calc_cross_sections(s, med, wl, (1, 0), theory=Mie()).values
            err = np.max(np.abs(ms[:3] - mi[:3]) / np.abs(mi[:3]).max())
        except Exception as e:
            err = np.inf; print('x=%r n=%r %s %s' % (x, n, type(e).__name__, str(e)[:60]))
        worst.append((err, x, n))
worst.sort(key=lambda t: -t[0])
print("max over x<30: %.2e" % max(w[0] for w in worst if w[1] < 30))
for w in [t for t in worst if t[1] < 36][:4]: print('rel diff %.2e  x=%.17g n=%s' % w)
# two spheres: hologram at separations kd = multiples of pi / zeros of psi_1 (trancoef uses hankel(r))
det = detector_grid(8, .3)
bad = max(w[0] for w in worst if w[1] < 30) > 1e-6
sys.exit(1 if bad else 0)
