import sys, os, warnings, operator, functools, tempfile, traceback
sys.path.insert(0, os.getcwd())
import numpy as np, yaml
import holopy as hp
from holopy.core import prior
from holopy.core.io import serialize
from holopy.core.holopy_object import FullLoader
from holopy.scattering import (Sphere, Spheres, Spheroid, Ellipsoid, Cylinder, Capsule, Bisphere,
    LayeredSphere, JanusSphere_Uniform, Mie, Multisphere, Tmatrix, DDA, calc_holo, calc_intensity, calc_field)
from holopy.scattering.theory import Lens, MieLens, AberratedMieLens
from holopy.scattering.scatterer import RigidCluster, Scatterers, Union, Difference, Intersection, Scatterer, Indicators
from holopy.scattering.imageformation import ImageFormation
from holopy.inference import (AlphaModel, ExactModel, CmaStrategy, EmceeStrategy, TemperedStrategy,
    NmpfitStrategy, LeastSquaresScipyStrategy)
from holopy.inference.model import LimitOverlaps
from holopy.inference.result import UncertainValue, FitResult, SamplingResult
from holopy.core.mapping import Mapper
from holopy.inference.emcee import sample_one_sigma_gaussian

def modfunc(x): return x
u = prior.Uniform(0, 1, guess=.5)
g = prior.Gaussian(1, .2)
s = Sphere(n=1.59, r=prior.Uniform(.4, .6), center=(1, 2, prior.Gaussian(5, 1)))
objs = {}
objs['uniform'] = u
objs['gauss_named'] = prior.Gaussian(1, .2, name='x')
objs['bgauss'] = prior.BoundedGaussian(1, .2, 0, 2)
objs['complexprior'] = prior.ComplexPrior(u, g)
objs['tp_ufunc'] = prior.TransformedPrior(np.sqrt, u)
objs['tp_ufunc2'] = prior.TransformedPrior(np.add, [u, g])
objs['tp_arith'] = u + g * 2
objs['tp_neg'] = -u
objs['tp_div'] = 1 / (u + 1)
objs['tp_operator'] = prior.TransformedPrior(operator.add, [u, g])
objs['tp_builtin'] = prior.TransformedPrior(abs, u)
objs['tp_npfunc'] = prior.TransformedPrior(np.mean, [u, g])
objs['tp_lambda'] = prior.TransformedPrior(lambda x: x + 1, u)
objs['tp_mainfunc'] = prior.TransformedPrior(modfunc, u)
objs['tp_partial'] = prior.TransformedPrior(functools.partial(np.power, 2), u)
objs['tp_modfunc'] = prior.TransformedPrior(sample_one_sigma_gaussian, u)
objs['sphere'] = s
objs['sphere_complex'] = Sphere(n=1.5 + .1j, r=np.float64(.5), center=np.array([1, 2, 3]))
objs['sphere_npint'] = Sphere(n=1.5, r=np.int64(1), center=(np.int64(1), np.int64(1), np.int64(1)))
objs['layered'] = LayeredSphere(n=(1.5, 1.4), t=(.3, .1), center=(1, 2, 3))
objs['spheres'] = Spheres([s, Sphere(n=1.5, r=.4, center=(3, 4, 5))])
objs['spheres_shared'] = Spheres([Sphere(n=u, r=.4, center=(0, 0, 5)), Sphere(n=u, r=.4, center=(3, 4, 5))])
objs['spheroid'] = Spheroid(n=1.5, r=(.4, .6), rotation=(0, .1, .2), center=(1, 2, 3))
objs['ellipsoid'] = Ellipsoid(n=1.5, r=(.4, .6, .5), center=(1, 2, 3))
objs['cylinder'] = Cylinder(n=1.5, h=1, d=.5, center=(1, 2, 3))
objs['capsule'] = Capsule(n=1.5, h=1, d=.5, center=(1, 2, 3))
objs['bisphere'] = Bisphere(n=1.5, h=1, d=.5, center=(1, 2, 3))
objs['janus'] = JanusSphere_Uniform(n=(1.5, 1.4), r=(.4, .5), rotation=(0, 0, 0), center=(1, 2, 3))
objs['rigid'] = RigidCluster(Spheres([Sphere(n=1.5, r=.4, center=(0, 0, 0)), Sphere(n=1.5, r=.4, center=(1, 0, 0))]), translation=(1, 2, 3))
objs['union'] = Union(Sphere(n=1.5, r=.4, center=(0, 0, 5)), Sphere(n=1.5, r=.4, center=(.2, 0, 5)))
objs['difference'] = Difference(Sphere(n=1.5, r=.4, center=(0, 0, 5)), Sphere(n=1.5, r=.2, center=(.2, 0, 5)))
objs['mie'] = Mie(); objs['mie_opts'] = Mie(False, False)
objs['multisphere'] = Multisphere(niter=100)
objs['tmatrix'] = Tmatrix()
objs['lens'] = Lens(.8, Mie()); objs['mielens'] = MieLens(.7); objs['abmielens'] = AberratedMieLens(.1, .7)
objs['imageformation'] = ImageFormation(Mie())
objs['cma'] = CmaStrategy(popsize=10); objs['emcee'] = EmceeStrategy(nwalkers=10, nsamples=5)
objs['tempered'] = TemperedStrategy()
objs['tempered_lambda'] = TemperedStrategy(next_initial_dist=lambda x, n: x)
objs['tempered_main'] = TemperedStrategy(next_initial_dist=modfunc)
objs['nmpfit'] = NmpfitStrategy(npixels=100); objs['lsq'] = LeastSquaresScipyStrategy()
objs['limit'] = LimitOverlaps(.2)
objs['uv'] = UncertainValue(1., .1, .2, 'x')
objs['alpha'] = AlphaModel(s, alpha=prior.Uniform(.5, 1), noise_sd=.1, medium_index=1.33, illum_wavelen=.66, illum_polarization=(1, 0))
objs['alpha_constr'] = AlphaModel(objs['spheres'], alpha=.8, noise_sd=.1, medium_index=1.33, illum_wavelen=.66, illum_polarization=(1, 0), constraints=LimitOverlaps(.1), theory=Multisphere())
objs['exact'] = ExactModel(s, calc_holo, noise_sd=.1, medium_index=1.33, illum_wavelen=.66, illum_polarization=(1, 0))
objs['exact_intensity'] = ExactModel(s, calc_intensity, noise_sd=.1)
objs['exact_lambda'] = ExactModel(s, lambda *a, **k: calc_holo(*a, **k), noise_sd=.1)
objs['exact_main'] = ExactModel(s, modfunc, noise_sd=.1)
class Sub(AlphaModel): pass
class KwModel(ExactModel):
    def __init__(self, scatterer, *, calc_func=calc_holo, noise_sd=None):
        super().__init__(scatterer, calc_func=calc_func, noise_sd=noise_sd)
class KwargsSphere(Sphere):
    def __init__(self, *args, **kwargs):
        super().__init__(*args, **kwargs)
class NoInitSphere(Sphere): pass
class Hook(HoloPy := hp.core.holopy_object.HoloPyObject):
    def __init__(self, scale, hook=None, *, post=None):
        self.scale = scale; self.hook = hook; self.post = post
class ReqKw(hp.core.holopy_object.HoloPyObject):
    def __init__(self, a, *, f):
        self.a = a; self.f = f
objs['submodel'] = Sub(s, alpha=.7, noise_sd=.1)
objs['kwmodel'] = KwModel(s, calc_func=calc_intensity, noise_sd=.1)
objs['kwmodel_lambda'] = KwModel(s, calc_func=lambda *a: 1, noise_sd=.1)
objs['kwargs_sphere'] = KwargsSphere(n=1.5, r=.5, center=(1, 2, 3))
objs['noinit_sphere'] = NoInitSphere(n=1.5, r=.5, center=(1, 2, 3))
objs['hook_plain'] = Hook(1, hook=np.sqrt, post=sample_one_sigma_gaussian)
objs['hook_lambda'] = Hook(1, hook=lambda x: x, post=lambda y: y)
objs['reqkw_lambda'] = ReqKw(1, f=lambda x: x)
objs['list_shared'] = [u, u, {'a': u}]
objs['mapper'] = Mapper()

outdir = sys.argv[1]
os.makedirs(outdir, exist_ok=True)
for name, o in objs.items():
    with warnings.catch_warnings(record=True) as w:
        warnings.simplefilter('always')
        try:
            text = yaml.dump(o)
        except Exception as e:
            text = 'DUMP RAISES %s: %s\n' % (type(e).__name__, str(e)[:100])
    status = ['nwarn=%d' % len(w)] + [str(x.message)[:90] for x in w]
    if not text.startswith('DUMP RAISES'):
        try:
            with warnings.catch_warnings():
                warnings.simplefilter('ignore')
                back = yaml.load(text, Loader=FullLoader)
            status.append('eq=%s' % (back == o))
            status.append('retext_same=%s' % (yaml.dump(back) == text)) if not w else None
        except Exception as e:
            status.append('LOAD RAISES %s: %s' % (type(e).__name__, str(e)[:80]))
    try:
        r = repr(o)[:3000]
    except Exception as e:
        r = 'REPR RAISES %s' % e
    import re
    r = re.sub(r'0x[0-9a-f]+', '0x', r); text = re.sub(r'0x[0-9a-f]+', '0x', text)
    open(os.path.join(outdir, name + '.txt'), 'w').write(text + '\n--- repr\n' + r + '\n')
    print('%-18s %s' % (name, ' | '.join(status)))
