import sys, os
sys.path.insert(0, os.getcwd())
import numpy as np
from holopy.core import prior
u = prior.Uniform(0, 1); g = prior.Gaussian(0, 1)
ps = {'u+1': u + 1, '2*u+g': 2 * u + g, 'complex': prior.ComplexPrior(u, .1), 'complex2': prior.ComplexPrior(1.5, g),
      'arrconst': prior.TransformedPrior(lambda a, b: a * np.sum(b), [u, np.array([1., 2.])]),
      'nested': (u + 1) * (u + 1) - u, 'sqrt': prior.TransformedPrior(np.sqrt, u), 'neg': -u, 'bg': prior.BoundedGaussian(0, 1, -1, 1) + 1}
for size in (None, 4, (4,), [4], np.int64(4), (2, 3), 0, (), 1, (1,), np.array([4]), 4.0):
    row = []
    for k, p in ps.items():
        try:
            s = p.sample(size)
            row.append('%s:%s' % (k, np.shape(s)))
        except Exception as e:
            row.append('%s:%s(%s)' % (k, type(e).__name__, str(e)[:30]))
    print(repr(size), ' '.join(row))
