# center_find on SQUARE pixels whose x and y coordinates start at different offsets (any cropped
# image): np.diff(x)[0] and np.diff(y)[0] differ in the last bits, the weight is 1 +- 4e-16 and not 1.
# Counts how often the result differs from the pre-fix code. Exit 1 if any differ.
import sys, os, warnings, importlib.util
sys.path.insert(0, os.getcwd()); warnings.simplefilter('ignore')
import numpy as np, xarray as xr
import holopy as hp
from holopy.core.process import centerfinder as new
from holopy.core.io import get_example_data
def old_center_find(image, centers=1, threshold=.5, blursize=3.):
    # the function as it was before the commit
    from copy import copy
    from scipy.ndimage import gaussian_filter
    image = copy(image)
    image = image.isel({dim: 0 for dim in image.dims if dim not in ('x', 'y')})
    image = image.transpose('x', 'y')
    if blursize > 0:
        image.values = gaussian_filter(image.values, blursize)
    col_deriv, row_deriv = new.image_gradient(image)
    res = new.hough(col_deriv, row_deriv, centers, threshold)
    return res[0] if centers == 1 else res
ex = get_example_data('image0001')
rs = np.random.RandomState(0)
ndiff = nweight = n = 0
worst = 0
for trial in range(200):
    i0, j0 = rs.randint(0, 40, 2)
    size = rs.randint(40, 60)
    im = ex.isel(x=slice(i0, i0+size), y=slice(j0, j0+size))
    sx, sy = np.diff(im.x.values)[0], np.diff(im.y.values)[0]
    n += 1
    nweight += (sy/sx)**2 != 1
    for thr in (.5, .25):
        a = new.center_find(im, threshold=thr); b = old_center_find(im, threshold=thr)
        if not np.array_equal(a, b):
            ndiff += 1; big = np.abs(a-b).max() > .2; worst = max(worst, np.abs(a-b).max())
            if ndiff <= 3 or big: print('crop', i0, j0, size, 'thr', thr, 'steps', repr(sx), repr(sy), 'new', a, 'old', b)
print('crops with weight != 1:', nweight, 'of', n, '; results differing from pre-fix:', ndiff, 'worst (pixels):', worst)
sys.exit(1 if ndiff else 0)
