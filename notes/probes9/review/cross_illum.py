import sys, os, itertools, warnings, traceback
sys.path.insert(0, os.getcwd())
warnings.simplefilter('ignore')
import numpy as np, xarray as xr
import holopy as hp
from holopy.scattering import Sphere, calc_holo, calc_field, calc_intensity
from holopy.core.metadata import detector_grid

WLS = {'a': .66, 'b': .52}          # the intended wavelength per logical channel a, b
POLS = {'a': (1, 0), 'b': (0, 1)}   # the intended polarisation
# extra check with non-orthogonal
POLS = {'a': (1, 0), 'b': (1, 1)}
sph = Sphere(n=1.59, r=.5, center=(.4, .5, 5))
base = detector_grid(6, .1)
ref = {c: calc_holo(base, sph, 1.33, WLS[c], POLS[c]).values.squeeze() for c in 'ab'}
refx = {(c, d): calc_holo(base, sph, 1.33, WLS[c], POLS[d]).values.squeeze() for c in 'ab' for d in 'ab'}

def which(arr):
    for k, v in refx.items():
        if np.allclose(arr, v, rtol=1e-9, atol=1e-12):
            return 'wl_%s/pol_%s' % k
    return '??'

# label kinds: mapping logical channel -> label; det order
LABELS = {
    'names': {'a': 'red', 'b': 'green'},
    'names_sortrev': {'a': 'zed', 'b': 'alpha'},
    'wl': {'a': .66, 'b': .52},
    'ints': {'a': 0, 'b': 1},
    'ints_rev': {'a': 1, 'b': 0},
}
problems = []
def run(desc, det, wl, pol, expect):
    # expect: dict label -> logical channel whose (wl, pol) must appear
    try:
        h = calc_holo(det, sph, 1.33, wl, pol)
    except Exception as e:
        print('%-90s RAISES %s: %s' % (desc, type(e).__name__, str(e)[:60]))
        problems.append((desc, 'raises'))
        return
    if 'illumination' not in h.dims:
        print('%-90s no illumination axis in the result' % desc)
        problems.append((desc, 'noaxis')); return
    out = []
    ok = True
    for lab in h.illumination.values:
        got = which(h.sel(illumination=lab).values.squeeze())
        lab_key = lab.item() if hasattr(lab, 'item') else lab
        want = 'wl_%s/pol_%s' % (expect[lab_key], expect[lab_key])
        out.append('%s:%s' % (lab, got))
        ok = ok and got == want
    print('%-90s %s %s' % (desc, 'ok ' if ok else 'BAD', ' '.join(out)))
    if not ok:
        problems.append((desc, out))

for dk, lab in LABELS.items():
  for det_order in ('ab', 'ba'):
    det = detector_grid(6, .1, extra_dims={'illumination': [lab[c] for c in det_order]})
    for detname, D in (('det[%s,%s]' % (dk, det_order), det), ('noaxis', base)):
      expect = {lab[c]: c for c in 'ab'}
      # polarisation forms
      for pol_order in ('ab', 'ba'):
        pforms = {}
        pforms['xr_' + pol_order] = xr.DataArray(
            [list(POLS[c]) + [0] for c in pol_order], dims=['illumination', 'vector'],
            coords={'illumination': [lab[c] for c in pol_order], 'vector': ['x', 'y', 'z']})
        if D is det:
            pforms['dict_' + pol_order] = {lab[c]: POLS[c] for c in pol_order}
        for pk, P in pforms.items():
          for wl_order in ('ab', 'ba'):
            wforms = {}
            wforms['xr_' + wl_order] = xr.DataArray(
                [WLS[c] for c in wl_order], dims='illumination',
                coords={'illumination': [lab[c] for c in wl_order]})
            if D is det:
                wforms['dict_' + wl_order] = {lab[c]: WLS[c] for c in wl_order}
            for wk, W in wforms.items():
                run('%s lab=%s pol=%s wl=%s' % (detname, dk, pk, wk), D, W, P, expect)
          # unlabelled wavelengths: positional in the detector's order if the
          # detector has the channels, by value when labels are wavelengths,
          # else in the polarisations' order
          for form in (list, np.array, tuple):
            if D is det:
                order = det_order
            else:
                order = pol_order
            W = form([WLS[c] for c in order])
            run('%s lab=%s pol=%s wl=%s(positional)' % (detname, dk, pk, form.__name__), D, W, P, expect)
            if dk == 'wl':
                rev = order[::-1]
                W = form([WLS[c] for c in rev])
                run('%s lab=%s pol=%s wl=%s(reversed, labels are wl)' % (detname, dk, pk, form.__name__), D, W, P, expect)

print()
print(len(problems), 'problems')
sys.exit(1 if problems else 0)
