# np.timedelta64 is a subclass of np.signedinteger, so the new np.integer multi-representer takes it
# and int(np.timedelta64(5, 's')) raises: hp.save now dies with TypeError in the middle of writing
# (before: a file was written, with PyYAML's generic object tag). Exit 1 when the TypeError is raised.
import sys, os, io, warnings
sys.path.insert(0, os.getcwd()); warnings.simplefilter('ignore')
import numpy as np, yaml
from holopy.core.io import serialize
from holopy.inference import NmpfitStrategy
for v in [np.timedelta64(5, 's'), np.timedelta64(5), np.datetime64('2020-01-01')]:
    try:
        print(repr(v), '->', yaml.dump({'t': v}, default_flow_style=True)[:60].replace('\n', ' '))
    except TypeError as e:
        print(repr(v), 'TypeError:', e); bad = 1
sys.exit(locals().get('bad', 0))
