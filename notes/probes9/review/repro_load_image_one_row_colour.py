"""load_image of a one-row / one-column colour raster still fails (commit d7516b0 says it is fixed).
load_image does arr[:, :, channel].squeeze(), which removes the length-1 ROW axis as well, so
data_grid receives (N, C) [or (N,) for one channel] and the new rank test cannot add the z axis.
Exits 1 when the problem is present."""
import sys, os, tempfile, warnings
sys.path.insert(0, os.getcwd())
warnings.simplefilter('ignore')
import numpy as np
from PIL import Image
from holopy.core.io import load_image
d = tempfile.mkdtemp()
bad = 0
for shape in [(1, 6, 3), (6, 1, 3), (1, 1, 3)]:
    arr = np.arange(np.prod(shape)).reshape(shape).astype(np.uint8)
    fn = os.path.join(d, 'c%dx%d.png' % shape[:2])
    Image.fromarray(arr, 'RGB').save(fn)
    for ch, want in [('all', (1,) + shape), ([0, 1], (1,) + shape[:2] + (2,)), (1, (1,) + shape[:2]), ([2], (1,) + shape[:2])]:
        try:
            im = load_image(fn, spacing=.1, channel=ch)
            ok = im.shape == want and np.array_equal(
                im.values[0], arr[:, :, range(3) if ch == 'all' else ch].reshape(want[1:]))
            msg = '%s %s' % (im.shape, im.dims)
        except Exception as e:
            ok = False; msg = '%s: %s' % (type(e).__name__, e)
        print(shape, 'channel=%s' % (ch,), 'OK' if ok else 'FAIL', msg)
        bad += not ok
sys.exit(1 if bad else 0)
