import sys, os, warnings
sys.path.insert(0, os.getcwd())
warnings.simplefilter('ignore')
import numpy as np, xarray as xr
import holopy as hp
from holopy.scattering import Sphere, calc_holo, calc_field, calc_intensity, calc_cross_sections, calc_scat_matrix
from holopy.core.metadata import detector_grid
from holopy.core import prior
sph = Sphere(n=1.59, r=.5, center=(.4, .5, 5))
base = detector_grid(6, .1)
P = {'a': (1, 0), 'b': (1, 1), 'c': (0, 1)}
def ref(w, p): return calc_holo(base, sph, 1.33, w, p).values.squeeze()
bad = 0
def check(desc, f, expect):
    global bad
    try:
        h = f()
    except Exception as e:
        print('%-70s RAISES %s: %s' % (desc, type(e).__name__, str(e)[:80])); bad += 1; return
    res = []
    ok = 'illumination' in h.dims and len(h.illumination) == len(expect)
    if ok:
        for lab, (w, p) in expect.items():
            good = np.allclose(h.sel(illumination=lab).values.squeeze(), ref(w, p), rtol=1e-9)
            res.append('%s:%s' % (lab, good)); ok = ok and good
    print('%-70s %s %s' % (desc, 'ok ' if ok else 'BAD', ' '.join(res) if res else h.dims))
    bad += (not ok)

for labs in (['red', 'green'], [.66, .52], [.52, .66], [0, 1], ['green', 'red']):
    det = detector_grid(6, .1, extra_dims={'illumination': labs})
    for D, dn in ((det, 'axis'), (base, 'noaxis')):
        for order in (labs, labs[::-1]):
            pol = xr.DataArray([list(P['a']) + [0], list(P['b']) + [0]], dims=['illumination', 'vector'],
                               coords={'illumination': order, 'vector': list('xyz')})
            exp = {order[0]: (.66, P['a']), order[1]: (.66, P['b'])}
            for wn, w in (('scalar', .66), ('[w]', [.66]), ('arr0d', np.array(.66)), ('arr1', np.array([.66])), ('np.float64', np.float64(.66))):
                check('single wl %s det=%s labs=%s pol=xr%s' % (wn, dn, labs, order), lambda: calc_holo(D, sph, 1.33, w, pol), exp)
            if D is det:
                pold = {order[0]: P['a'], order[1]: P['b']}
                for wn, w in (('scalar', .66), ('[w]', [.66])):
                    check('single wl %s det=%s labs=%s pol=dict%s' % (wn, dn, labs, order), lambda: calc_holo(D, sph, 1.33, w, pold), exp)
# wavelength metadata already in detector
det = detector_grid(6, .1, extra_dims={'illumination': ['red', 'green']})
d2 = hp.core.metadata.update_metadata(det, 1.33, .66, None)
check('wl in detector attrs, pol dict', lambda: calc_holo(d2, sph, illum_polarization={'red': P['a'], 'green': P['b']}), {'red': (.66, P['a']), 'green': (.66, P['b'])})
d3 = hp.core.metadata.update_metadata(det, 1.33, [.66, .52], None)
check('wl list in detector attrs, pol dict rev', lambda: calc_holo(d3, sph, illum_polarization={'green': P['b'], 'red': P['a']}), {'red': (.66, P['a']), 'green': (.52, P['b'])})
# three channels
det3 = detector_grid(6, .1, extra_dims={'illumination': ['r', 'g', 'b']})
check('3 ch names list wl', lambda: calc_holo(det3, sph, 1.33, [.66, .52, .45], {'r': P['a'], 'g': P['b'], 'b': P['c']}),
      {'r': (.66, P['a']), 'g': (.52, P['b']), 'b': (.45, P['c'])})
det3w = detector_grid(6, .1, extra_dims={'illumination': [.45, .52, .66]})
check('3 ch wl labels, list wl other order', lambda: calc_holo(det3w, sph, 1.33, [.66, .52, .45], {.66: P['a'], .52: P['b'], .45: P['c']}),
      {.66: (.66, P['a']), .52: (.52, P['b']), .45: (.45, P['c'])})
# labels are wavelengths only partly: detector [.52,.66], wavelengths [.66,.53]
detw = detector_grid(6, .1, extra_dims={'illumination': [.52, .66]})
check('det labelled [.52,.66], wl [.53,.66] positional', lambda: calc_holo(detw, sph, 1.33, [.53, .66], {.52: P['a'], .66: P['b']}),
      {.52: (.53, P['a']), .66: (.66, P['b'])})
# repeated wavelength with detector labelled by wavelength
check('det labelled [.52,.66], wl [.66,.66]', lambda: calc_holo(detw, sph, 1.33, [.66, .66], {.52: P['a'], .66: P['b']}),
      {.52: (.66, P['a']), .66: (.66, P['b'])})
# integer labelled, wavelengths accidentally equal labels?  labels [1, 2], wavelengths [2., 1.]
deti = detector_grid(6, .1, extra_dims={'illumination': [1, 2]})
check('det labelled [1,2], wl [2.,1.] (positional intended)', lambda: calc_holo(deti, sph, 1.33, [2., 1.], {1: P['a'], 2: P['b']}),
      {1: (2., P['a']), 2: (1., P['b'])})
print(bad, 'problems'); sys.exit(1 if bad else 0)
