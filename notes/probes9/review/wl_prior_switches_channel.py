# A fitted wavelength on a detector whose channels are labelled by wavelength:
# the channel a wavelength goes to depends on the VALUE the sampler tries.
import sys, os, warnings
sys.path.insert(0, os.getcwd())
warnings.simplefilter('ignore')
import numpy as np
from holopy.scattering import Sphere, calc_holo
from holopy.core.metadata import detector_grid
from holopy.core import prior
from holopy.inference import ExactModel
sph = Sphere(n=1.59, r=.5, center=(.4, .5, 5))
base = detector_grid(6, .1)
det = detector_grid(6, .1, extra_dims={'illumination': [.52, .66]})
pol = {.52: (1, 0), .66: (1, 1)}
m = ExactModel(sph, calc_holo, noise_sd=.1, medium_index=1.33,
               illum_wavelen=[prior.Uniform(.6, .7, guess=.66), .52],
               illum_polarization=pol)
name = m._parameter_names[0]
def channel_of_fitted(value):
    h = m.forward({name: value}, det)
    for lab in (.52, .66):
        if np.allclose(h.sel(illumination=lab).values.squeeze(),
                       calc_holo(base, sph, 1.33, value, pol[lab]).values.squeeze()):
            return lab
at_guess = channel_of_fitted(.66)
off_guess = channel_of_fitted(.66 + 1e-9)
print('fitted wavelength is used for channel', at_guess, 'at the guess and for channel', off_guess, 'next to it')
sys.exit(1 if at_guess != off_guess else 0)
