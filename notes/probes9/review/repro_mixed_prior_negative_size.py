# A negative size is refused only when EVERY size of the scatterer is a plain number: the sizes are
# compared in one np.array(...) < 0, which raises TypeError (swallowed) as soon as one slot holds a prior
# or None. Exit 1 when a scatterer with a fixed negative size is accepted.
import sys, os, warnings
sys.path.insert(0, os.getcwd()); warnings.simplefilter('ignore')
from holopy.scattering import Capsule, Bisphere, JanusSphere_Uniform, JanusSphere_Tapered, Spheroid
from holopy.scattering.errors import InvalidScatterer
from holopy.inference import prior
p = prior.Uniform(0, 1)
cases = {
 'Capsule(h=prior, d=-1)': lambda: Capsule(n=1.5, h=p, d=-1., center=(1, 2, 3)),
 'Capsule(h=-1, d=prior)': lambda: Capsule(n=1.5, h=-1., d=p, center=(1, 2, 3)),
 'Capsule(h=-1) (d left None)': lambda: Capsule(n=1.5, h=-1., center=(1, 2, 3)),
 'Bisphere(h=prior, d=-1)': lambda: Bisphere(n=1.5, h=p, d=-1., center=(1, 2, 3)),
 'JanusSphere_Uniform(r=(prior, -.6))': lambda: JanusSphere_Uniform(n=(1.5, 1.6), r=(p, -.6), center=(1, 2, 3)),
 'JanusSphere_Tapered(r=(prior, -.6))': lambda: JanusSphere_Tapered(n=(1.5, 1.6), r=(p, -.6), center=(1, 2, 3)),
 'Spheroid(r=(prior, -.6))  [same, older]': lambda: Spheroid(n=1.5, r=(p, -.6), center=(1, 2, 3)),
}
bad = 0
for name, f in cases.items():
    try:
        f(); print('ACCEPTED ', name); bad = 1
    except InvalidScatterer:
        print('refused  ', name)
sys.exit(bad)
