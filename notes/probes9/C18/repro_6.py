# Accumulator.mean() hands out its internal running array; the next push
# updates it in place, so a mean (or a std computed from it) obtained earlier
# changes behind the caller's back.
import sys, os; sys.path.insert(0, os.getcwd())
import warnings; warnings.simplefilter('ignore')
import numpy as np
from holopy.core.io.io import Accumulator
from holopy.core.metadata import data_grid

rng = np.random.default_rng(0)
ims = [data_grid(rng.random((4, 5)), spacing=0.1) for _ in range(3)]
acc = Accumulator()
acc.push(ims[0]); acc.push(ims[1])
m2 = acc.mean()
before = m2.values.copy()
acc.push(ims[2])
same = np.array_equal(m2.values, before)
print('mean of the first two images still what was returned:', same)
print('it now equals the mean of three:', np.allclose(m2.values, np.mean([i.values for i in ims], 0)))
sys.exit(0 if same else 1)
