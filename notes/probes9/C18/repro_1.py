# center_find assumes square pixels: on a detector whose x and y spacings
# differ (detector_grid(shape, (sx, sy)) is a documented input and
# make_center_priors multiplies the result by the per-axis spacing) the
# centre of a single-sphere hologram is missed by many pixels.
import sys, os; sys.path.insert(0, os.getcwd())
import warnings; warnings.simplefilter('ignore')
import numpy as np
from holopy.scattering import Sphere, calc_holo
from holopy.core.process import center_find
from holopy.core.metadata import detector_grid
from holopy.core.prior import make_center_priors

worst = 0
for sx, sy, shape, c in [(0.1, 0.1, (100, 100), (4.0, 4.0, 12.)),     # control
                         (0.1, 0.09, (100, 111), (4.0, 4.0, 12.)),
                         (0.1, 0.08, (100, 125), (6.0, 5.0, 12.)),
                         (0.1, 0.05, (100, 200), (6.0, 5.0, 12.))]:
    det = detector_grid(shape, (sx, sy))
    h = calc_holo(det, Sphere(n=1.59, r=0.8, center=c), medium_index=1.33,
                  illum_wavelen=0.66, illum_polarization=(1, 0))
    found = center_find(h)
    true = np.array([c[0] / sx, c[1] / sy])
    pri = make_center_priors(h)
    err = np.abs(found - true).max()
    print('spacing', (sx, sy), 'true px', np.round(true, 2), 'found px',
          np.round(found, 2), 'error px %.2f' % err,
          '| prior centre', round(float(pri[0].mu), 3), round(float(pri[1].mu), 3),
          'true', c[:2])
    if sx != sy:
        worst = max(worst, err)
print('worst error on non-square pixels: %.2f pixels' % worst)
sys.exit(1 if worst > 1 else 0)
