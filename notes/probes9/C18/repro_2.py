# make_center_priors ignores the detector's z: the z prior is always
# Uniform(0, n*extent) although particle z and detector z are both absolute
# coordinates (calc_holo depends on their difference only).
import sys, os; sys.path.insert(0, os.getcwd())
import warnings; warnings.simplefilter('ignore')
import numpy as np
from holopy.scattering import Sphere, calc_holo
from holopy.core.metadata import detector_grid
from holopy.core.prior import make_center_priors

kw = dict(medium_index=1.33, illum_wavelen=0.66, illum_polarization=(1, 0))
det0 = detector_grid(100, 0.1)
det100 = det0.assign_coords(z=[100.])
h0 = calc_holo(det0, Sphere(n=1.59, r=0.8, center=(3.7, 6.2, 12.)), **kw)
h100 = calc_holo(det100, Sphere(n=1.59, r=0.8, center=(3.7, 6.2, 112.)), **kw)
# (the scattered field depends on z_particle - z_detector only; the holograms
# still differ because of the known reference-wave-ignores-detector-z issue)
print('detector z:', h100.z.values, ' sphere z: 112  (12 beyond the detector)')
p = make_center_priors(h100)
print('x, y priors', float(p[0].mu), float(p[1].mu))
print('z prior', p[2].lower_bound, p[2].upper_bound, ' true z of the sphere: 112')
inside = p[2].lower_bound <= 112. <= p[2].upper_bound
print('true z inside the z prior:', inside, ' lnprob(112) =', p[2].lnprob(112.))
sys.exit(0 if inside else 1)
