# normalize: image.sum() skips NaN (xarray default skipna) while image.size
# counts every pixel, so an image with masked (NaN) pixels is normalised to
# mean N/(N-k) instead of 1, and normalising is not idempotent either way.
import sys, os; sys.path.insert(0, os.getcwd())
import warnings; warnings.simplefilter('ignore')
import numpy as np
from holopy.core.process import normalize
from holopy.core.metadata import data_grid

rng = np.random.default_rng(0)
im = data_grid(rng.random((5, 8)) + 0.5, spacing=0.1)
im[0, 1, 2] = np.nan; im[0, 3, 3] = np.nan; im[0, 4, 0] = np.nan; im[0, 2, 6] = np.nan
n = normalize(im)
print('mean of the normalised image (xarray, skipna):', float(n.mean()))
print('np.nanmean                                  :', np.nanmean(n.values), ' = 40/36 =', 40 / 36)
print('np.mean                                     :', np.mean(n.values))
ok = np.isclose(np.nanmean(n.values), 1) or np.isnan(n.values).all()
sys.exit(0 if ok else 1)
