# subimage: the docstring asks for a centre with "the same number of elements
# as the arr has dimensions", and the code accepts a shape of arr.ndim
# elements (assert len(shape) in (2, arr.ndim)), but both are read by
# POSITION as (x, y): on a HoloPy image (dims z, x, y) the z entry is taken for
# x and the x entry for y.  A wrong (here: empty / misplaced) region comes back
# silently.
import sys, os; sys.path.insert(0, os.getcwd())
import warnings; warnings.simplefilter('ignore')
import numpy as np
from holopy.core.process import subimage
from holopy.core.metadata import data_grid

im = data_grid(np.arange(120.).reshape(10, 12), spacing=0.1)
print('dims', im.dims)
good = subimage(im, (4, 6), (4, 6))
print('2-element centre/shape  ->', good.shape, good.x.values, good.y.values)
bad = 0
a = subimage(im, (0, 4, 6), 4)              # centre as documented: one per dim
print('3-element centre        ->', a.shape, a.x.values, a.y.values)
if a.shape != (1, 4, 4) or not np.array_equal(a.values, subimage(im, (4, 6), 4).values):
    bad += 1
b = subimage(im, (4, 6), (1, 4, 6))         # shape of arr.ndim elements: passes the assert
print('3-element shape         ->', b.shape, b.x.values, b.y.values)
if b.shape != good.shape:
    bad += 1
sys.exit(1 if bad else 0)
