# zero_filter treats every pixel <= 0 as dead (xr.where(image > 0, ...)),
# although it is documented to look for "pixels equal to 0"; through
# bg_correct a pixel whose background is darker than the dark field is
# silently replaced by the mean of its neighbours, so the result is not
# (raw - df) / (bg - df) there.
import sys, os; sys.path.insert(0, os.getcwd())
import warnings; warnings.simplefilter('ignore')
import numpy as np
from holopy.core.process import zero_filter, bg_correct
from holopy.core.metadata import data_grid

rng = np.random.default_rng(0)
mk = lambda: data_grid(rng.random((6, 7)) + 0.5, spacing=0.1)
im = mk()
im[0, 2, 3] = -0.2; im[0, 4, 1] = -1e-3    # e.g. dark-subtracted counts with read noise; no pixel is 0
f = zero_filter(im)
changed = int((f.values != im.values).sum())
print('zero_filter on an image without any zero changed', changed, 'of', im.size, 'pixels')
raw, bg, df = mk(), mk(), mk() * 0.1
bg[0, 2, 3] = 0.01; df[0, 2, 3] = 0.05
out = bg_correct(raw, bg, df)
expect = (raw.values - df.values) / (bg.values - df.values)
print('bg_correct at the pixel:', out.values[0, 2, 3], ' (raw-df)/(bg-df):', expect[0, 2, 3])
sys.exit(1 if changed or not np.allclose(out.values, expect) else 0)
