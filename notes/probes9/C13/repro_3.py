"""Fitting one plane selected from a colour stack (stack.sel(illumination=..)):
the per-channel wavelength in the metadata stays two-channel, the forward model
returns BOTH channels for the one-plane detector, the residual broadcasts the
plane against both, and the fit started at the generating parameters walks
away from them (silently)."""
import sys, os; sys.path.insert(0, os.getcwd())
import warnings; warnings.simplefilter('ignore')
import numpy as np
np.NaN = np.nan
import holopy as hp
from holopy.scattering import Sphere, calc_holo
from holopy.inference import prior, AlphaModel, NmpfitStrategy
from holopy.core.metadata import detector_grid, update_metadata

d = detector_grid(16, 0.1, extra_dims={'illumination': ['red', 'green']})
d = update_metadata(d, medium_index=1.33, illum_wavelen={'red': 0.66, 'green': 0.52},
                    illum_polarization=(1, 0), noise_sd=0.05)
stack = calc_holo(d, Sphere(n=1.58, r=0.5, center=(0.8, 0.9, 8.0)), scaling=0.8)
plane = stack.sel(illumination='red')
print('plane dims', plane.dims, 'scalar coord illumination =', plane.illumination.values)
sp = Sphere(n=1.58, r=prior.Uniform(0.3, 0.8, 0.5),
            center=[prior.Uniform(0, 3, 0.8), 0.9, prior.Uniform(4, 12, 8.0)])
model = AlphaModel(sp, alpha=prior.Uniform(0.5, 1, 0.8))
fwd = model.forward(model.initial_guess, plane)
print('forward model on the plane has dims', fwd.dims, fwd.shape)
res = hp.fit(plane, model, strategy=NmpfitStrategy())
print('started at the generating parameters', model.initial_guess)
print('returned                            ', res.parameters)
print('best-fit hologram shape', res.hologram.shape, 'data shape', plane.shape)
truth = np.array([0.5, 0.8, 8.0, 0.8])
bad = (not np.allclose(list(res.parameters.values()), truth, rtol=1e-4)
       or fwd.shape != plane.shape)
print('VIOLATION' if bad else 'ok')
sys.exit(1 if bad else 0)
