"""LeastSquaresScipyStrategy freezes its options in a private dict at
construction: options changed on the object afterwards are shown by repr /
written by hp.save but ignored by fit (NmpfitStrategy honours them)."""
import sys, os; sys.path.insert(0, os.getcwd())
import warnings; warnings.simplefilter('ignore')
import numpy as np
np.NaN = np.nan
import holopy as hp
from holopy.scattering import Sphere, calc_holo
from holopy.inference import prior, AlphaModel, NmpfitStrategy, LeastSquaresScipyStrategy
from holopy.core.metadata import detector_grid, update_metadata
U = prior.Uniform
d = update_metadata(detector_grid(14, 0.1), medium_index=1.33, illum_wavelen=0.66,
                    illum_polarization=(1, 0), noise_sd=0.05)
data = calc_holo(d, Sphere(n=1.59, r=0.5, center=(.7, .6, 8.)), scaling=.8)
model = AlphaModel(Sphere(n=1.59, r=U(.3, .8, .53), center=[U(0, 2, .75), .6, U(4, 12, 8.4)]),
                   alpha=U(.5, 1, .85))
late = LeastSquaresScipyStrategy(); late.max_nfev = 3
early = LeastSquaresScipyStrategy(max_nfev=3)
n_late = hp.fit(data, model, strategy=late).minimizer_info.nfev
n_early = hp.fit(data, model, strategy=early).minimizer_info.nfev
print('repr(late) :', repr(late)); print('repr(early):', repr(early), ' equal:', late == early)
print('function evaluations: set after construction', n_late, '; given to constructor', n_early)
nm = NmpfitStrategy(); nm.maxiter = 1
print('NmpfitStrategy maxiter=1 set after construction -> niter', hp.fit(data, model, strategy=nm).mpfit_details.niter)
bad = n_late != n_early
print('VIOLATION' if bad else 'ok'); sys.exit(1 if bad else 0)
