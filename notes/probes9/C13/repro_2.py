"""LeastSquaresScipyStrategy cannot fit multi-channel (colour) data that
NmpfitStrategy fits: its residual function returns the 2-D (illumination x
pixel) array un-flattened."""
import sys, os; sys.path.insert(0, os.getcwd())
import warnings; warnings.simplefilter('ignore')
import numpy as np
np.NaN = np.nan
import holopy as hp
from holopy.scattering import Sphere, calc_holo
from holopy.inference import prior, AlphaModel, NmpfitStrategy, LeastSquaresScipyStrategy
from holopy.core.metadata import detector_grid, update_metadata

d = detector_grid(12, 0.1, extra_dims={'illumination': ['red', 'green']})
d = update_metadata(d, medium_index=1.33, illum_wavelen={'red': 0.66, 'green': 0.52},
                    illum_polarization=(1, 0), noise_sd=0.05)
data = calc_holo(d, Sphere(n=1.58, r=0.5, center=(0.6, 0.5, 8.0)), scaling=0.8)
sp = Sphere(n=1.58, r=prior.Uniform(0.3, 0.8, 0.51),
            center=[prior.Uniform(0, 3, 0.62), 0.5, prior.Uniform(4, 12, 8.1)])
model = AlphaModel(sp, alpha=prior.Uniform(0.5, 1, 0.8))
bad = False
for strategy in [NmpfitStrategy(), LeastSquaresScipyStrategy(),
                 LeastSquaresScipyStrategy(npixels=60)]:
    try:
        res = hp.fit(data, model, strategy=strategy)
        print(type(strategy).__name__, 'ok', {k: round(v, 6) for k, v in res.parameters.items()})
    except Exception as e:
        print(type(strategy).__name__, 'npixels', strategy.npixels, 'FAILED:', type(e).__name__, e)
        bad = True
print('VIOLATION' if bad else 'ok')
sys.exit(1 if bad else 0)
