"""NmpfitStrategy.minimize keeps the parameters of the FIRST call: a second
call on the same strategy object with other parameters is unscaled/clamped
with the first call's priors and silently returns wrong values."""
import sys, os; sys.path.insert(0, os.getcwd())
import warnings; warnings.simplefilter('ignore')
import numpy as np
np.NaN = np.nan   # sandbox: numpy 2
from holopy.inference import prior, NmpfitStrategy

x = np.arange(-10, 10, .1)
def line_cost(a, b):
    y = a * x + b
    return lambda p: p[0] * x + p[1] - y

first = [prior.Uniform(-np.inf, np.inf, guess=5, name='a'),
         prior.Uniform(-np.inf, np.inf, guess=-2, name='b')]
second = [prior.Uniform(0, 100, guess=50, name='a'),
          prior.Uniform(0, 1000, guess=300, name='b')]

fresh, _ = NmpfitStrategy().minimize(second, line_cost(53., 310.))
reused = NmpfitStrategy()
reused.minimize(first, line_cost(5.3, -1.8))
stale, info = reused.minimize(second, line_cost(53., 310.))
print('fresh strategy :', [float(v) for v in fresh])
print('reused strategy:', [float(v) for v in stale], 'status', info.status)
print('strategy still holds _parameters of the first call:',
      getattr(reused, '_parameters', None) is first)
bad = not np.allclose(stale, [53., 310.], rtol=1e-6)
print('VIOLATION' if bad else 'ok')
sys.exit(1 if bad else 0)
