"""hp.fit(data, scatterer) (default model) with an absorbing sphere: the
default-model builder puts the complex index into a real Uniform prior."""
import sys, os; sys.path.insert(0, os.getcwd())
import warnings; warnings.simplefilter('ignore')
import numpy as np
np.NaN = np.nan
import holopy as hp
from holopy.scattering import Sphere, calc_holo
from holopy.core.metadata import detector_grid, update_metadata
d = update_metadata(detector_grid(14, 0.1), medium_index=1.33, illum_wavelen=0.66,
                    illum_polarization=(1, 0), noise_sd=0.05)
s = Sphere(n=1.59 + 0.01j, r=0.5, center=(.7, .6, 8.))
data = calc_holo(d, s, scaling=.75)
bad = False
for pars in [None, ['n', 'r']]:
    try:
        res = hp.fit(data, s, parameters=pars)
        print(pars, res.parameters)
    except Exception as e:
        bad = True; print('parameters =', pars, 'FAILED:', type(e).__name__, e)
print('parameters=["r","z"] works:', hp.fit(data, s, parameters=['r', 'z']).parameters)
print('VIOLATION' if bad else 'ok'); sys.exit(1 if bad else 0)
