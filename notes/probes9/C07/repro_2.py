# detector_grid / data_grid: one row of pixels combined with extra_dims (colour channels)
import sys, os; sys.path.insert(0, os.getcwd())
import warnings; warnings.filterwarnings('ignore')
import numpy as np
from holopy.core.metadata import detector_grid, data_grid
bad = 0
for shape in [(2, 5), (5, 1), (1, 5), (1, 1)]:
    try:
        d = detector_grid(shape, 0.1, extra_dims={'illumination': ['red', 'green', 'blue']})
        print(shape, 'ok', d.dims, d.shape)
    except Exception as e:
        print(shape, 'FAILED:', type(e).__name__, e)
        bad = 1
try:
    d = data_grid(np.zeros((1, 5, 3)), 0.1, extra_dims={'illumination': [0, 1, 2]})
except Exception as e:
    print('data_grid of a 1x5 colour image FAILED:', type(e).__name__, e); bad = 1
sys.exit(bad)
