# Model._residuals: forward - data is an inner join on channel labels; a model that covers
# fewer channels than the data drops the others from the residuals silently, while
# N = data.size in _lnlike still counts them
import sys, os; sys.path.insert(0, os.getcwd())
import warnings; warnings.filterwarnings('ignore')
import numpy as np, xarray as xr
np.NaN = np.nan
from holopy.core.metadata import detector_grid
from holopy.scattering import calc_holo, Sphere
from holopy.inference import AlphaModel
from holopy.core import prior
wl = {'red': 0.66, 'green': 0.52, 'blue': 0.45}
det = detector_grid((6, 5), 0.3, extra_dims={'illumination': ['red', 'green', 'blue']})
h = calc_holo(det, Sphere(n=1.59, r=0.5, center=(1, 1, 8.0)), 1.33, wl, (1, 0))
h.attrs['illum_wavelen'] = None
wl2 = xr.DataArray([0.66, 0.52], dims='illumination', coords={'illumination': ['red', 'green']})
model = AlphaModel(Sphere(n=1.59, r=prior.Uniform(0.3, 0.7, guess=0.45), center=(1, 1, 8.0)),
                   alpha=1, noise_sd=0.01, illum_wavelen=wl2, medium_index=1.33,
                   illum_polarization=(1, 0))
res = model._residuals([0.5], h, 0.01)
print('data has', h.size, 'values; residuals have', res.size)
spoiled = h.copy(); spoiled.loc[dict(illumination='blue')] += 5
a, b = model.lnlike([0.5], h), model.lnlike([0.5], spoiled)
print('lnlike', a, 'with the blue channel spoiled', b)
sys.exit(int(res.size != h.size and a == b))
