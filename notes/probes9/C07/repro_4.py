# normalize: image.sum() skips NaN pixels, image.size counts them
import sys, os; sys.path.insert(0, os.getcwd())
import warnings; warnings.filterwarnings('ignore')
import numpy as np
from holopy.core.metadata import detector_grid
from holopy.core.process import normalize
img = detector_grid(4, 0.1) + 2.0
img.values[0, 0, 0] = np.nan          # one dead pixel of 16
n = normalize(img)
print('mean of the valid pixels after normalize:', float(n.mean()), '(should be 1)')
sys.exit(int(abs(float(n.mean()) - 1) > 1e-12))
