# subimage: a region reaching over the border is returned empty / truncated without complaint,
# and a centre with one entry per axis of a (z, x, y) image (as the docstring asks) is paired
# with the wrong axes
import sys, os; sys.path.insert(0, os.getcwd())
import warnings; warnings.filterwarnings('ignore')
import numpy as np
from holopy.core.metadata import detector_grid
from holopy.core.process import subimage
img = detector_grid(20, 0.1)          # dims (z, x, y), shape (1, 20, 20)
img.values[:] = np.arange(400).reshape(1, 20, 20)
bad = 0
a = subimage(img, (2, 2), 10)
print('centre (2,2), shape 10 ->', a.shape, '(asked for 10 x 10)')
bad |= a.sizes['x'] != 10
a = subimage(img, (18, 18), 10)
print('centre (18,18), shape 10 ->', a.shape, '(asked for 10 x 10)')
bad |= a.sizes['x'] != 10
a = subimage(img, (0, 10, 12), (1, 4, 6))      # one entry per axis, as documented
b = subimage(img, (10, 12), (4, 6))
print('3-entry centre ->', a.shape, 'x', a.x.values, 'y', a.y.values)
print('2-entry centre ->', b.shape, 'x', b.x.values, 'y', b.y.values)
bad |= a.shape != b.shape
sys.exit(int(bad))
