# LeastSquaresScipyStrategy on a multi-channel hologram (NmpfitStrategy fits the same data)
import sys, os; sys.path.insert(0, os.getcwd())
import warnings; warnings.filterwarnings('ignore')
import numpy as np
np.NaN = np.nan
from holopy.core.metadata import detector_grid
from holopy.scattering import calc_holo, Sphere
from holopy.inference import AlphaModel, NmpfitStrategy, LeastSquaresScipyStrategy
from holopy.core import prior
wl = {'red': 0.66, 'green': 0.52}
det = detector_grid((12, 10), 0.3, extra_dims={'illumination': ['red', 'green']})
h = calc_holo(det, Sphere(n=1.59, r=0.5, center=(2.1, 1.3, 8.0)), 1.33, wl, (1, 0))
model = AlphaModel(Sphere(n=1.59, r=prior.Uniform(0.3, 0.7, guess=0.45), center=(2.1, 1.3, 8.0)),
                   alpha=1, noise_sd=0.01)
bad = 0
for strat in [NmpfitStrategy(npixels=40, seed=1), NmpfitStrategy(),
              LeastSquaresScipyStrategy(npixels=40), LeastSquaresScipyStrategy()]:
    try:
        res = strat.fit(model, h)
        print(type(strat).__name__, strat.npixels, 'r =', res.parameters['r'])
    except Exception as e:
        print(type(strat).__name__, strat.npixels, 'FAILED:', type(e).__name__, e)
        bad = 1
sys.exit(bad)
