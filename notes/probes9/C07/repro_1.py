# FitResult.hologram / FitResult.forward of a fit on a pixel subset of a 1xN (or Nx1) image
import sys, os; sys.path.insert(0, os.getcwd())
import warnings; warnings.filterwarnings('ignore')
import numpy as np
np.NaN = np.nan
from holopy.core.metadata import detector_grid, make_subset_data
from holopy.scattering import calc_holo, Sphere
from holopy.inference import AlphaModel, NmpfitStrategy
from holopy.inference.result import FitResult
from holopy.core import prior

bad = 0
for shape in [(6, 5), (1, 30), (30, 1)]:
    det = detector_grid(shape, 0.1)
    s = Sphere(n=1.59, r=0.5, center=(0.1, 1.3, 8.0))
    h = calc_holo(det, s, 1.33, 0.66, (1, 0))
    model = AlphaModel(Sphere(n=1.59, r=prior.Uniform(0.3, 0.7, guess=0.5),
                              center=(0.1, 1.3, 8.0)), alpha=1, noise_sd=0.01)
    sub = make_subset_data(h, 4, seed=1)      # what the subset strategies store
    res = FitResult(sub, model, NmpfitStrategy(npixels=4), 0.1,
                    {'intervals': [prior.Uniform(0.3, 0.7, guess=0.5, name='r')]})
    try:
        f = res.forward([0.5]).transpose(*h.dims)
        print(shape, 'forward ok, max deviation from the image', np.abs(f.values - h.values).max())
    except Exception as e:
        print(shape, 'forward FAILED:', type(e).__name__, e)
        bad = 1
sys.exit(bad)
