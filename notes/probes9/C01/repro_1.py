"""C01: a multi-channel result does not lie on the detector's channel axis:
the order of the `illumination` coordinate of calc_holo / calc_field /
calc_intensity follows the insertion order of the per-channel DICTIONARY
(illum_wavelen, or illum_polarization when the wavelength is a scalar), not
the order of the detector's channels.  Values are right by label, but
`result.values` and `detector.values` pair different channels by position.
Exit 1 when present."""
import sys, os; sys.path.insert(0, os.getcwd())
import warnings; warnings.filterwarnings('ignore')
import numpy as np
import holopy
from holopy.scattering import calc_holo, calc_field, calc_intensity, Sphere
from holopy.core.metadata import detector_grid
print(holopy.__file__)
det = detector_grid((3, 4), 0.1, extra_dims={'illumination': ['red', 'green']})
s = Sphere(n=1.59, r=0.5, center=(0.2, 0.3, 5))
bad = False
cases = {
  'wavelength dict (green first)': dict(illum_wavelen={'green': 0.52, 'red': 0.66}, illum_polarization=(1, 0)),
  'polarisation dict (green first), scalar wavelength': dict(illum_wavelen=0.66, illum_polarization={'green': (1, 0), 'red': (0, 1)}),
  'same dict in the detector order': dict(illum_wavelen={'red': 0.66, 'green': 0.52}, illum_polarization=(1, 0)),
  'positional list': dict(illum_wavelen=[0.66, 0.52], illum_polarization=(1, 0)),
}
for name, kw in cases.items():
    for f in (calc_holo, calc_field, calc_intensity):
        r = f(det, s, medium_index=1.33, **kw)
        same = list(r.illumination.values) == list(det.illumination.values)
        print('%-52s %-14s result channels %s  detector channels %s  %s' % (
            name, f.__name__, list(map(str, r.illumination.values)),
            list(map(str, det.illumination.values)), 'ok' if same else 'ORDER DIFFERS'))
        bad |= not same
# consequence: positional comparison with the detector / a second result
a = calc_holo(det, s, 1.33, {'green': 0.52, 'red': 0.66}, (1, 0)).transpose('illumination', 'x', 'y', 'z')
b = calc_holo(det, s, 1.33, {'red': 0.66, 'green': 0.52}, (1, 0)).transpose('illumination', 'x', 'y', 'z')
print('same physics, dictionaries written in another order: max |a.values - b.values| =',
      abs(a.values - b.values).max(), ' (by label: %g)' % abs(a - b).values.max())
sys.exit(1 if bad else 0)
