"""load_average crops with isel(np.around(refimg.x/spacing)): a reference image whose
coordinate origin was moved (negative coordinates) silently yields a wrapped-around
(scrambled) average that still carries refimg's coordinates."""
import sys, os; sys.path.insert(0, os.getcwd())
import warnings, tempfile
warnings.simplefilter('ignore')
import numpy as np
from PIL import Image
import holopy as hp
from holopy.core.io import load_average, load_image

d = tempfile.mkdtemp()
fns = []
arrs = []
for k in range(2):
    a = (np.arange(48).reshape(6, 8) + k).astype('uint8'); arrs.append(a.astype(float))
    f = os.path.join(d, 'bg%d.tif' % k); Image.fromarray(a).save(f); fns.append(f)
true_mean = np.mean(arrs, 0)
ref = load_image(fns[0], spacing=1.0, medium_index=1.33)
ref_centred = ref.assign_coords(x=ref.x - 3, y=ref.y - 4)    # same pixels, origin at the centre
m = load_average(fns, refimg=ref_centred)
print('x of result', m.x.values, ' y of result', m.y.values)
print('result\n', m.values[0]); print('true pixelwise mean\n', true_mean)
bad = not np.array_equal(m.values[0], true_mean)
print('VIOLATION: silently wrapped around' if bad else 'ok')
sys.exit(1 if bad else 0)
