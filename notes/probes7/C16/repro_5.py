"""User metadata whose key is 'name' or 'spacing' (also '_image_scaling', '_dummy_channel') is silently
dropped by an HDF5 save/load cycle (unpack_attrs ignores these keys for every format)."""
import sys, os; sys.path.insert(0, os.getcwd())
import warnings, tempfile
warnings.simplefilter('ignore')
import numpy as np
import holopy as hp
from holopy.core.metadata import data_grid
d = tempfile.mkdtemp()
g = data_grid(np.random.rand(4, 5), spacing=(0.1, .2), medium_index=1.33, name='g')
g.attrs['spacing'] = 0.1; g.attrs['name'] = 'sample 7'; g.attrs['exposure'] = 0.02
fn = os.path.join(d, 'a.h5'); hp.save(fn, g); b = hp.load(fn)
print(sorted(g.attrs), '->', sorted(b.attrs))
bad = set(g.attrs) != set(b.attrs)
print('VIOLATION: attrs lost %s' % (set(g.attrs) - set(b.attrs)) if bad else 'ok')
sys.exit(1 if bad else 0)
