"""load_image returns palette INDICES (not intensities / colour channels) for
palette-mode ('P') raster files (indexed PNG / GIF / 8-bit colour TIFF / BMP)."""
import sys, os; sys.path.insert(0, os.getcwd())
import warnings, tempfile
import numpy as np
from PIL import Image
import holopy as hp
from holopy.core.io import load_image

d = tempfile.mkdtemp()
rng = np.random.default_rng(1)
rgb = rng.integers(0, 255, (5, 6, 3)).astype('uint8')
fn = os.path.join(d, 'indexed.png')
Image.fromarray(rgb).convert('P').save(fn)          # a legitimate 8-bit indexed colour PNG

true_rgb = np.asarray(Image.open(fn).convert('RGB')).astype(float)   # what the file shows
with warnings.catch_warnings(record=True) as w:
    warnings.simplefilter('always')
    im = load_image(fn, spacing=0.1, channel=[0, 1, 2])
print('requested channels [0,1,2]; got dims', im.dims, 'shape', im.shape)
print('warnings:', [str(x.message) for x in w])
grey = load_image(fn, spacing=0.1)
print('load_image values (first row):', grey.values[0, 0])
print('true red channel  (first row):', true_rgb[0, :, 0])
print('true luminance    (first row):', np.asarray(Image.open(fn).convert('L'))[0].astype(float))
bad = ('illumination' not in im.dims) or not np.array_equal(im.values[0], true_rgb)
print('VIOLATION' if bad else 'ok')
sys.exit(1 if bad else 0)
