"""save_image(depth='float'): the docstring says scaling is 'Ignored for float output', but the
float TIFF holds the image stretched to 0..1; hp.save('x.png', image) ('image extension ->
saves an image') writes an HDF5 file called x.png."""
import sys, os; sys.path.insert(0, os.getcwd())
import warnings, tempfile
warnings.simplefilter('ignore')
import numpy as np
from PIL import Image
import holopy as hp
from holopy.core.io import save_image
from holopy.core.metadata import data_grid

d = tempfile.mkdtemp()
g = data_grid(np.linspace(10, 50, 20).reshape(4, 5), spacing=0.1, name='g')
f = os.path.join(d, 'fl.tif'); save_image(f, g, depth='float')
raw = np.asarray(Image.open(f))
print('float TIFF pixel range:', raw.min(), raw.max(), ' image range:', float(g.min()), float(g.max()))
bad1 = not np.allclose(raw, g.values[0])
p = os.path.join(d, 'x.png'); hp.save(p, g)
with open(p, 'rb') as fh: magic = fh.read(8)
print('x.png magic bytes:', magic)
bad2 = magic != b'\x89PNG\r\n\x1a\n'
print('float output scaled although documented as unscaled:', bad1, '; .png is not a PNG:', bad2)
sys.exit(1 if (bad1 or bad2) else 0)
