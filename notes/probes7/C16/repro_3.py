"""load_average of files of unequal size: result depends on file order (small file first:
silently cropped average; large file first: MergeError)."""
import sys, os; sys.path.insert(0, os.getcwd())
import warnings, tempfile
warnings.simplefilter('ignore')
import numpy as np
from PIL import Image
from holopy.core.io import load_average

d = tempfile.mkdtemp()
rng = np.random.default_rng(0)
big = os.path.join(d, 'big.tif'); Image.fromarray(rng.integers(0, 255, (6, 7)).astype('uint8')).save(big)
small = os.path.join(d, 'small.tif'); Image.fromarray(rng.integers(0, 255, (4, 5)).astype('uint8')).save(small)
out = []
for order in ([small, big], [big, small]):
    try:
        m = load_average(order, spacing=0.1); out.append(('ok', m.shape))
    except Exception as e:
        out.append((type(e).__name__, str(e).split('\n')[0]))
    print([os.path.basename(o) for o in order], '->', out[-1])
bad = out[0][0] != out[1][0]
print('VIOLATION: outcome depends on file order (and one order silently crops)' if bad else 'ok')
sys.exit(1 if bad else 0)
