"""One-pixel-wide/high images: load_image of a single-row or single-column colour file crashes
(arr[:, :, channel].squeeze() also removes the length-1 pixel axis); hp.save(.tif) of a single-row
greyscale image crashes in get_spacing (IndexError)."""
import sys, os; sys.path.insert(0, os.getcwd())
import warnings, tempfile
warnings.simplefilter('ignore')
import numpy as np
from PIL import Image
import holopy as hp
from holopy.core.io import load_image
from holopy.core.metadata import data_grid
d = tempfile.mkdtemp()
bad = False
for shape in [(5, 1, 3), (1, 5, 3)]:
    fn = os.path.join(d, 'c.png'); Image.fromarray((np.random.rand(*shape) * 255).astype('uint8')).save(fn)
    try:
        im = load_image(fn, spacing=0.1, channel=1); print(shape, 'ok', im.shape)
    except Exception as e:
        bad = True; print(shape, 'channel=1 ->', type(e).__name__, e)
g = data_grid(np.random.rand(1, 5), spacing=0.1, name='row')
try:
    hp.save(os.path.join(d, 'row.tif'), g); print('row tif ok')
except Exception as e:
    bad = True; print('hp.save(row.tif) ->', type(e).__name__, e)
sys.exit(1 if bad else 0)
