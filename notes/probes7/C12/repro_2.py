"""C12 repro 2: a T-matrix calculation that fails inside the prior's support
gives log-posterior -inf from an AlphaModel but raises TmatrixFailure from an
ExactModel (same scatterer, same theory, same data, same parameters).
Exit 1 if the two models disagree.
"""
import sys, os; sys.path.insert(0, os.getcwd())
import warnings; warnings.filterwarnings('ignore')
import numpy as np
import holopy
from holopy.scattering import Spheroid, Tmatrix
from holopy.inference import AlphaModel, ExactModel, prior
from holopy.core.metadata import detector_grid, update_metadata

print(holopy.__file__)
U = prior.Uniform
det = detector_grid((4, 4), 0.1)
data = update_metadata(det + 1.0, medium_index=1.33, illum_wavelen=0.66,
                       illum_polarization=(1, 0), noise_sd=0.1)
s = Spheroid(n=1.5, r=(U(0.1, 10), U(0.1, 10)), center=(0.2, 0.2, U(5, 60)))
bad = False
for r in [(0.3, 0.5), (0.2, 8.0)]:
    pars = [r[0], r[1], 50]
    out = []
    for M in (AlphaModel, ExactModel):
        m = M(s, theory=Tmatrix())
        try:
            out.append(float(m.lnposterior(pars, data)))
        except Exception as e:
            out.append('raised ' + type(e).__name__)
    print('r =', r, ' lnprior', m.lnprior(pars), ' AlphaModel:', out[0],
          ' ExactModel:', out[1])
    if out[0] != out[1]:
        bad = True
        print('    -> VIOLATION: the two models disagree')
sys.exit(1 if bad else 0)
