"""Per-channel noise given to the model as a dictionary.  Exit 1 unless lnlike
equals the per-channel Gaussian log-density."""
import sys, os; sys.path.insert(0, os.getcwd())
import warnings; warnings.filterwarnings('ignore')
import numpy as np
from holopy.scattering import Sphere, calc_holo
from holopy.inference import AlphaModel, prior
from holopy.core.metadata import detector_grid, update_metadata

det = detector_grid((6, 5), 0.1, extra_dims={'illumination': ['red', 'green']})
wl = {'red': 0.66, 'green': 0.52}
s = Sphere(n=prior.Uniform(1.4, 1.7), r=0.5, center=(0.3, 0.25, 5))
truth = calc_holo(det, Sphere(1.58, 0.5, (0.3, 0.25, 5)), 1.33, wl, (1, 0), scaling=0.8)
rng = np.random.default_rng(1)
data = truth + 0.05 * rng.standard_normal(truth.shape)
noise = {'red': 0.05, 'green': 0.1}
m = AlphaModel(s, alpha=0.8, noise_sd=noise, medium_index=1.33, illum_wavelen=wl,
               illum_polarization=(1, 0))
model = m.forward({'n': 1.6}, data)
want = 0.
for ch, sd in noise.items():
    res = (model.sel(illumination=ch) - data.sel(illumination=ch)).values
    want += float(np.sum(-0.5 * np.log(2 * np.pi) - np.log(sd) - 0.5 * (res / sd) ** 2))
try:
    got = float(m.lnlike({'n': 1.6}, data))
except Exception as e:
    got = 'raised %s: %s' % (type(e).__name__, e)
print('lnlike', got, ' per-channel Gaussian', want)
# the same noise on the data instead of the model
m2 = AlphaModel(s, alpha=0.8, medium_index=1.33, illum_wavelen=wl, illum_polarization=(1, 0))
print('noise on the data:', float(m2.lnlike({'n': 1.6}, update_metadata(data, noise_sd=noise))))
sys.exit(0 if isinstance(got, float) and abs(got - want) < 1e-8 * abs(want) else 1)
