"""C12 repro 4: a layered Sphere whose outer radii DEcrease (r = [0.5, 0.3]:
the 'shell' ends inside the core) is not an invalid scatterer for the model:
log-prior is finite, a hologram is computed, and the hologram Mie returns is
neither that of the object the scatterer's own geometry describes (a 0.5
sphere of the core index) nor of any layered sphere.  Negative radii, by
contrast, give -inf without a calculation.  Exit 1 if present.
"""
import sys, os; sys.path.insert(0, os.getcwd())
import warnings; warnings.filterwarnings('ignore')
import numpy as np
import holopy
from holopy.scattering import Sphere, calc_holo
from holopy.inference import ExactModel, prior
from holopy.core.metadata import detector_grid, update_metadata

print(holopy.__file__)
U = prior.Uniform
det = detector_grid((5, 5), 0.1)
kw = dict(medium_index=1.33, illum_wavelen=0.66, illum_polarization=(1, 0))
data = update_metadata(det + 1.0, noise_sd=0.1, **kw)
calls = [0]


def counting(*a, **k):
    calls[0] += 1
    return calc_holo(*a, **k)


s = Sphere(n=[1.6, 1.4], r=[U(-1, 1), U(-1, 1)], center=[0.2, 0.2, U(2, 9)])
m = ExactModel(s, counting)
bad = False
for name, pars in [('increasing r', [0.3, 0.5, 5]), ('negative r', [-0.3, 0.5, 5]),
                   ('decreasing r', [0.5, 0.3, 5])]:
    calls[0] = 0
    lp = m.lnprior(pars)
    post = m.lnposterior(pars, data)
    print('%-13s lnprior %s  lnposterior %s  holograms computed %d'
          % (name, lp, post, calls[0]))
    if name == 'decreasing r' and (np.isfinite(lp) or calls[0]):
        bad = True
sc = m.scatterer_from_parameters([0.5, 0.3, 5])
pts = np.array([[0.2, 0.2, 5.0], [0.2, 0.2, 5.4], [0.2, 0.2, 5.6]])
print('domains of points at 0, 0.4, 0.6 from the centre:', sc.in_domain(pts),
      ' index there:', sc.index_at(pts, 1.33))
h = calc_holo(det, sc, **kw).values.ravel()[:3]
core = calc_holo(det, Sphere(1.6, 0.5, (0.2, 0.2, 5)), **kw).values.ravel()[:3]
print('Mie hologram of r=[0.5, 0.3]:', h)
print('hologram of the 0.5 sphere of index 1.6 its geometry describes:', core)
sys.exit(1 if bad else 0)
