"""C12 repro 3: make_subset_data(data, pixels=None, return_selection=True)
ignores return_selection: it returns the bare image, not (subset, selection).
For a two-channel image (illumination first, as calc_holo returns it) the
documented unpacking `subset, selection = ...` then silently yields the two
colour planes.  Exit 1 if present.
"""
import sys, os; sys.path.insert(0, os.getcwd())
import warnings; warnings.filterwarnings('ignore')
import numpy as np, xarray as xr
import holopy
from holopy.scattering import Sphere, calc_holo
from holopy.core.metadata import detector_grid, make_subset_data

print(holopy.__file__)
det = detector_grid((4, 3), 0.1, extra_dims={'illumination': ['red', 'green']})
data = calc_holo(det, Sphere(1.58, 0.5, (0.2, 0.2, 5)), 1.33,
                 {'red': 0.66, 'green': 0.52}, (1, 0))
print('data dims', data.dims)
bad = False
out = make_subset_data(data, pixels=None, return_selection=True)
print('pixels=None, return_selection=True ->', type(out).__name__,
      '(a tuple (subset, selection) is documented)')
if not isinstance(out, tuple):
    bad = True
    subset, selection = out
    print('  `subset, selection = ...` gives subset =', subset.dims,
          'illumination', subset.illumination.item(), '; selection =',
          type(selection).__name__, selection.dims, 'illumination',
          selection.illumination.item())
out12 = make_subset_data(data, pixels=12, return_selection=True)
print('pixels=12 (= all pixels) ->', type(out12).__name__,
      [type(o).__name__ for o in out12])
sys.exit(1 if bad else 0)
