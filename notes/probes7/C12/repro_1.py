"""C12 repro 1: per-channel noise_sd carried in the data's metadata is not
matched to the channels the data actually have.

(a) one plane of a colour stack (data.sel(illumination='red')) whose metadata
    still holds the labelled per-channel noise: every pixel is counted twice
    (once with each channel's noise) while N counts it once.
(b) two of three channels selected: residuals are right, but the
    normalisation term averages log(sd) over all three channels.
Exit 1 if a violation is present.
"""
import sys, os; sys.path.insert(0, os.getcwd())
import warnings; warnings.filterwarnings('ignore')
import numpy as np
import holopy
from holopy.scattering import Sphere, calc_holo
from holopy.inference import AlphaModel, prior
from holopy.core.metadata import detector_grid, update_metadata

print(holopy.__file__)


def gauss(res, sd):
    res = np.asarray(res, dtype=float)
    return float(np.sum(-0.5*np.log(2*np.pi) - np.log(sd) - 0.5*(res/sd)**2))


rng = np.random.default_rng(0)
labels = ['red', 'green', 'blue']
wl = {'red': 0.66, 'green': 0.52, 'blue': 0.45}
pol = {'red': (1, 0), 'green': (0, 1), 'blue': (1, 0)}
sd = {'red': 0.05, 'green': 0.2, 'blue': 0.5}
det = detector_grid((6, 5), (0.1, 0.13), extra_dims={'illumination': labels})
true = Sphere(n=1.58, r=0.5, center=(0.3, 0.3, 5))
stack = calc_holo(det, true, medium_index=1.33, illum_wavelen=wl,
                  illum_polarization=pol)
stack = stack + rng.normal(0, 0.05, stack.shape)
stack = update_metadata(stack, noise_sd=sd)

s = Sphere(n=prior.Uniform(1.4, 1.7), r=prior.Uniform(0.3, 0.7),
           center=[0.3, 0.3, prior.Uniform(2, 9)])
pars = [1.55, 0.52, 5.2, 0.7]
best = Sphere(n=1.55, r=0.52, center=(0.3, 0.3, 5.2))
plain = detector_grid((6, 5), (0.1, 0.13))
bad = False

# (a) one plane, optics of that plane given to the model, noise from the data
red = stack.sel(illumination='red')
m = AlphaModel(s, alpha=prior.Uniform(0.5, 1), medium_index=1.33,
               illum_wavelen=0.66, illum_polarization=(1, 0))
h = calc_holo(plain, best, 1.33, 0.66, (1, 0), scaling=0.7)
res = h.values.squeeze() - red.values.squeeze()
got = m.lnlike(pars, red)
shape = m._residuals(pars, red, m._find_noise(pars, red)).shape
print('(a) data shape', red.shape, 'residuals shape', shape)
print('(a) lnlike', got, ' Gaussian with the red noise', gauss(res, 0.05),
      ' with the green noise', gauss(res, 0.2))
if not np.isclose(got, gauss(res, 0.05)):
    bad = True
    print('    -> VIOLATION: neither; %d residuals for %d pixels'
          % (np.prod(shape), red.size))

# (b) two of the three channels
two = stack.sel(illumination=['red', 'green'])
m2 = AlphaModel(s, alpha=prior.Uniform(0.5, 1), medium_index=1.33,
                illum_wavelen={'red': 0.66, 'green': 0.52},
                illum_polarization={'red': (1, 0), 'green': (0, 1)})
expected = 0
for ch in ['red', 'green']:
    h = calc_holo(plain, best, 1.33, wl[ch], pol[ch], scaling=0.7)
    expected += gauss(h.values.squeeze() - two.sel(illumination=ch).values.squeeze(), sd[ch])
got2 = m2.lnlike(pars, two)
print('(b) lnlike', got2, ' per-channel Gaussian', expected,
      ' difference', got2 - expected,
      ' = N*(mean log sd of 2 - mean log sd of 3) =',
      two.size*(np.mean(np.log([0.05, 0.2])) - np.mean(np.log([0.05, 0.2, 0.5]))))
if not np.isclose(got2, expected):
    bad = True
    print('    -> VIOLATION')
sys.exit(1 if bad else 0)
