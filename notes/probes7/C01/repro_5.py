"""C01 repro 5 (minor): a colour detector with ONE labelled channel and a
per-channel dictionary for the wavelength (or polarisation) cannot be computed:
prep_schema / calculate_scattered_field decide "multi-colour" by len() > 1, so
the one-element labelled wavelength goes down the single-colour path and the
wavevector is a labelled array that cannot be combined with the pixel positions.
"""
import sys, os; sys.path.insert(0, os.getcwd())
import warnings; warnings.simplefilter('ignore')
import numpy as np
np.NaN = np.nan
from holopy.scattering import calc_holo, Sphere
from holopy.core.metadata import detector_grid
s = Sphere(n=1.59, r=0.5, center=(0.3, 0.2, 5))
det1 = detector_grid((5, 4), (0.1, 0.15), extra_dims={'illumination': ['red']})
ref = calc_holo(detector_grid((5, 4), (0.1, 0.15)), s, 1.33, 0.66, (1, 0))
bad = False
for tag, kw in [('wavelength dict', dict(illum_wavelen={'red': 0.66}, illum_polarization=(1, 0))),
                ('polarisation dict', dict(illum_wavelen=0.66, illum_polarization={'red': (1, 0)}))]:
    try:
        h = calc_holo(det1, s, 1.33, **kw)
        print(tag, 'ok, max diff', float(np.abs(h.values.squeeze() - ref.values.squeeze()).max()))
    except Exception as e:
        bad = True
        print(tag, 'raises', type(e).__name__, ':', str(e)[:120])
print('VIOLATION' if bad else 'ok')
sys.exit(1 if bad else 0)
