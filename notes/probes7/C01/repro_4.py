"""C01 repro 4 (theory option / two code paths): MieLens silently returns a
scattered field of exactly 0 (hologram exactly 1) for every pixel farther than
k*rho = 3.9 * quad_npts from the particle (30.8 um for 660 nm light in water
with the default quad_npts = 100), whereas the same theory with more quadrature
points gives the (non-zero) field there.
"""
import sys, os; sys.path.insert(0, os.getcwd())
import warnings; warnings.simplefilter('ignore')
import numpy as np
np.NaN = np.nan
from holopy.scattering import calc_holo, Sphere
from holopy.scattering.theory import MieLens
from holopy.core.metadata import detector_points
k = 2 * np.pi * 1.33 / 0.66
s = Sphere(n=1.59, r=1.0, center=(0, 0, 30))
x = np.linspace(30.0, 31.6, 9)
p = detector_points(x=x, y=0 * x, z=0 * x)
acc = {'interpolate_integrals': False}
a = calc_holo(p, s, 1.33, 0.66, (1, 0), theory=MieLens(0.8, acc))
b = calc_holo(p, s, 1.33, 0.66, (1, 0),
              theory=MieLens(0.8, dict(acc, quad_npts=400)))
print('k rho          :', np.round(k * x, 1))
print('default        :', a.values)
print('quad_npts = 400:', b.values)
out = k * x >= 390
bad = bool((a.values[out] == 1).all() and np.abs(b.values[out] - 1).max() > 1e-3
           and np.abs(a.values[~out] - b.values[~out]).max() < 1e-4)
print('VIOLATION' if bad else 'ok')
sys.exit(1 if bad else 0)
