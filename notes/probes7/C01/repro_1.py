"""C01 repro 1: per-channel wavelengths given as a plain list/array on a colour
detector whose illumination axis is labelled.

calc_holo labels the result's illumination axis with the WAVELENGTH VALUES
instead of the detector's channel labels, so the hologram does not lie on the
detector's coordinates: hologram - detector is EMPTY (inner join on labels),
a per-channel scaling dictionary (keys = the detector's labels) silently
yields an empty hologram, and a model likelihood built on it is flat.
"""
import sys, os; sys.path.insert(0, os.getcwd())
import warnings; warnings.simplefilter('ignore')
import numpy as np
np.NaN = np.nan
import holopy as hp
from holopy.scattering import calc_holo, Sphere
from holopy.core.metadata import detector_grid, update_metadata
from holopy.inference import AlphaModel, prior

s = Sphere(n=1.59, r=0.5, center=(0.3, 0.2, 5))
det = detector_grid(shape=(5, 4), spacing=(0.1, 0.15),
                    extra_dims={'illumination': ['red', 'green']})

ref = calc_holo(det, s, 1.33, {'red': 0.66, 'green': 0.52}, (1, 0), scaling=0.8)
h = calc_holo(det, s, 1.33, [0.66, 0.52], (1, 0), scaling=0.8)
print('detector illumination labels :', list(det.illumination.values))
print('hologram illumination labels :', list(h.illumination.values))
print('values agree channel by channel (by position):',
      bool(np.allclose(h.values, ref.values)))
diff = h - det
print('(hologram - detector).shape  :', diff.shape)

h2 = calc_holo(det, s, 1.33, [0.66, 0.52], (1, 0),
               scaling={'red': 0.8, 'green': 0.5})
print('with a per-channel scaling dict, hologram shape:', h2.shape)

data = update_metadata(ref, noise_sd=0.01)
m = AlphaModel(Sphere(n=prior.Uniform(1.4, 1.7), r=0.5, center=(0.3, 0.2, 5)),
               alpha=0.8, medium_index=1.33, illum_wavelen=[0.66, 0.52],
               illum_polarization=(1, 0))
lls = [m.lnlike({'n': n}, data) for n in (1.45, 1.59, 1.65)]
print('lnlike at n = 1.45, 1.59, 1.65:', lls)

bad = (list(h.illumination.values) != list(det.illumination.values)
       or diff.size == 0 or h2.size == 0 or len(set(lls)) == 1)
print('VIOLATION' if bad else 'ok')
sys.exit(1 if bad else 0)
