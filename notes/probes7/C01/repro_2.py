"""C01 repro 2 (minor): detector_grid refuses a one-row colour detector.

data_grid adds the z axis only `if len(arr) > 1 or arr.ndim == 2`; a 1 x N
detector with an extra (illumination) dimension is 3-D with len 1, gets no z
axis, and the DataArray constructor fails with an unrelated message.
A 1 x N grey detector and an N x 1 colour detector both work.
"""
import sys, os; sys.path.insert(0, os.getcwd())
import warnings; warnings.simplefilter('ignore')
import numpy as np
np.NaN = np.nan
from holopy.core.metadata import detector_grid
ok1 = detector_grid((1, 5), 0.1).shape
ok2 = detector_grid((5, 1), 0.1, extra_dims={'illumination': ['r', 'g']}).shape
print('1x5 grey:', ok1, ' 5x1 colour:', ok2)
try:
    d = detector_grid((1, 5), 0.1, extra_dims={'illumination': ['r', 'g']})
    print('1x5 colour:', d.shape); bad = False
except Exception as e:
    print('1x5 colour raises', type(e).__name__, ':', e); bad = True
print('VIOLATION' if bad else 'ok')
sys.exit(1 if bad else 0)
