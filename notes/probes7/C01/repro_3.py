"""C01 repro 3 (minor, metadata): calc_scat_matrix replaces the detector's
illumination polarisation by the boolean False in the result's metadata
(the `illum_polarization=False` sentinel of prep_schema is written into attrs).
"""
import sys, os; sys.path.insert(0, os.getcwd())
import warnings; warnings.simplefilter('ignore')
import numpy as np
np.NaN = np.nan
from holopy.scattering import calc_scat_matrix, Sphere
from holopy.core.metadata import detector_points, update_metadata
s = Sphere(n=1.59, r=0.5, center=(0, 0, 5))
p = update_metadata(detector_points(theta=np.linspace(0, 1, 4), phi=0),
                    1.33, 0.66, (0, 1))
m = calc_scat_matrix(p, s)
print('detector polarisation:', p.attrs['illum_polarization'].values)
print('result polarisation  :', m.attrs['illum_polarization'])
bad = m.attrs['illum_polarization'] is False
print('VIOLATION' if bad else 'ok')
sys.exit(1 if bad else 0)
