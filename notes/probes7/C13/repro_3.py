"""C13 / repro_3: NmpfitStrategy hands back the initial guess as a converged
fit, without any warning or exception, when the minimiser did not run:

 (a) a zero tolerance / iteration limit (NmpfitStrategy(gtol=0), ftol=0,
     xtol=0, maxiter=0): third_party mpfit refuses the input, sets
     status = 0 and errmsg = 'ERROR: input keywords are inconsistent' and
     returns; NmpfitStrategy looks only for status == 5, marks the result
     converged = True and builds a FitResult from the untouched start values
     (zero uncertainties).  (LeastSquaresScipyStrategy raises a ValueError
     for the same options.)
 (b) one NaN pixel in the data (or any NaN residual): fnorm is NaN, the
     gradient-norm test `max([0., nan]) <= gtol` is True on the first
     iteration, status = 4 ("gtol convergence"), converged = True, the guess
     is returned and max_lnprob is nan.  (LeastSquaresScipyStrategy raises.)

Run from the checkout root:  /venv/bin/python /tmp/probe7_out/C13/repro_3.py
exit status 1 = defect present.
"""
import sys, os
sys.path.insert(0, os.getcwd())
import warnings
import numpy as np
np.NaN = np.nan

import holopy as hp
from holopy.core import detector_grid, update_metadata
from holopy.scattering import Sphere, calc_holo
from holopy.inference import prior, AlphaModel, NmpfitStrategy

print('holopy from', hp.__file__)
U = prior.Uniform
det = update_metadata(detector_grid((16, 16), 0.12), medium_index=1.33,
                      illum_wavelen=0.66, illum_polarization=(1, 0))
data = calc_holo(det, Sphere(n=1.59, r=0.5, center=(0.8, 0.9, 10)),
                 scaling=0.7)
model = AlphaModel(
    Sphere(n=1.59, r=U(0.3, 0.8, 0.52),
           center=(U(0, 3, 0.83), U(0, 3, 0.87), U(5, 15, 10.3))),
    alpha=U(0.5, 1, 0.72), noise_sd=1)


def chisq(pars, d):
    return float(np.nansum(model._residuals(list(pars.values()), d, 1)**2))


def run(tag, strategy, d):
    with warnings.catch_warnings(record=True) as caught:
        warnings.simplefilter('always')
        result = strategy.fit(model, d)
    told = [str(w.message) for w in caught
            if 'onverge' in str(w.message) or 'ERROR' in str(w.message)]
    info = result.mpfit_details
    stuck = result.parameters == model.initial_guess
    print('%-12s status=%d converged=%s errmsg=%r warnings=%d '
          'returned the guess=%s chisq(guess)=%.3g chisq(result)=%.3g '
          'max_lnprob=%r' % (
              tag, info.status, info.converged, info.errmsg, len(told),
              stuck, chisq(model.initial_guess, d),
              chisq(result.parameters, d), result.max_lnprob))
    return stuck and info.converged and not told


bad = []
ok_reference = run('defaults', NmpfitStrategy(), data)
for kwargs in [dict(gtol=0), dict(ftol=0), dict(xtol=0), dict(maxiter=0)]:
    tag = ', '.join('%s=%s' % kv for kv in kwargs.items())
    if run(tag, NmpfitStrategy(**kwargs), data):
        bad.append(tag)

with_nan = data.copy()
with_nan[3, 4, 0] = np.nan
if run('one NaN pixel', NmpfitStrategy(), with_nan):
    bad.append('NaN pixel')

if ok_reference:
    print('unexpected: default fit did not move')
if bad:
    print('VIOLATION: the start values were returned as a converged fit, '
          'silently, for:', bad)
    sys.exit(1)
print('ok')
sys.exit(0)
