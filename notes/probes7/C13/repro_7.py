"""C13 / repro_7 (low severity): UncertainValue._repr_latex_ (the notebook
display of every entry of FitResult.intervals) reads self.n_sigma, which
UncertainValue.__init__ never sets (the docstring documents an `n_sigma`
argument that the signature does not have) -> AttributeError.

Run from the checkout root:  /venv/bin/python /tmp/probe7_out/C13/repro_7.py
exit status 1 = defect present.
"""
import sys, os, types
sys.path.insert(0, os.getcwd())
import warnings
warnings.filterwarnings('ignore')
import numpy as np
np.NaN = np.nan

# IPython is not installed in the sandbox: provide the one name the method
# imports so that the library's own code is reached
if 'IPython' not in sys.modules:
    try:
        import IPython.display  # noqa
    except ImportError:
        fake = types.ModuleType('IPython')
        fake.display = types.ModuleType('IPython.display')
        fake.display.Math = lambda s: s
        sys.modules['IPython'] = fake
        sys.modules['IPython.display'] = fake.display

import holopy as hp
from holopy.inference.result import UncertainValue
print('holopy from', hp.__file__)
value = UncertainValue(0.5, 0.01, name='r')
try:
    print('latex:', value._repr_latex_())
except AttributeError as err:
    print('VIOLATION: _repr_latex_ raised AttributeError:', err)
    sys.exit(1)
print('ok')
sys.exit(0)
