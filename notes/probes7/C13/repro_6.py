"""C13 / repro_6 (low severity): a FitResult keeps a REFERENCE to the caller's
model; its parameter values are stored by position (result.intervals) and are
mapped back through model._maps whenever .scatterer / .hologram / .max_lnprob
are (first) evaluated.  Editing the model for the next fit -- the documented
Model.add_tie -- therefore silently corrupts the earlier result: the values
are fed into the re-indexed maps and come out in the wrong places.

Run from the checkout root:  /venv/bin/python /tmp/probe7_out/C13/repro_6.py
exit status 1 = defect present.
"""
import sys, os
sys.path.insert(0, os.getcwd())
import warnings
warnings.filterwarnings('ignore')
import numpy as np
np.NaN = np.nan

import holopy as hp
from holopy.core import detector_grid, update_metadata
from holopy.scattering import Sphere, calc_holo
from holopy.inference import prior, AlphaModel, NmpfitStrategy

print('holopy from', hp.__file__)
U = prior.Uniform
det = update_metadata(detector_grid((16, 16), 0.12), medium_index=1.33,
                      illum_wavelen=0.66, illum_polarization=(1, 0))
data = calc_holo(det, Sphere(n=1.59, r=0.5, center=(0.8, 0.9, 10)),
                 scaling=0.7)
model = AlphaModel(
    Sphere(n=1.59, r=U(0.3, 0.8, 0.52),
           center=(U(0, 3, 0.85), U(0, 3, 0.85), U(5, 15, 10.3))),
    alpha=U(0.5, 1, 0.72), noise_sd=1)

first = NmpfitStrategy().fit(model, data)
before = first.scatterer
print('first result          :', first.parameters)
print('its scatterer         :', before)

# second stage of the analysis: tie x and y and fit again
model.add_tie(['center.0', 'center.1'], 'xy')
second = NmpfitStrategy().fit(model, data)

after = first.scatterer
print('first result, later   :', first.parameters)
print('its scatterer, later  :', after)
print('its max_lnprob, later :', first.max_lnprob)

if not np.allclose(before.center, after.center):
    print('VIOLATION: the first result changed after the model was edited '
          '(z became %.3f, the y value)' % after.center[2])
    sys.exit(1)
print('ok')
sys.exit(0)
