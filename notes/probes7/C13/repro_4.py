"""C13 / repro_4: fitting a random pixel subset with a seeded strategy
(NmpfitStrategy(npixels=..., seed=...)) re-seeds numpy's GLOBAL random
generator (holopy.core.metadata.make_subset_data calls np.random.seed(seed)),
so the caller's own random stream is reset behind their back by every fit.
A Monte-Carlo loop "draw noise with np.random -> fit" therefore adds the SAME
noise realisation to every hologram after the first one, silently.

Run from the checkout root:  /venv/bin/python /tmp/probe7_out/C13/repro_4.py
exit status 1 = defect present.
"""
import sys, os
sys.path.insert(0, os.getcwd())
import warnings
warnings.filterwarnings('ignore')
import numpy as np
np.NaN = np.nan

import holopy as hp
from holopy.core import detector_grid, update_metadata
from holopy.scattering import Sphere, calc_holo
from holopy.inference import prior, AlphaModel, NmpfitStrategy

print('holopy from', hp.__file__)
U = prior.Uniform
det = update_metadata(detector_grid((16, 16), 0.12), medium_index=1.33,
                      illum_wavelen=0.66, illum_polarization=(1, 0))
data = calc_holo(det, Sphere(n=1.59, r=0.5, center=(0.8, 0.9, 10)),
                 scaling=0.7)
model = AlphaModel(
    Sphere(n=1.59, r=U(0.3, 0.8, 0.52),
           center=(U(0, 3, 0.83), U(0, 3, 0.87), U(5, 15, 10.3))),
    alpha=U(0.5, 1, 0.72), noise_sd=0.05)
strategy = NmpfitStrategy(npixels=100, seed=7)

# reference: the caller's stream when nothing interferes
np.random.seed(12345)
expected = [np.random.randn(*data.shape)[0, 0, 0] for _ in range(4)]

np.random.seed(12345)
seen, fitted = [], []
for trial in range(4):
    noise = np.random.randn(*data.shape) * 0.05
    seen.append(noise[0, 0, 0] / 0.05)
    fitted.append(strategy.fit(model, data + noise).parameters['z'
                  if 'z' in model._parameter_names else 'center.2'])
print('first noise sample per trial, undisturbed stream:',
      np.round(expected, 6))
print('first noise sample per trial, with fits between :',
      np.round(seen, 6))
print('fitted z per trial:', fitted)

# control: without a seed the global stream is consumed, not reset
if len(set(np.round(seen[1:], 12))) == 1 and not np.allclose(seen, expected):
    print('VIOLATION: every fit reset the global numpy generator; trials 2..4 '
          'got the identical noise realisation and identical "independent" '
          'fits')
    sys.exit(1)
print('ok')
sys.exit(0)
