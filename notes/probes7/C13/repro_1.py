"""C13 / repro_1: LeastSquaresScipyStrategy reports parameter uncertainties
that scale with noise_sd**2 instead of noise_sd (the residuals it minimises
are already divided by the noise, and the covariance is multiplied by the
noise once more).  NmpfitStrategy and a direct sigma*sqrt(diag((F^T F)^-1))
agree with each other; the scipy strategy is off by exactly a factor noise_sd.

Run from the checkout root:  /venv/bin/python /tmp/probe7_out/C13/repro_1.py
exit status 1 = defect present.
"""
import sys, os
sys.path.insert(0, os.getcwd())
import warnings
warnings.filterwarnings('ignore')
import numpy as np
np.NaN = np.nan          # sandbox numpy 2.x (third_party nmpfit uses np.NaN)

import holopy as hp
from holopy.core import detector_grid, update_metadata
from holopy.scattering import Sphere, calc_holo
from holopy.inference import (prior, AlphaModel, NmpfitStrategy,
                              LeastSquaresScipyStrategy)

print('holopy from', hp.__file__)
U = prior.Uniform
det = update_metadata(detector_grid((20, 20), 0.1), medium_index=1.33,
                      illum_wavelen=0.66, illum_polarization=(1, 0))
data = calc_holo(det, Sphere(n=1.59, r=0.5, center=(1.0, 1.1, 10)),
                 scaling=0.7)


def model(noise_sd):
    sph = Sphere(n=1.59, r=U(0.3, 0.8, 0.51),
                 center=(U(0, 3, 1.02), U(0, 3, 1.08), U(5, 15, 10.2)))
    return AlphaModel(sph, alpha=U(0.5, 1, 0.72), noise_sd=noise_sd)


def reference_errors(m, pars, sd):
    # sigma * sqrt(diag((F^T F)^-1)), F = d(hologram)/d(parameter)
    p0 = np.array(pars)
    cols = []
    for i in range(len(p0)):
        h = 1e-6 * p0[i]
        up, dn = p0.copy(), p0.copy()
        up[i] += h
        dn[i] -= h
        cols.append(((m._forward(list(up), data) - m._forward(list(dn), data))
                     / (2 * h)).values.ravel())
    F = np.array(cols).T
    return sd * np.sqrt(np.diag(np.linalg.inv(F.T @ F)))


bad = False
for sd in [1.0, 0.1, 0.01]:
    m = model(sd)
    r_nmp = NmpfitStrategy().fit(m, data)
    r_sci = LeastSquaresScipyStrategy().fit(m, data)
    e_nmp = np.array([iv.plus for iv in r_nmp.intervals])
    e_sci = np.array([iv.plus for iv in r_sci.intervals])
    e_ref = reference_errors(m, list(r_sci.parameters.values()), sd)
    print('noise_sd = %g' % sd)
    print('   nmpfit   ', np.array2string(e_nmp, precision=4))
    print('   scipy lsq', np.array2string(e_sci, precision=4))
    print('   reference', np.array2string(e_ref, precision=4))
    ratio = e_sci / e_ref
    print('   scipy / reference =', np.array2string(ratio, precision=4),
          ' (noise_sd = %g)' % sd)
    if not np.allclose(ratio, 1, rtol=0.05):
        bad = True

if bad:
    print('VIOLATION: LeastSquaresScipyStrategy uncertainties are wrong by a '
          'factor noise_sd (they scale as noise_sd**2)')
    sys.exit(1)
print('ok')
sys.exit(0)
