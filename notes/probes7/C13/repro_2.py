"""C13 / repro_2: LeastSquaresScipyStrategy copies its options into a private
dict when it is constructed, so options changed afterwards by attribute (the
way the fitting tutorial modifies a strategy "during an interactive session")
are silently ignored by fit(), while repr / == / the yaml written by hp.save
(also the copy recorded inside the FitResult) show the NEW values.  Two
strategies that compare equal and serialise identically then fit differently,
and a saved-and-reloaded strategy does not repeat the fit of the original.
NmpfitStrategy reads its attributes at fit time and honours such changes.

Run from the checkout root:  /venv/bin/python /tmp/probe7_out/C13/repro_2.py
exit status 1 = defect present.
"""
import sys, os
sys.path.insert(0, os.getcwd())
import warnings
warnings.filterwarnings('ignore')
import numpy as np
np.NaN = np.nan
import yaml

import holopy as hp
from holopy.core import detector_grid, update_metadata
from holopy.core.holopy_object import FullLoader
from holopy.scattering import Sphere, calc_holo
from holopy.inference import (prior, AlphaModel, NmpfitStrategy,
                              LeastSquaresScipyStrategy)

print('holopy from', hp.__file__)
U = prior.Uniform
det = update_metadata(detector_grid((16, 16), 0.12), medium_index=1.33,
                      illum_wavelen=0.66, illum_polarization=(1, 0))
data = calc_holo(det, Sphere(n=1.59, r=0.5, center=(0.8, 0.9, 10)),
                 scaling=0.7)
model = AlphaModel(
    Sphere(n=1.59, r=U(0.3, 0.8, 0.54),
           center=(U(0, 3, 0.86), U(0, 3, 0.84), U(5, 15, 10.6))),
    alpha=U(0.5, 1, 0.75), noise_sd=1)

# options given to the constructor
built = LeastSquaresScipyStrategy(max_nfev=2, xtol=1e-2, ftol=1e-2, gtol=1e-2)
# the same options set on an existing strategy
edited = LeastSquaresScipyStrategy()
edited.max_nfev = 2
edited.xtol = edited.ftol = edited.gtol = 1e-2
# what hp.save writes / hp.load reads back
reloaded = yaml.load(yaml.dump(edited), Loader=FullLoader)

print('built   :', built)
print('edited  :', edited)
print('edited == built:', edited == built,
      '| same yaml:', yaml.dump(edited) == yaml.dump(built))
print('options the edited strategy really passes to scipy:',
      {k: edited._optimizer_kwargs[k]
       for k in ['ftol', 'xtol', 'gtol', 'max_nfev']})

results = {}
for tag, st in [('built', built), ('edited', edited), ('reloaded', reloaded)]:
    r = st.fit(model, data)
    results[tag] = r
    print('%-9s nfev=%d status=%d  recorded strategy=%r\n          %s' % (
        tag, r.minimizer_info.nfev, r.minimizer_info.status, r.strategy,
        {k: round(v, 6) for k, v in r.parameters.items()}))

# NmpfitStrategy: attribute changes are honoured
nm = NmpfitStrategy()
nm.maxiter = 2
rn = nm.fit(model, data)
print('NmpfitStrategy with maxiter set by attribute: niter =',
      rn.mpfit_details.niter, 'status =', rn.mpfit_details.status)

same_as_built = results['edited'].parameters == results['built'].parameters
same_as_reloaded = (results['edited'].parameters ==
                    results['reloaded'].parameters)
if (edited == built) and not (same_as_built and same_as_reloaded):
    print('VIOLATION: strategies that are equal / serialise identically fit '
          'differently; options set by attribute are ignored (max_nfev=2 '
          'but %d evaluations were made)'
          % results['edited'].minimizer_info.nfev)
    sys.exit(1)
print('ok')
sys.exit(0)
