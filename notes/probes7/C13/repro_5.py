"""C13 / repro_5: a FitResult whose model (a prior's guess / bound) or whose
image metadata holds a NumPy scalar that is not float64 / int64 / int32 /
complex128 (e.g. np.float32 taken from a float32 image or an HDF5 file) is
SAVED by hp.save without complaint but cannot be read back: hp.load raises a
yaml ConstructorError.  holopy/core/io/serialize.py registers yaml
representers for np.float64, np.int64, np.int32 and np.complex128 only; every
other scalar type is written as '!!python/object/apply:numpy...scalar', which
neither FullLoader nor safe_load will construct.

Run from the checkout root:  /venv/bin/python /tmp/probe7_out/C13/repro_5.py
exit status 1 = defect present.
"""
import sys, os, tempfile
sys.path.insert(0, os.getcwd())
import warnings
warnings.filterwarnings('ignore')
import numpy as np
np.NaN = np.nan

import holopy as hp
from holopy.core import detector_grid, update_metadata
from holopy.scattering import Sphere, calc_holo
from holopy.inference import prior, AlphaModel, NmpfitStrategy

print('holopy from', hp.__file__)
U = prior.Uniform
tmp = tempfile.mkdtemp()
bad = []


def attempt(tag, medium_index, r_guess):
    det = update_metadata(detector_grid((12, 12), 0.15),
                          medium_index=medium_index, illum_wavelen=0.66,
                          illum_polarization=(1, 0))
    data = calc_holo(det, Sphere(n=1.59, r=0.5, center=(0.8, 0.9, 10)),
                     scaling=0.7)
    model = AlphaModel(
        Sphere(n=1.59, r=U(0.3, 0.8, r_guess),
               center=(U(0, 3, 0.83), U(0, 3, 0.87), U(5, 15, 10.3))),
        alpha=U(0.5, 1, 0.72), noise_sd=1)
    result = NmpfitStrategy().fit(model, data)
    name = os.path.join(tmp, tag + '.h5')
    hp.save(name, result)
    print('%-22s saved (%d bytes); fitted r = %.6f' % (
        tag, os.path.getsize(name), result.parameters['r']))
    try:
        again = hp.load(name)
        print('%-22s reloaded, same parameters: %s' % (
            tag, again.parameters == result.parameters))
    except Exception as err:
        print('%-22s hp.load FAILED: %s: %s' % (
            tag, type(err).__name__, str(err).split('\n')[0]))
        bad.append(tag)


attempt('all float64', np.float64(1.33), np.float64(0.52))
attempt('float32 prior guess', 1.33, np.float32(0.52))
attempt('float32 medium_index', np.float32(1.33), 0.52)

if bad:
    print('VIOLATION: results saved without error cannot be loaded:', bad)
    sys.exit(1)
print('ok')
sys.exit(0)
