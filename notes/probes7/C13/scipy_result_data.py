"""Full-image result of LeastSquaresScipyStrategy: what it stores as data, and
whether the saved result reloads.  Exit 1 otherwise."""
import sys, os; sys.path.insert(0, os.getcwd())
import warnings; warnings.filterwarnings('ignore')
import tempfile
import numpy as np
import holopy as hp
from holopy.scattering import Sphere, calc_holo
from holopy.inference import AlphaModel, prior, LeastSquaresScipyStrategy
from holopy.core.metadata import detector_grid, update_metadata

det = update_metadata(detector_grid((12, 10), 0.1), medium_index=1.33,
                      illum_wavelen=0.66, illum_polarization=(1, 0), noise_sd=0.05)
data = calc_holo(det, Sphere(1.58, 0.5, (0.6, 0.5, 5)), scaling=0.8)
s = Sphere(n=prior.Uniform(1.5, 1.65, guess=1.57), r=0.5, center=(0.6, 0.5, 5))
res = LeastSquaresScipyStrategy().fit(AlphaModel(s, alpha=0.8), data)
print('fitted n', res.parameters['n'], ' result data dims', res.data.dims)
ok = res.data.dims == data.dims and abs(res.parameters['n'] - 1.58) < 1e-4
res.minimizer_info = None          # (the raw OptimizeResult is a separate finding)
del res._kwargs_keys[res._kwargs_keys.index('minimizer_info')]
d = tempfile.mkdtemp()
try:
    hp.save(os.path.join(d, 'r.h5'), res)
    back = hp.load(os.path.join(d, 'r.h5'))
    print('reloaded data dims', back.data.dims, ' equal values',
          bool(np.array_equal(back.data.values, data.values)))
    ok = ok and back.data.dims == data.dims
except Exception as e:
    print('save / load failed:', type(e).__name__, e)
    ok = False
sys.exit(0 if ok else 1)
