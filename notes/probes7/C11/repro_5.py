"""(core/io/serialize.py, outside the C11 statement) a scatterer / prior / model holding a NumPy scalar that is
not float64, int64, int32 or complex128 (float32 from a float32 image, uint8/int16 from a
camera frame, ...) is written by hp.save in a form hp.load refuses to read."""
import sys, os; sys.path.insert(0, os.getcwd())
import tempfile, warnings; warnings.simplefilter('ignore')
import numpy as np
import holopy as hp
from holopy.scattering import Sphere
from holopy.core.prior import Uniform
from holopy.inference import AlphaModel
d = tempfile.mkdtemp()
bad = 0
for v in [np.float64(.5), np.float32(.5), np.int16(2), np.uint8(2)]:
    m = AlphaModel(Sphere(n=1.5, r=Uniform(.1, 3), center=[1, 2, v]), medium_index=1.33, illum_wavelen=.66, illum_polarization=(1, 0), noise_sd=.1)
    fn = os.path.join(d, 'm.yaml')
    hp.save(fn, m)
    try:
        m2 = hp.load(fn)
        print(type(v).__name__, 'saved and loaded;', m2.initial_guess_scatterer)
    except Exception as e:
        bad += 1
        print(type(v).__name__, 'saved, but hp.load raises', type(e).__name__, ':', str(e).split('\n')[0])
print('VIOLATION' if bad else 'ok')
sys.exit(1 if bad else 0)
