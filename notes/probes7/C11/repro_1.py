"""C11 / naming: a prior's EXPLICIT name is silently replaced when the name contains ':'
and the prior is shared between two members of a collection.
Mapper.add_parameter lets an explicit name win over the positional one, but
Mapper.get_parameter_index later strips everything up to the first ':' of the *stored*
name -- whether it was positional ('0:r') or given by the user -- and renames the parameter."""
import sys, os; sys.path.insert(0, os.getcwd())
import warnings; warnings.simplefilter('ignore')
import numpy as np
import holopy
from holopy.scattering import Sphere, Spheres
from holopy.core.prior import Uniform
from holopy.inference import AlphaModel

bad = 0
for given in ['0:r', 'big:r', 'dimer:r']:
    p = Uniform(.4, .6, name=given)
    sc = Spheres([Sphere(n=1.5, r=p, center=[0, 0, 5]), Sphere(n=1.5, r=p, center=[2, 0, 5])])
    m = AlphaModel(sc, medium_index=1.33, illum_wavelen=.66, illum_polarization=(1, 0), noise_sd=.1)
    print('prior named %-9r used for the radius of spheres 0 and 1 -> model parameter names %s' % (given, m._parameter_names))
    if given not in m.parameters:
        bad += 1
        try:
            m.scatterer_from_parameters({given: .5})
        except KeyError as e:
            print('    scatterer_from_parameters({%r: .5}) -> KeyError %s' % (given, e))
# control: the same prior used once keeps its name, and a name without ':' survives sharing
p = Uniform(.4, .6, name='big:r')
m1 = AlphaModel(Sphere(n=1.5, r=p, center=[0, 0, 5]), medium_index=1.33, illum_wavelen=.66, illum_polarization=(1, 0), noise_sd=.1)
p2 = Uniform(.4, .6, name='radius')
m2 = AlphaModel(Spheres([Sphere(n=1.5, r=p2, center=[0, 0, 5]), Sphere(n=1.5, r=p2, center=[2, 0, 5])]), medium_index=1.33, illum_wavelen=.66, illum_polarization=(1, 0), noise_sd=.1)
print('controls:', m1._parameter_names, m2._parameter_names)
print('VIOLATION' if bad else 'ok')
sys.exit(1 if bad else 0)
