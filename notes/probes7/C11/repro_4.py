"""(anchored file scatterer.py, outside the C11 statement) Scatterer.voxelate(spacing, medium_index)
ignores medium_index: the voxels outside the scatterer are always 0."""
import sys, os; sys.path.insert(0, os.getcwd())
import numpy as np
import holopy
from holopy.scattering import Sphere
s = Sphere(n=1.5, r=.5, center=(0, 0, 0))
v = s.voxelate(.25, medium_index=1.33)
print('voxelate(.25, medium_index=1.33) values:', np.unique(v))
print('index_at(points, background=1.33) values:', np.unique(s.index_at(s._voxel_coords(.25), 1.33)))
bad = 1.33 not in np.unique(v)
print('VIOLATION' if bad else 'ok')
sys.exit(1 if bad else 0)
