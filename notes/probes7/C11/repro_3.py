"""C11 / 'leaves fixed values untouched': a FIXED labelled value (an xr.DataArray without any
prior in it) given to a model is taken apart by Mapper.map_xarray and rebuilt by make_xarray
from the values and the labels of its dimensions only: name, attrs and every further
(non-index) coordinate are lost."""
import sys, os; sys.path.insert(0, os.getcwd())
import warnings; warnings.simplefilter('ignore')
import numpy as np, xarray as xr
import holopy as hp
from holopy.scattering import Sphere
from holopy.core.prior import Uniform
from holopy.inference import AlphaModel

wl = xr.DataArray([.66, .52], dims='illumination',
                  coords={'illumination': ['red', 'green'], 'laser': ('illumination', ['L1', 'L2'])},
                  attrs={'units': 'um'}, name='wavelength')
m = AlphaModel(Sphere(n=1.5, r=Uniform(.4, .6), center=[1, 1, 5]), medium_index=1.33,
               illum_wavelen=wl, illum_polarization=(1, 0), noise_sd=.1)
got = m._find_optics([.5], None)['illum_wavelen']
print('given :', wl.name, dict(wl.attrs), list(wl.coords))
print('model :', got.name, dict(got.attrs), list(got.coords))
print('model.illum_wavelen identical to the given array:', wl.identical(m.illum_wavelen))
bad = not wl.identical(got)
print('VIOLATION' if bad else 'ok')
sys.exit(1 if bad else 0)
