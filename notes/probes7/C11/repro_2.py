"""C11 / Mapper: a zero-dimensional array (np.ndarray or xr.DataArray -- what `.values`,
`.sel(...)`, `np.asarray(x)` of one number give) among the values of a scatterer or of
the optics is treated as a sequence by Mapper.convert_to_map / map_xarray, so every
calc_* function (through validate_scatterer) and every Model fails with an opaque
'iteration over a 0-d array' / 'tuple index out of range'."""
import sys, os; sys.path.insert(0, os.getcwd())
import warnings; warnings.simplefilter('ignore')
import numpy as np, xarray as xr
import holopy as hp
from holopy.scattering import Sphere, calc_holo
from holopy.core.prior import Uniform
from holopy.inference import AlphaModel

det = hp.detector_grid(8, .1)
ref = calc_holo(det, Sphere(n=1.5, r=.5, center=[.4, .4, 5]), 1.33, .66, (1, 0))
bad = 0
radii = xr.DataArray([.5, .6], dims='particle', coords={'particle': ['a', 'b']})
for label, r in [('np.array(0.5)', np.array(.5)), ("DataArray.sel(particle='a')", radii.sel(particle='a')),
                 ("DataArray.sel(particle='a').values", radii.sel(particle='a').values)]:
    try:
        h = calc_holo(det, Sphere(n=1.5, r=r, center=[.4, .4, 5]), 1.33, .66, (1, 0))
        print(label, 'calc_holo ok, max diff', float(abs(h - ref).max()))
    except Exception as e:
        bad += 1; print(label, '-> calc_holo raises', type(e).__name__, ':', e)
    try:
        m = AlphaModel(Sphere(n=Uniform(1.4, 1.6), r=r, center=[.4, .4, 5]), medium_index=1.33, illum_wavelen=.66, illum_polarization=(1, 0), noise_sd=.1)
        print(label, 'Model ok', m.initial_guess_scatterer)
    except Exception as e:
        bad += 1; print(label, '-> Model raises', type(e).__name__, ':', e)
try:
    m = AlphaModel(Sphere(n=1.5, r=Uniform(.4, .6), center=[.4, .4, 5]), medium_index=np.array(1.33), illum_wavelen=.66, illum_polarization=(1, 0), noise_sd=.1)
    print('medium_index=np.array(1.33): ok')
except Exception as e:
    bad += 1; print('medium_index=np.array(1.33) -> Model raises', type(e).__name__, ':', e)
print('VIOLATION' if bad else 'ok')
sys.exit(1 if bad else 0)
