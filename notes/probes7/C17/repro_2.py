"""The axis order of a propagated stack depends on whether the list of
distances contains a zero: (z, x, y) with a zero, (x, y, z) without."""
import sys, os; sys.path.insert(0, os.getcwd())
import warnings; warnings.filterwarnings('ignore')
import numpy as np
import xarray as xr
_orig_update = xr.Dataset.update
def _upd(self, other):
    r = _orig_update(self, other)
    return self if r is None else r
xr.Dataset.update = _upd
import holopy as hp
from holopy.core.metadata import data_grid

a = np.random.default_rng(0).normal(size=(4, 5))
d = data_grid(a, spacing=0.5, medium_index=1.33, illum_wavelen=0.66)
with_zero = hp.propagate(d, [0, 1.0, 2.0])
without = hp.propagate(d, [1e-9, 1.0, 2.0])
print('list with a zero   :', with_zero.dims, with_zero.shape)
print('list without a zero:', without.dims, without.shape)
print('values[0, 0, 0] addresses (z0,x0,y0) in one and (x0,y0,z0) in the other;')
print('values[1, 2, 1]:', with_zero.values[1, 2, 1], 'vs', without.values[1, 2, 1])
bad = with_zero.dims != without.dims
if bad:
    print('VIOLATION: same call, same kind of argument, two array layouts')
sys.exit(1 if bad else 0)
