"""propagate() silently drops the channels of a multi-channel image whose label
is missing from the per-channel wavelength (inner join in `ft * G`)."""
import sys, os; sys.path.insert(0, os.getcwd())
import warnings; warnings.filterwarnings('ignore')
import numpy as np
import xarray as xr
# sandbox work-around (installed xarray: Dataset.update returns None)
_orig_update = xr.Dataset.update
def _upd(self, other):
    r = _orig_update(self, other)
    return self if r is None else r
xr.Dataset.update = _upd
import holopy as hp
from holopy.core.metadata import data_grid

rng = np.random.default_rng(0)
a = rng.normal(size=(6, 7, 3))
# a two-colour hologram and a one-colour hologram, each with complete metadata
rg = data_grid(a[..., :2], spacing=0.5, medium_index=1.33,
               illum_wavelen={'red': 0.66, 'green': 0.52},
               extra_dims={'illumination': ['red', 'green']})
b = data_grid(a[..., 2:], spacing=0.5, medium_index=1.33,
              illum_wavelen={'blue': 0.45},
              extra_dims={'illumination': ['blue']})
rgb = xr.concat([rg, b], dim='illumination')   # attrs of the first are kept
print('input channels      :', list(rgb.illumination.values), rgb.shape)
print('wavelength channels :', list(rgb.illum_wavelen.illumination.values))
rec = hp.propagate(rgb, [4.0, 5.0])
print('output channels     :', list(rec.illumination.values), rec.shape)

# same thing with the wavelengths handed to propagate directly
wl = xr.DataArray([0.66, 0.52], dims='illumination',
                  coords={'illumination': ['red', 'green']})
rec2 = hp.propagate(rgb, 4.0, illum_wavelen=wl)
print('output channels (2) :', list(rec2.illumination.values), rec2.shape)

bad = (list(rec.illumination.values) != list(rgb.illumination.values)
       or list(rec2.illumination.values) != list(rgb.illumination.values))
if bad:
    print("VIOLATION: the 'blue' channel vanished without any error; the "
          "result no longer has the pixel/channel coordinates of the input")
sys.exit(1 if bad else 0)
