"""(side finding, outside C17 proper) ps_propagate: the pixel count of the
reconstruction is solved from an equation whose second term has the wrong sign
under the square root, so the spacing of the returned image is not the
requested output spacing when the beam centre is away from the image corner."""
import sys, os; sys.path.insert(0, os.getcwd())
import warnings; warnings.filterwarnings('ignore')
import io, contextlib
import numpy as np
import holopy as hp
from holopy.core.metadata import data_grid, get_spacing
from holopy.propagation import ps_propagate

L = 0.0407; Dx = 12e-6; N = 100
a = np.random.default_rng(0).normal(size=(N, N)) + 5
holo = data_grid(a, spacing=Dx, medium_index=1, illum_wavelen=406e-9)
worst = 0
for beam in [50., 400., 900.]:
    with contextlib.redirect_stdout(io.StringIO()):
        rec = ps_propagate(holo, 1.0e-3, L, [beam, beam])
    sp = get_spacing(rec)
    print('beam centre (pixels) %5.0f: requested spacing %.3e, returned %s, ratio %.3f'
          % (beam, Dx, sp, sp[0]/Dx))
    worst = max(worst, abs(sp[0]/Dx - 1))
# the integer truncation of npix alone allows about 1/npix ~ 3 %
bad = worst > 0.1
if bad:
    print('VIOLATION: returned pixel spacing is off by %.0f %%' % (100*worst))
sys.exit(1 if bad else 0)
