"""A base prior used twice in one expression: samples against guess and map."""
import sys, os; sys.path.insert(0, os.getcwd())
import numpy as np
from holopy.core import prior
np.random.seed(0)
u = prior.Uniform(1, 3); g = prior.Gaussian(0, 1)
a = (u - u).sample(1000); b = (g * g).sample(1000); c = ((u + 1) / u - 1 / u).sample(500)
d = (u - prior.Uniform(1, 3)).sample(1000)
print('(u - u) spans', a.min(), a.max(), '; (g * g) min', b.min(),
      '; (u+1)/u - 1/u spans', c.min(), c.max(), '; u - v spans', d.min(), d.max())
one = (u - u).sample()
ok = a.min() == a.max() == 0 and b.min() >= 0 and np.allclose(c, 1) and one == 0 and d.min() < -1
sys.exit(0 if ok else 1)
