"""dict_to_array sorts the values of EVERY non-scalar coordinate of the
detector before it looks for the one that matches the dictionary keys.  A
detector that carries a 2-D auxiliary coordinate (a radial-distance map, or
the r/theta/phi that a calc_scat_matrix result keeps next to x, y, z) makes
every per-channel dictionary (wavelength, polarisation, noise, scaling) fail
with an unrelated 'truth value of an array ... is ambiguous' ValueError, while
the same detector works with scalar optics."""
import sys, os; sys.path.insert(0, os.getcwd())
import warnings; warnings.simplefilter('ignore')
import numpy as np
np.NaN = np.nan
from holopy.scattering import Sphere, Mie, calc_holo
from holopy.core.metadata import detector_grid

labels = ['red', 'green']
det = detector_grid((5, 6), (0.2, 0.2), extra_dims={'illumination': labels})
rad = np.hypot(*np.meshgrid(det.x, det.y, indexing='ij'))
det2 = det.assign_coords(rad=(('x', 'y'), rad))
s = Sphere(n=1.59, r=0.5, center=(0.5, 0.5, 5))
wl = {'red': 0.66, 'green': 0.52}
ok = calc_holo(det, s, 1.33, wl, (1, 0), theory=Mie())
print("without the 2-D coordinate:", ok.dims, ok.shape)
print("scalar optics with the 2-D coordinate:",
      calc_holo(det2, s, 1.33, 0.66, (1, 0), theory=Mie()).shape)
try:
    h = calc_holo(det2, s, 1.33, wl, (1, 0), theory=Mie())
    print("with the 2-D coordinate:", h.dims, h.shape)
    sys.exit(0)
except ValueError as e:
    print("with the 2-D coordinate: ValueError:", str(e)[:90])
    sys.exit(1)
