"""LeastSquaresScipyStrategy multiplies the parameter errors by the noise a
second time (residuals are already divided by noise_sd), so its intervals are
sigma times those of NmpfitStrategy on the same problem and scale as sigma**2.
With multi-channel data (per-channel noise or not) the strategy cannot run at
all because the 2-D residual array is handed to scipy unflattened."""
import sys, os; sys.path.insert(0, os.getcwd())
import warnings; warnings.simplefilter('ignore')
import numpy as np
np.NaN = np.nan
import holopy as hp
from holopy.scattering import Sphere, Mie, calc_holo
from holopy.core.metadata import detector_grid, update_metadata
from holopy.inference import AlphaModel, prior, LeastSquaresScipyStrategy, NmpfitStrategy

det = detector_grid((20, 20), 0.1)
truth = Sphere(n=1.59, r=0.5, center=(1.0, 1.1, 6))
holo = calc_holo(det, truth, 1.33, 0.66, (1, 0), theory=Mie())
np.random.seed(3)
unit_noise = np.random.normal(size=holo.shape)
bad = False
ratios = {}
for sd in (0.01, 0.1):
    data = holo + sd * unit_noise
    data.attrs = holo.attrs
    data = update_metadata(data, noise_sd=sd)
    sp = Sphere(n=1.59, r=prior.Uniform(0.3, 0.7, guess=0.52),
                center=(1.0, 1.1, prior.Uniform(4, 8, guess=6.2)))
    model = AlphaModel(sp, alpha=1, theory=Mie())
    r_scipy = hp.fit(data, model, strategy=LeastSquaresScipyStrategy())
    r_nmp = hp.fit(data, model, strategy=NmpfitStrategy())
    e_scipy = float(r_scipy.intervals[0].plus)
    e_nmp = float(r_nmp.intervals[0].plus)
    dev = abs(float(r_scipy.intervals[0].guess) - 0.5)
    ratios[sd] = e_scipy / e_nmp
    print("noise_sd=%g: r error scipy=%.3e nmpfit=%.3e (actual |r_fit-r_true|"
          "=%.3e) ratio scipy/nmpfit=%.4g" % (sd, e_scipy, e_nmp, dev,
                                                ratios[sd]))
    if abs(ratios[sd] - 1) > 0.2:
        bad = True
if bad:
    print("VIOLATION: the two least-squares strategies disagree by a factor "
          "equal to noise_sd:", ratios)

# multi-channel data cannot be fitted with the scipy strategy at all
detm = detector_grid((10, 10), 0.1, extra_dims={'illumination': ['red', 'green']})
sm = Sphere(n={'red': 1.58, 'green': 1.6}, r=0.5, center=(0.5, 0.5, 6))
hm = calc_holo(detm, sm, 1.33, {'red': 0.66, 'green': 0.52}, (1, 0), theory=Mie())
hm = update_metadata(hm, noise_sd={'red': 0.1, 'green': 0.2})
spm = Sphere(n={'red': 1.58, 'green': 1.6}, r=prior.Uniform(0.3, 0.7, guess=0.52),
             center=(0.5, 0.5, 6))
mm = AlphaModel(spm, alpha=1, theory=Mie())
try:
    hp.fit(hm, mm, strategy=LeastSquaresScipyStrategy())
    print("multi-channel scipy fit ran")
except Exception as e:
    print("multi-channel data with LeastSquaresScipyStrategy:", repr(e)[:120])
    bad = True
r = hp.fit(hm, mm, strategy=NmpfitStrategy())
print("(NmpfitStrategy fits the same data: r = %.6f)" % r.parameters['r'])
sys.exit(1 if bad else 0)
