"""A multi-channel hologram saved as TIFF (hp.save_image / hp.save with a .tif
name) and read back with hp.load has its channels relabelled 'red', 'green',
'blue' by position, while the per-channel metadata restored from the file
(illum_wavelen, illum_polarization, noise_sd) keeps the original labels.  The
object is then inconsistent: calc_holo on it returns channels that share no
label with the data, so model - data is EMPTY (a fit sees no residuals)."""
import sys, os; sys.path.insert(0, os.getcwd())
import warnings; warnings.simplefilter('ignore')
import numpy as np
np.NaN = np.nan
import holopy as hp
from holopy.scattering import Sphere, Mie, calc_holo
from holopy.core.metadata import detector_grid, update_metadata

bad = False
for labels in (['red', 'green', 'blue'], ['r', 'g', 'b'], [0.66, 0.52]):
    det = detector_grid((6, 5), (0.1, 0.12), extra_dims={'illumination': labels})
    wls = [0.66, 0.52, 0.45]
    wl = {k: wls[i] for i, k in enumerate(labels)}
    s = Sphere(n=1.59, r={k: 0.3 + 0.2 * i for i, k in enumerate(labels)},
               center=(0.3, 0.2, 6))
    h = calc_holo(det, s, 1.33, wl, (1, 0), theory=Mie())
    h = update_metadata(h, noise_sd={k: 0.1 for k in labels})
    fn = os.path.join(os.getcwd(), 'repro2_mc.tif')
    hp.save_image(fn, h)
    k = hp.load(fn)
    os.remove(fn)
    data_labels = list(k.illumination.values)
    meta_labels = list(k.illum_wavelen.illumination.values)
    model = calc_holo(k, s, theory=Mie())
    resid = model - k
    print("saved labels %s -> loaded data labels %s, loaded illum_wavelen "
          "labels %s; (model - data).size = %d of %d"
          % (labels, data_labels, meta_labels, resid.size, k.size))
    if [str(a) for a in data_labels] != [str(a) for a in meta_labels] \
            or resid.size != k.size:
        bad = True
if bad:
    print("VIOLATION: channel labels of data and of its own optics disagree "
          "after a TIFF round trip")
sys.exit(1 if bad else 0)
