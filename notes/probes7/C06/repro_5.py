"""select_scatterer_by_illumination swallows the KeyError of a labelled
(xarray) per-channel property that has no entry for the channel being
computed and passes the WHOLE array on.  When n and r are both labelled
arrays the channel is then silently computed as a layered sphere with one
layer per channel (a dictionary with the same labels raises instead)."""
import sys, os; sys.path.insert(0, os.getcwd())
import warnings; warnings.simplefilter('ignore')
import numpy as np, xarray as xr
np.NaN = np.nan
from holopy.scattering import Sphere, Mie, calc_holo
from holopy.core.metadata import detector_grid

det = detector_grid((5, 6), (0.2, 0.2), extra_dims={'illumination': ['red', 'green']})
d1 = detector_grid((5, 6), (0.2, 0.2))
wl = {'red': 0.66, 'green': 0.52}
lab = ['red', 'grn']        # second label does not match any channel
n = xr.DataArray([1.58, 1.60], dims='illumination', coords={'illumination': lab})
r = xr.DataArray([0.50, 0.52], dims='illumination', coords={'illumination': lab})
try:
    h = calc_holo(det, Sphere(n=n, r=r, center=(0.5, 0.5, 5)), 1.33, wl, (1, 0),
                  theory=Mie())
except Exception as e:
    print("raised (good):", repr(e)[:100])
    sys.exit(0)
layered = calc_holo(d1, Sphere(n=[1.58, 1.60], r=[0.50, 0.52], center=(0.5, 0.5, 5)),
                    1.33, 0.52, (1, 0), theory=Mie())
diff = float(np.abs(h.sel(illumination='green').values - layered.values).max())
print("no error; 'green' channel == hologram of a 2-layer sphere built from "
      "the per-channel values: max |diff| =", diff)
try:
    calc_holo(det, Sphere(n=dict(zip(lab, [1.58, 1.6])), r=dict(zip(lab, [0.5, 0.52])),
                          center=(0.5, 0.5, 5)), 1.33, wl, (1, 0), theory=Mie())
except Exception as e:
    print("(the same labels in dictionaries raise:", repr(e)[:70], ")")
sys.exit(1 if diff == 0 else 0)
