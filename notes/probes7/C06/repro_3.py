"""calc_scat_matrix overwrites the polarisation stored on the detector with
False in the metadata of its result (prep_schema is called with
illum_polarization=False as a 'not needed' flag, and update_metadata stores
every value that is not None)."""
import sys, os; sys.path.insert(0, os.getcwd())
import warnings; warnings.simplefilter('ignore')
import numpy as np
np.NaN = np.nan
from holopy.scattering import Sphere, Mie, calc_scat_matrix, calc_field
from holopy.core.metadata import detector_grid, update_metadata

det = update_metadata(detector_grid((4, 4), 0.1), 1.33, 0.66, (0, 1), noise_sd=0.1)
s = Sphere(n=1.59, r=0.5, center=(0.2, 0.2, 5))
m = calc_scat_matrix(det, s, theory=Mie())
f = calc_field(det, s, theory=Mie())
print("detector polarisation      :", det.illum_polarization.values)
print("calc_field result          :", f.illum_polarization.values)
print("calc_scat_matrix result    :", m.attrs['illum_polarization'])
bad = m.attrs['illum_polarization'] is False
sys.exit(1 if bad else 0)
