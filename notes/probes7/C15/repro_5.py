"""C15 repro 5 (side finding in the anchored module): HoloPyObject.__eq__
compares only the constructor-argument dictionaries, not the class, so
different kinds of objects with the same argument names are 'equal'
(a Cylinder equals a Capsule equals a Bisphere; a Union equals a
Difference).  The equality clause of the save/load property therefore cannot
notice a change of class."""
import sys, os; sys.path.insert(0, os.getcwd())
import warnings; warnings.filterwarnings('ignore')
from holopy.scattering import Cylinder, Capsule, Bisphere, Sphere
from holopy.scattering.scatterer import Union, Difference

args = dict(n=1.5, h=1.0, d=0.5, center=[1, 2, 3], rotation=[0, 0, 0])
s1, s2 = Sphere(1.5, 0.5, [0, 0, 0]), Sphere(1.5, 0.4, [0.3, 0, 0])
checks = {'Cylinder == Capsule': Cylinder(**args) == Capsule(**args),
          'Capsule == Bisphere': Capsule(**args) == Bisphere(**args),
          'Union == Difference': Union(s1, s2) == Difference(s1, s2)}
for k, v in checks.items():
    print(k, '->', v)
bad = any(checks.values())
print('VIOLATION' if bad else 'ok')
sys.exit(1 if bad else 0)
