"""C15 repro 3: a TemperedSamplingResult made with a TemperedStrategy whose
number of stages is not the default 3 does not survive hp.save -> hp.load:
with fewer stages hp.load raises a misleading NoMetadata ("File without
metadata"), with more stages the surplus stage results vanish silently.
TemperedSamplingResult._load takes the number of stage groups from the
*reloaded* strategy (whose `stages` argument is not written out), and
hp.load swallows the resulting OSError.  (emcee is not needed: the sampling
results are assembled by hand exactly as EmceeStrategy.sample does.)"""
import sys, os; sys.path.insert(0, os.getcwd())
import tempfile, warnings; warnings.filterwarnings('ignore')
import numpy as np, xarray as xr
import holopy as hp
from holopy.scattering import Sphere, calc_holo
from holopy.inference import AlphaModel, TemperedStrategy
from holopy.inference.result import SamplingResult, TemperedSamplingResult
from holopy.core.prior import Uniform
from holopy.core.metadata import detector_grid, make_subset_data

holo = calc_holo(detector_grid(10, 0.2), Sphere(1.5, 0.5, (1, 1, 8)), 1.33, 0.66, (1, 0))
holo.attrs['noise_sd'] = 0.1
model = AlphaModel(Sphere(n=1.5, r=Uniform(0.4, 0.6), center=[1, 1, Uniform(7, 9)]), alpha=1)

def fake_sampling_result(strategy, seed):
    rng = np.random.RandomState(seed)
    nw, ns = strategy.nwalkers, 4
    samples = xr.DataArray(rng.uniform(0.4, 0.6, (nw, ns, 2)) + [0, 7.5],
                           dims=['walker', 'chain', 'parameter'],
                           coords={'parameter': model._parameter_names},
                           attrs={'acceptance_fraction': 0.3})
    lnprobs = xr.DataArray(rng.rand(nw, ns), dims=['walker', 'chain'],
                           attrs={'acceptance_fraction': 0.3})
    data = make_subset_data(holo, pixels=20, seed=seed)
    return SamplingResult(data, model, strategy, 1.0, {'lnprobs': lnprobs, 'samples': samples})

bad = False
tmp = tempfile.mkdtemp()
for nstages in (3, 1, 5):
    strategy = TemperedStrategy(nwalkers=6, stages=nstages)
    stage_results = [fake_sampling_result(s, i) for i, s in enumerate(strategy.stage_strategies)]
    result = TemperedSamplingResult(stage_results[-1], stage_results, strategy, 5.0)
    fn = os.path.join(tmp, 'tempered%d.h5' % nstages)
    hp.save(fn, result)
    try:
        back = hp.load(fn)
        n = len(back.stage_results)
        print('stages=%d: saved %d stage results, loaded %d' % (nstages, len(stage_results), n))
        bad |= n != len(stage_results)
    except Exception as e:
        print('stages=%d: saved %d stage results, hp.load raised %s: %s'
              % (nstages, len(stage_results), type(e).__name__, str(e)[:60]))
        bad = True
print('VIOLATION' if bad else 'ok')
sys.exit(1 if bad else 0)
