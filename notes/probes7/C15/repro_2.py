"""C15 repro 2: hp.save(name, obj) writes a non-array HoloPy object to the
file `name` exactly as given, but hp.load(name) first looks for `name + '.h5'`
when `name` has no extension.  With an image (or fit result) saved earlier
under the same base name, hp.load silently returns that other object."""
import sys, os; sys.path.insert(0, os.getcwd())
import tempfile, warnings; warnings.filterwarnings('ignore')
import numpy as np
import holopy as hp
from holopy.scattering import Sphere
from holopy.core.metadata import data_grid

os.chdir(tempfile.mkdtemp())
image = data_grid(np.random.rand(4, 4), spacing=0.1, name='img')
sphere = Sphere(n=1.59, r=0.5, center=[1, 2, 3])
hp.save('run1', image)        # -> run1.h5
hp.save('run1', sphere)       # -> run1 (yaml text)
print('files written :', sorted(os.listdir('.')))
loaded = hp.load('run1')
print('hp.load("run1") returned a', type(loaded).__name__)
ok = isinstance(loaded, Sphere) and loaded == sphere
print('ok' if ok else 'VIOLATION: the object just saved under this name is not the one loaded')
sys.exit(0 if ok else 1)
