"""C15 repro 4: saving a FitResult after its best-fit hologram has been looked
at re-orders the colour channels of the stored *data* when the model's
per-channel dictionary lists the channels in another order than the image.
FitResult._serialize_as_dataset merges the data with the cached hologram by
xr.merge (outer join): two equal label sets in different order are replaced
by their sorted union, so result.data comes back as (green, red) instead of
(red, green) -- labels intact, positions (.values, isel, channel 0) swapped."""
import sys, os; sys.path.insert(0, os.getcwd())
import tempfile, warnings; warnings.filterwarnings('ignore')
import numpy as np
np.NaN = np.nan   # sandbox: numpy 2 (nmpfit uses np.NaN)
import holopy as hp
from holopy.scattering import Sphere, calc_holo
from holopy.inference import AlphaModel
from holopy.core.prior import Uniform
from holopy.core.metadata import detector_grid, illumination

det = detector_grid(8, 0.25, extra_dims={illumination: ['red', 'green']})
holo = calc_holo(det, Sphere(n=1.5, r=0.5, center=[1., 1., 8.]), 1.33,
                 {'red': 0.66, 'green': 0.52}, (1, 0))
holo.attrs['noise_sd'] = 0.05
model = AlphaModel(Sphere(n=1.5, r=Uniform(0.4, 0.6), center=[1., 1., Uniform(7, 9)]),
                   alpha=1, illum_wavelen={'green': 0.52, 'red': 0.66})
result = hp.fit(holo, model)
tmp = tempfile.mkdtemp()

hp.save(os.path.join(tmp, 'before.h5'), result)
order_plain = [str(v) for v in hp.load(os.path.join(tmp, 'before.h5')).data[illumination].values]

result.hologram                      # look at the best fit (cached on the result)
hp.save(os.path.join(tmp, 'after.h5'), result)
back = hp.load(os.path.join(tmp, 'after.h5'))
order_after = [str(v) for v in back.data[illumination].values]

print('channels of the fitted image          :', [str(v) for v in holo[illumination].values])
print('reloaded data, hologram not yet viewed :', order_plain)
print('reloaded data, after result.hologram   :', order_after)
print('same numbers at the same positions     :', np.array_equal(back.data.values, holo.values))
bad = order_after != [str(v) for v in holo[illumination].values]
print('VIOLATION' if bad else 'ok')
sys.exit(1 if bad else 0)
