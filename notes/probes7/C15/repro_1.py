"""C15 repro 1: a prior object shared between several places of a scatterer
(HoloPy's way of tying parameters) is written out once per place, so the
reloaded scatterer has independent priors: the tie is gone although
`==` holds and the re-saved text is identical."""
import sys, os; sys.path.insert(0, os.getcwd())
import io, warnings; warnings.filterwarnings('ignore')
import numpy as np
import holopy as hp
from holopy.scattering import Sphere, Spheres
from holopy.inference import AlphaModel
from holopy.core.prior import Uniform

def roundtrip(obj):
    buf = io.BytesIO(); hp.save(buf, obj); buf.seek(0)
    return hp.load(buf)

r = Uniform(0.4, 0.6)                 # one radius for both spheres
x = Uniform(0, 10, name='x')          # second sphere sits 1.2 to the right
cluster = Spheres([Sphere(n=1.5, r=r, center=[x, 0, 5]),
                   Sphere(n=1.5, r=r, center=[x + 1.2, 0, 5])])
loaded = roundtrip(cluster)

print('library equality holds      :', loaded == cluster)
shared_before = cluster.scatterers[0].r is cluster.scatterers[1].r
shared_after = loaded.scatterers[0].r is loaded.scatterers[1].r
print('radius prior shared  before :', shared_before, ' after:', shared_after)
names_before = AlphaModel(cluster, alpha=1)._parameter_names
names_after = AlphaModel(loaded, alpha=1)._parameter_names
print('model parameters before     :', names_before)
print('model parameters after      :', names_after)

bad = (names_before != names_after) or (shared_before and not shared_after)
print('VIOLATION' if bad else 'ok')
sys.exit(1 if bad else 0)
