"""TemperedStrategy(stages, stage_len, nsamples, npixels, min_pixels, seed) after a
save / load cycle: the stage plan and the seeds.  Exit 1 if they differ."""
import sys, os; sys.path.insert(0, os.getcwd())
import warnings; warnings.filterwarnings('ignore')
import io
import holopy as hp
from holopy.core.io import serialize
from holopy.inference import TemperedStrategy


def plan(st):
    return [(s.nsamples, s.npixels, s.seed) for s in st.stage_strategies]


st = TemperedStrategy(stages=1, stage_len=7, nsamples=50, npixels=200,
                      min_pixels=20, seed=5)
buf = io.BytesIO()
serialize.save(buf, st)
text = buf.getvalue().decode()
back = serialize.load(io.BytesIO(text.encode()))
print(text.strip())
print('original :', plan(st), 'seed', st.seed)
print('reloaded :', plan(back), 'seed', back.seed)
sys.exit(0 if plan(st) == plan(back) and st.seed == back.seed == 5 else 1)
