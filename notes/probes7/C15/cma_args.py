"""CmaStrategy(resample_pixels, parent_fraction, weight_function) after save / load.
Exit 1 if an argument is lost."""
import sys, os; sys.path.insert(0, os.getcwd())
import warnings; warnings.filterwarnings('ignore')
import io
from holopy.core.io import serialize
from holopy.inference import CmaStrategy
from holopy.inference.emcee import sample_one_sigma_gaussian as f   # any module-level function

st = CmaStrategy(npixels=100, resample_pixels=False, parent_fraction=0.5,
                 weight_function=f)
buf = io.BytesIO()
serialize.save(buf, st)
back = serialize.load(io.BytesIO(buf.getvalue()))
print(buf.getvalue().decode().strip())
print('original : new_pixels', st.new_pixels, 'weights', st.weights.__name__)
print('reloaded : new_pixels', back.new_pixels, 'weights', back.weights.__name__)
st2 = CmaStrategy(parent_fraction=0.5)
buf = io.BytesIO(); serialize.save(buf, st2)
back2 = serialize.load(io.BytesIO(buf.getvalue()))
w = [bool(st2.weights(i, 10)) for i in range(10)]
wb = [bool(back2.weights(i, 10)) for i in range(10)]
print('parent_fraction=0.5: weights', w, 'reloaded', wb)
ok = back.new_pixels == st.new_pixels and back.weights is st.weights and w == wb
sys.exit(0 if ok else 1)
