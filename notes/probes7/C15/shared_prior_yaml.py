"""A prior object shared between two spheres, saved on the bare scatterer.  Exit 1 if the reloaded scatterer gives a model with other parameters."""
import sys, os; sys.path.insert(0, os.getcwd())
import io, warnings; warnings.filterwarnings('ignore')
from holopy.core.io import serialize
from holopy.scattering import Sphere, Spheres
from holopy.inference import prior, AlphaModel
r = prior.Uniform(.4, .6); x = prior.Uniform(0, 10, name='x')
cl = Spheres([Sphere(n=1.5, r=r, center=[x, 0, 5]), Sphere(n=1.5, r=r, center=[x + 1.2, 0, 5])])
buf = io.BytesIO(); serialize.save(buf, cl); text = buf.getvalue().decode()
print(text)
back = serialize.load(io.BytesIO(text.encode()))
names = (AlphaModel(cl)._parameter_names, AlphaModel(back)._parameter_names)
print(names, back == cl)
buf2 = io.BytesIO(); serialize.save(buf2, back); print('idempotent', buf2.getvalue().decode() == text)
s1 = Sphere(n=1.5, r=.5, center=[1, 2, 3])
two = Spheres([s1, s1.translated(1, 0, 0), s1])
buf = io.BytesIO(); serialize.save(buf, two); print(buf.getvalue().decode())
b2 = serialize.load(io.BytesIO(buf.getvalue())); print(b2 == two, b2.scatterers[0] is b2.scatterers[2])

sys.exit(0 if names[0] == names[1] else 1)
