"""ExactModel(calc_func=calc_intensity) after save / load.  Exit 1 if the
reloaded model computes something else."""
import sys, os; sys.path.insert(0, os.getcwd())
import warnings; warnings.filterwarnings('ignore')
import io
from holopy.core.io import serialize
from holopy.scattering import Sphere, calc_intensity, calc_holo
from holopy.inference import ExactModel, AlphaModel, prior

s = Sphere(n=prior.Uniform(1.4, 1.7), r=0.5, center=(1, 1, 5))
ok = True
for f in (calc_intensity, calc_holo):
    m = ExactModel(s, calc_func=f, medium_index=1.33, illum_wavelen=0.66,
                   illum_polarization=(1, 0))
    buf = io.BytesIO(); serialize.save(buf, m)
    back = serialize.load(io.BytesIO(buf.getvalue()))
    print(f.__name__, '->', back.calc_func.__name__, '; equal:', back == m)
    ok = ok and back.calc_func is f
a = AlphaModel(s, medium_index=1.33, illum_wavelen=0.66, illum_polarization=(1, 0))
buf = io.BytesIO(); serialize.save(buf, a)
print('AlphaModel reloads:', serialize.load(io.BytesIO(buf.getvalue())) == a)
sys.exit(0 if ok else 1)
