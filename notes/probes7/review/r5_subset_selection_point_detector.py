import sys, os, warnings
sys.path.insert(0, os.getcwd())
warnings.filterwarnings("ignore")
import numpy as np, xarray as xr
from holopy.core.metadata import detector_grid, detector_points, make_subset_data
from holopy.scattering import Sphere, calc_holo
from holopy.inference import prior, AlphaModel

# Incomplete (commit 2, minor): return_selection with pixels=None on data with no 'flat'
# axis after flat(): detector_points (dim 'point') -> KeyError 'flat'.  (pixels=N on such
# data raised the same KeyError before and after; pixels=None without return_selection works.)
pts = detector_points(theta=np.linspace(0, 1, 5), phi=np.zeros(5), r=10.)
try:
    sub, sel = make_subset_data(pts, return_selection=True)
    print('ok', sel)
    sys.exit(0)
except KeyError as e:
    print('raised KeyError', e)
    sys.exit(1)
