import sys, os, warnings
sys.path.insert(0, os.getcwd())
warnings.filterwarnings("ignore")
import numpy as np, xarray as xr
from holopy.core.metadata import detector_grid, detector_points, make_subset_data
from holopy.scattering import Sphere, calc_holo
from holopy.inference import prior, AlphaModel

# Regression (commit 1): a colour detector whose channel labels ARE the wavelengths,
# listed in another order than the positional wavelengths.  Before: labels were the
# wavelength values, so each channel was computed at the wavelength it is labelled with.
# Now: relabelled by position -> channel 0.52 is computed at 0.66 and vice versa (silently).
s = Sphere(r=.5, n=1.59, center=(.4, .4, 5))
d = detector_grid(8, .1, extra_dims={'illumination': [.52, .66]})
ref = calc_holo(d, s, 1.33, {.52: .52, .66: .66}, (1, 0))      # unambiguous
got = calc_holo(d, s, 1.33, [.66, .52], (1, 0))
err = float(abs(got - ref).max())
print('max |positional - labelled| =', err)
# the same through a model: likelihood of the true parameters against exact data
m = AlphaModel(Sphere(r=prior.Uniform(.4, .6, guess=.5), n=1.59, center=(.4, .4, 5)),
               alpha=1, noise_sd=.1, medium_index=1.33, illum_wavelen=[.66, .52],
               illum_polarization=(1, 0))
resid = float(abs(m.forward([.5], ref) - ref).max())
print('model residual at truth =', resid)
sys.exit(1 if (err > 1e-9 or resid > 1e-9) else 0)
