"""A Model subclass that has something called calc_func but whose constructor
does not take a calc_func argument can no longer be loaded (or even printed).
Run from the scratch dir.  Exit 1 = problem present."""
import sys, os; sys.path.insert(0, os.getcwd())
import io, warnings
warnings.simplefilter('ignore')
import numpy as np
import holopy as hp
from holopy.core.io.serialize import save, load
from holopy.scattering import Sphere, calc_holo, calc_intensity
from holopy.inference import ExactModel, AlphaModel, prior
from holopy.inference.model import Model

sph = Sphere(n=prior.Uniform(1.4, 1.7, 1.59), r=.5, center=[5, 5, 10])
kw = dict(noise_sd=.1, medium_index=1.33, illum_wavelen=.66,
          illum_polarization=(1, 0))
det = hp.detector_grid(8, .5)


class IntensityModel(ExactModel):
    """ExactModel with calc_func pinned (the natural workaround for the
    old 'calc_func is lost' bug)."""
    def __init__(self, scatterer, noise_sd=None, medium_index=None,
                 illum_wavelen=None, illum_polarization=None, theory='auto',
                 constraints=[]):
        super().__init__(scatterer, calc_intensity, noise_sd, medium_index,
                         illum_wavelen, illum_polarization, theory,
                         constraints)


class MethodModel(Model):
    """forward model written as a method that happens to be named calc_func"""
    def calc_func(self, detector, scatterer, **kw):
        return calc_holo(detector, scatterer, **kw)

    def _forward(self, pars, detector):
        return self.calc_func(detector, self._scatterer_from_parameters(pars),
                              theory=self.theory_from_parameters(pars),
                              **self._find_optics(pars, detector))


class AttrModel(AlphaModel):
    """sets an attribute calc_func that is not a constructor argument"""
    def __init__(self, *a, **k):
        super().__init__(*a, **k)
        self.calc_func = calc_holo


sys.setrecursionlimit(400)
bad = 0
for cls in [IntensityModel, MethodModel, AttrModel]:
    m = cls(sph, **kw)
    try:
        repr(m)
        b = io.BytesIO(); save(b, m); b.seek(0); m2 = load(b)
        same = np.allclose(m.forward(m.initial_guess, det),
                           m2.forward(m2.initial_guess, det))
        print(cls.__name__, 'round trip ok, same forward:', same)
        bad += not same
    except BaseException as e:
        print(cls.__name__, 'FAILS:', type(e).__name__, str(e)[:120])
        bad += 1
sys.exit(1 if bad else 0)
