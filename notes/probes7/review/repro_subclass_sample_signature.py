"""A TransformedPrior subclass whose sample() has the documented signature
sample(self, size=None) can no longer be nested in another derived prior.

Before 0d3e948: works.  Now: TypeError (sample() takes from 1 to 2 positional
arguments but 3 were given), because the outer TransformedPrior.sample calls
bp.sample(size, memo) on every TransformedPrior instance, including
subclasses that override sample.
Exits 1 when the problem is present.
"""
import sys, os; sys.path.insert(0, os.getcwd())
import numpy as np
from holopy.core.prior import Uniform, TransformedPrior, ComplexPrior


class LogUniform(TransformedPrior):
    """10**Uniform(lo, hi), with a vectorised sample()."""
    def __init__(self, lo, hi, name=None):
        super().__init__(lambda e: 10.0 ** e, Uniform(lo, hi), name=name)

    def sample(self, size=None):          # the signature every Prior has
        return 10.0 ** self.base_prior[0].sample(size)


lu = LogUniform(-2, 0)
bad = 0
for label, expr in [('2 * lu', 2 * lu), ('lu + 1', lu + 1),
                    ('ComplexPrior(1.5, lu)', ComplexPrior(1.5, lu))]:
    for size in (None, 3):
        try:
            np.random.seed(0)
            print(label, size, expr.sample(size))
        except TypeError as e:
            bad = 1
            print(label, size, 'TypeError:', e)
sys.exit(bad)
