import sys, os, warnings
sys.path.insert(0, os.getcwd())
warnings.filterwarnings("ignore")
import numpy as np, xarray as xr
from holopy.core.metadata import detector_grid, detector_points, make_subset_data
from holopy.scattering import Sphere, calc_holo
from holopy.inference import prior, AlphaModel

# Regression (commit 3): Model.noise_sd (public property) calls _find_noise(pars, None);
# with a per-channel dict the new dict_to_array(None, dict) raises AttributeError.
# Before the commit it returned the dict.
sp = Sphere(r=prior.Uniform(.4, .6, guess=.5), n=1.59, center=(.4, .4, 5))
bad = False
for noise in ({'red': .05, 'green': .1}, {'red': prior.Uniform(.01, .1, guess=.05), 'green': .1}):
    m = AlphaModel(sp, alpha=1, noise_sd=noise)
    try:
        print('noise_sd ->', m.noise_sd)
    except Exception as e:
        print('raised', type(e).__name__, e)
        bad = True
sys.exit(1 if bad else 0)
