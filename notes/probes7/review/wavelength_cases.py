"""The three cases 31a851e adds to 2f8676f, in one script (exit 1 if any fails)."""
import sys, os, subprocess
here = os.path.dirname(os.path.abspath(__file__))
rc = 0
for f in ('r1_wavelength_labels_reordered.py', 'r2_scatterer_dict_keyed_by_wavelength.py',
          'r4_positional_wavelengths_follow_polarisation_order.py'):
    r = subprocess.call([sys.executable, os.path.join(here, f)])
    print(f, 'rc', r)
    rc = rc or r
sys.exit(1 if rc else 0)
