import sys, os, warnings
sys.path.insert(0, os.getcwd())
warnings.filterwarnings("ignore")
import numpy as np, xarray as xr
from holopy.core.metadata import detector_grid, detector_points, make_subset_data
from holopy.scattering import Sphere, calc_holo
from holopy.inference import prior, AlphaModel

# Incomplete (commit 1; same before and after): positional wavelengths still do not follow
# the detector's channel order when the polarisation is labelled per channel in another
# order (dict or DataArray): they take the polarisation's order.  Detector red,green;
# wavelengths [.66,.52] => red=.66 expected; with pol given green-first, green gets .66.
s = Sphere(r=.5, n=1.59, center=(.4, .4, 5))
d = detector_grid(8, .1, extra_dims={'illumination': ['red', 'green']})
pol = {'green': (0, 1), 'red': (1, 0)}
ref = calc_holo(d, s, 1.33, {'red': .66, 'green': .52}, pol)
got = calc_holo(d, s, 1.33, [.66, .52], pol)
err = float(abs(got - ref).max())
print('max |positional - labelled| =', err)
sys.exit(1 if err > 1e-9 else 0)
