"""A fit result whose model / strategy holds a callable that yaml can write
but not read back (lambda, functools.partial, a function of the saving
script's __main__) is saved without complaint and then cannot be loaded at
all.  Before the fixes such a file loaded (with the callable replaced by the
default).  Run from the scratch dir.  Exit 1 = problem present."""
import sys, os; sys.path.insert(0, os.getcwd())
import warnings, tempfile, functools, subprocess, textwrap
warnings.simplefilter('ignore')
import numpy as np
import holopy as hp
from holopy.scattering import Sphere, calc_holo
from holopy.inference import (ExactModel, AlphaModel, prior, NmpfitStrategy,
                              CmaStrategy)
from holopy.inference.result import FitResult, UncertainValue

sph = Sphere(n=prior.Uniform(1.4, 1.7, 1.59), r=.5, center=[5, 5, 10])
kw = dict(noise_sd=.1, medium_index=1.33, illum_wavelen=.66,
          illum_polarization=(1, 0))
det = hp.detector_grid(8, .5)
data = calc_holo(det, Sphere(n=1.59, r=.5, center=(5, 5, 10)), 1.33, .66,
                 (1, 0))
tmp = tempfile.mkdtemp()


def result(model, strategy):
    iv = [UncertainValue(p.guess, .01, name=n)
          for n, p in model.parameters.items()]
    return FitResult(data, model, strategy, 1.0, {'intervals': iv})


cases = {
    'ExactModel(calc_func=lambda)': result(
        ExactModel(sph, lambda d, s, **k: calc_holo(d, s, **k), **kw),
        NmpfitStrategy()),
    'ExactModel(calc_func=partial(calc_holo, scaling=.7))': result(
        ExactModel(sph, functools.partial(calc_holo, scaling=.7), **kw),
        NmpfitStrategy()),
    'CmaStrategy(weight_function=lambda)': result(
        AlphaModel(sph, alpha=.7, **kw),
        CmaStrategy(weight_function=lambda i, n: 1.)),
}
bad = 0
for name, res in cases.items():
    fn = os.path.join(tmp, 'r%d.h5' % bad)
    hp.save(fn, res)              # succeeds before and after
    try:
        hp.load(fn)
        print(name, ': saved and loaded')
    except Exception as e:
        print(name, ': saved, but load FAILS:', type(e).__name__,
              str(e).splitlines()[1][:90])
        bad += 1

# a plain def in the script that ran the fit, loaded from another process
fn = os.path.join(tmp, 'other.h5')
code = textwrap.dedent('''
    import sys, os; sys.path.insert(0, os.getcwd())
    import warnings; warnings.simplefilter('ignore')
    import holopy as hp
    from holopy.scattering import Sphere, calc_holo
    from holopy.inference import ExactModel, prior, NmpfitStrategy
    from holopy.inference.result import FitResult, UncertainValue
    def half_holo(d, s, **k):
        return calc_holo(d, s, **k) / 2
    sph = Sphere(n=prior.Uniform(1.4, 1.7, 1.59), r=.5, center=[5, 5, 10])
    m = ExactModel(sph, half_holo, noise_sd=.1, medium_index=1.33,
                   illum_wavelen=.66, illum_polarization=(1, 0))
    data = calc_holo(hp.detector_grid(8, .5), Sphere(n=1.59, r=.5,
                     center=(5, 5, 10)), 1.33, .66, (1, 0))
    iv = [UncertainValue(1.59, .01, name='n')]
    hp.save(%r, FitResult(data, m, NmpfitStrategy(), 1., {'intervals': iv}))
''') % fn
subprocess.run([sys.executable, '-c', code], check=True)
try:
    hp.load(fn)
    print('def in the fitting script, loaded elsewhere : loaded')
except Exception as e:
    print('def in the fitting script, loaded elsewhere : load FAILS:',
          type(e).__name__, str(e).splitlines()[1][:90])
    bad += 1
sys.exit(1 if bad else 0)
