import sys, os, warnings
sys.path.insert(0, os.getcwd())
warnings.filterwarnings("ignore")
import numpy as np, xarray as xr
from holopy.core.metadata import detector_grid, detector_points, make_subset_data
from holopy.scattering import Sphere, calc_holo
from holopy.inference import prior, AlphaModel

# Regression (commit 1): scatterer property keyed by wavelength (dispersion), positional
# wavelengths, colour detector.  select_scatterer_by_illumination looks the channel label
# up in the dict; the label used to be the wavelength, now it is 'red'/'green', so the dict
# is passed through unselected -> TypeError.  Still works on a plain or 3-channel detector.
s = Sphere(r=.5, n={.66: 1.59, .52: 1.65}, center=(.4, .4, 5))
plain = calc_holo(detector_grid(8, .1), s, 1.33, [.66, .52], (1, 0))
d = detector_grid(8, .1, extra_dims={'illumination': ['red', 'green']})
try:
    h = calc_holo(d, s, 1.33, [.66, .52], (1, 0))
    ok = np.allclose(h.values, plain.values)
    print('computed; equal to plain-detector result:', ok)
except Exception as e:
    print('raised', type(e).__name__, e)
    ok = False
sys.exit(0 if ok else 1)
