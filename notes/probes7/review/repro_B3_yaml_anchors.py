"""(cosmetic) The yaml text / saved file of a default TemperedStrategy now
carries an anchor and an alias, because nsamples and npixels default to the
same int object (1000) and serialize.ignore_aliases does not exempt ints
(len(1000) raises before the isinstance test is reached).  Loads fine.
Exit 1 = anchors present."""
import sys, os; sys.path.insert(0, os.getcwd())
import io
from holopy.core.io.serialize import save
from holopy.inference import TemperedStrategy
b = io.BytesIO(); save(b, TemperedStrategy()); txt = b.getvalue().decode()
print(txt)
sys.exit(1 if '&id' in txt else 0)
