"""holopy.core.math.chisq / rsq on a cropped (origin-keeping) image vs a model
computed on a fresh detector grid of the same shape: "perfect fit".

    chisq = ((fit - data)**2).sum() / fit.size
    rsq   = 1 - ((data - fit)**2).sum() / ((data - data.mean())**2).sum()
`fit - data` between two labelled arrays is an inner join on the coordinate
labels.  subimage() keeps the coordinates of the parent image, so a crop and a
hologram computed on detector_grid(shape, spacing) share no (or only some)
positions: the difference is empty (or partial), its sum is 0 (or too small),
and it is divided by the full fit.size.  chisq = 0 and R^2 = 1 are returned for
a model that is plainly wrong.  (NaN pixels are likewise skipped by sum() but
counted by .size.)
"""
import sys, os; sys.path.insert(0, os.getcwd())
import warnings; warnings.filterwarnings('ignore')
import numpy as np
import holopy as hp
from holopy.scattering import Sphere, calc_holo
from holopy.core.metadata import detector_grid
from holopy.core.process import subimage
from holopy.core.math import chisq, rsq

print(hp.__file__)
opt = dict(medium_index=1.33, illum_wavelen=0.66, illum_polarization=(1, 0))
data = calc_holo(detector_grid(40, 0.1),
                 Sphere(n=1.59, r=0.5, center=(2.1, 2.4, 8)), **opt)
crop = subimage(data, (20, 20), 10)           # x, y run from 1.5 to 2.4
# a WRONG model (other particle, other place) on a fresh 10 x 10 detector
model = calc_holo(detector_grid(10, 0.1),
                  Sphere(n=1.45, r=0.8, center=(0.3, 0.3, 5)), **opt)
c_lab, r_lab = chisq(model, crop), rsq(model, crop)
m = model.transpose(*crop.dims).values
c_pos, r_pos = chisq(m, crop.values), rsq(m, crop.values)
print("labelled arrays : chisq = %g, rsq = %g" % (c_lab, r_lab))
print("plain ndarrays  : chisq = %g, rsq = %g" % (c_pos, r_pos))
# partial overlap: model detector shifted by 3 pixels only
model2 = calc_holo(crop.assign_coords(x=crop.x + 0.3),
                   Sphere(n=1.45, r=0.8, center=(2.0, 2.0, 5)), **opt)
print("partial overlap : chisq = %g (labelled, 7 of 10 rows compared, divided "
      "by 100)  vs %g (positional)" % (
          chisq(model2, crop),
          chisq(model2.transpose(*crop.dims).values, crop.values)))
bad = (c_lab == 0.0 and c_pos > 1e-3)
print("VIOLATION" if bad else "ok")
sys.exit(1 if bad else 0)
