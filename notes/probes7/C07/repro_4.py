"""MieLens() objects share one mutable default `calculator_accuracy_kwargs`.

    def __init__(self, lens_angle=1.0, calculator_accuracy_kwargs={}):
        self.calculator_accuracy_kwargs = calculator_accuracy_kwargs
The default dictionary is created once and stored (not copied) in every
theory built without the argument: changing the accuracy settings of one
theory object changes all the others, including those created later, and the
values they compute.
"""
import sys, os; sys.path.insert(0, os.getcwd())
import warnings; warnings.filterwarnings('ignore')
import numpy as np
import holopy as hp
from holopy.scattering import Sphere, calc_holo, MieLens
from holopy.scattering.theory import AberratedMieLens
from holopy.core.metadata import detector_grid

print(hp.__file__)
det = detector_grid((5, 6), 0.2)
s = Sphere(n=1.59, r=0.5, center=(0.5, 0.6, 3.0))
opt = dict(medium_index=1.33, illum_wavelen=0.66, illum_polarization=(1, 0))
accurate = MieLens(lens_angle=0.9, calculator_accuracy_kwargs={
    'interpolate_integrals': False})
ref = calc_holo(det, s, theory=accurate, **opt)

a = MieLens(lens_angle=0.9)
# the user tunes ONE theory object (here: a coarse, fast quadrature)
a.calculator_accuracy_kwargs['interpolate_integrals'] = False
a.calculator_accuracy_kwargs['quad_npts'] = 4
b = MieLens(lens_angle=0.9)             # a brand-new "default" theory
print("a.calculator_accuracy_kwargs is b.calculator_accuracy_kwargs:",
      a.calculator_accuracy_kwargs is b.calculator_accuracy_kwargs)
print("settings of the new default theory:", b.calculator_accuracy_kwargs)
hb = calc_holo(det, s, theory=b, **opt)
err = float(np.abs(hb.values - ref.values).max())
print("max |holo(new default MieLens) - holo(accurate MieLens)| =", err)
c, d = AberratedMieLens(), AberratedMieLens()
print("AberratedMieLens default shared as well:",
      c.calculator_accuracy_kwargs is d.calculator_accuracy_kwargs)
bad = (a.calculator_accuracy_kwargs is b.calculator_accuracy_kwargs
       and b.calculator_accuracy_kwargs != {})
# leave the class default clean for whoever imports this
a.calculator_accuracy_kwargs.clear()
print("VIOLATION" if bad else "ok")
sys.exit(1 if bad else 0)
