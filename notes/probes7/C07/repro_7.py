"""calc_scat_matrix overwrites the detector's illum_polarization metadata with
False, and cannot do what its docstring promises for several wavelengths.

interface.calc_scat_matrix calls prep_schema(..., illum_polarization=False);
update_metadata() only filters None, so attrs['illum_polarization'] = False
replaces the polarisation the detector / image carried, and the result (whose
attrs are copied from that schema) says illum_polarization=False.
With illum_wavelen=[w1, w2] ("If illum_wavelen is an array result will add a
dimension and have all wavelengths") prep_schema reaches
`illumination in illum_polarization.dims` with illum_polarization == False:
AttributeError: 'bool' object has no attribute 'dims'.
"""
import sys, os; sys.path.insert(0, os.getcwd())
import warnings; warnings.filterwarnings('ignore')
import numpy as np
import holopy as hp
from holopy.scattering import Sphere, calc_scat_matrix
from holopy.core.metadata import detector_grid, detector_points, update_metadata

print(hp.__file__)
s = Sphere(n=1.59, r=0.5, center=(1, 1, 6))
det = update_metadata(detector_grid(4, 0.2), 1.33, 0.66, (0, 1))
m = calc_scat_matrix(det, s)
print("detector illum_polarization:", det.attrs['illum_polarization'].values)
print("result   illum_polarization:", m.attrs['illum_polarization'])
bad = m.attrs['illum_polarization'] is False
pts = detector_points(theta=np.linspace(0, np.pi, 5), phi=0.3)
try:
    m2 = calc_scat_matrix(pts, s, 1.33, illum_wavelen=[0.66, 0.52])
    print("two wavelengths ->", m2.dims)
except Exception as e:
    print("two wavelengths -> %s: %s" % (type(e).__name__, e))
    bad = True
print("VIOLATION" if bad else "ok")
sys.exit(1 if bad else 0)
