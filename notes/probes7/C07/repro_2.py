"""subimage pairs `center` / `shape` entries with the wrong axes and wraps
silently at the image border.

Docstring: "center : ... should have the same number of elements as the arr
has dimensions", "shape : int or (int, int) ... in x & y" (and the code
asserts len(shape) in (2, arr.ndim)).  A HoloPy image has dims (z, x, y), but
the slices are built by zip(center, shape) and then used as
    arr.isel(x=extent[0], y=extent[1])
so with 3-element arguments the z entry is applied to x and the x entry to y.
A window that starts left of / above the image gets a negative slice start,
which numpy reads as "from the end": the crop is empty (or the wrong region)
instead of an error.
"""
import sys, os; sys.path.insert(0, os.getcwd())
import warnings; warnings.filterwarnings('ignore')
import numpy as np
import holopy as hp
from holopy.core.metadata import data_grid
from holopy.core.process import subimage

img = data_grid(np.arange(20 * 30.).reshape(20, 30), 0.1)   # dims (z, x, y)
print(hp.__file__, img.dims, dict(img.sizes))
good = subimage(img, (10, 20), 4)
print("reference  center=(10, 20), shape=4 ->", dict(good.sizes),
      "x", good.x.values, "y", good.y.values)
bad = False

# (a) centre given with one entry per dimension, as the docstring asks
r = subimage(img, (0, 10, 20), 4)
print("center=(0, 10, 20), shape=4        ->", dict(r.sizes), "x", r.x.values,
      "y", r.y.values)
if not (r.shape == good.shape and np.array_equal(r.values, good.values)):
    bad = True

# (b) shape given with one entry per dimension (allowed by the assert)
r = subimage(img, (10, 20), (1, 4, 6))
print("center=(10, 20), shape=(1, 4, 6)   ->", dict(r.sizes), "x", r.x.values,
      "y", r.y.values, "  expected x: 4, y: 6")
if (r.sizes['x'], r.sizes['y']) != (4, 6):
    bad = True

# (c) window reaching over the low border: negative slice start wraps
r = subimage(img, (1, 1), 4)
print("center=(1, 1), shape=4             ->", dict(r.sizes),
      "(silently empty)")
if r.size == 0:
    bad = True
# (d) window reaching over the high border: silently smaller than asked
r = subimage(img, (19, 29), 4)
print("center=(19, 29), shape=4           ->", dict(r.sizes))
if (r.sizes['x'], r.sizes['y']) != (4, 4):
    bad = True

print("VIOLATION" if bad else "ok")
sys.exit(1 if bad else 0)
