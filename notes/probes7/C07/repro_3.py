"""normalize() does not give mean 1 for an image with masked (NaN) pixels.

    image * 1.0 / image.sum() * image.size
xarray's sum() skips NaN, .size counts every pixel, so "the pixel average" is
taken as (sum of valid pixels) / (number of ALL pixels): the valid pixels of
the result average size/(size - n_nan), not 1.
"""
import sys, os; sys.path.insert(0, os.getcwd())
import warnings; warnings.filterwarnings('ignore')
import numpy as np
import holopy as hp
from holopy.core.metadata import data_grid
from holopy.core.process import normalize

rng = np.random.RandomState(0)
img = data_grid(rng.rand(10, 10) + 1, 0.1)
masked = img.copy(deep=True)
masked[0, 3, 4] = np.nan
masked[0, 7, 1:6] = np.nan          # a dead row segment
n_clean = normalize(img)
n_mask = normalize(masked)
m = float(np.nanmean(n_mask.values))
print(hp.__file__)
print("mean of normalize(clean image)                :", float(n_clean.mean()))
print("mean over valid pixels of normalize(NaN image):", m,
      " (= size/(size - n_nan) = %.6f)" % (100 / 94.))
expected = masked / np.nanmean(masked.values)
print("max deviation from image / (mean of valid pixels):",
      float(np.nanmax(np.abs(n_mask.values - expected.values))))
bad = abs(m - 1) > 1e-9
print("VIOLATION" if bad else "ok")
sys.exit(1 if bad else 0)
