"""hp.propagate uses wrong spatial frequencies for the transfer function.

holopy/core/process/fourier.py, ft_coord():
    return np.linspace(-dim/(2*ext), dim/(2*ext), dim)
labels the `dim` bins of a (shifted) DFT with `dim` equally spaced values that
include BOTH end points +-1/(2 spacing).  The frequencies of an fftshift-ed DFT
are (j - dim//2) / (dim * spacing): step 1/(dim*spacing), not
1/((dim-1)*spacing), and 0 at bin dim//2 -- ft_coord gives the DC bin the
frequency +1/(2 spacing (dim-1)).  trans_func() evaluates the propagator at
these frequencies, so every plane-wave component is advanced by the phase of a
neighbouring frequency.

Exact checks (no reference code needed):
 (1) a plane wave exp(2 pi i f x) on an exact DFT bin, propagated by d, must
     become itself times exp(-2 pi i d/lambda sqrt(1 - (lambda f)^2));
 (2) the propagator depends on f^2 only, so propagating the mirror image must
     give the mirror image of the propagated one.
Also: the planes of a stack are labelled inconsistently (d = 0 keeps the z of
the input, the others are labelled with d itself).
"""
import sys, os; sys.path.insert(0, os.getcwd())
import warnings; warnings.filterwarnings('ignore')
import numpy as np, xarray as xr
# sandbox: this xarray's Dataset.update returns None
_upd = xr.Dataset.update
def _update(self, other):
    r = _upd(self, other)
    return self if r is None else r
xr.Dataset.update = _update
import holopy as hp
from holopy.core.metadata import data_grid, detector_grid
from holopy.core.process.fourier import ft_coord
from holopy.scattering import Sphere, calc_holo

print(hp.__file__)
N, sp = 64, 0.1
x = np.arange(N) * sp
print("ft_coord around DC :", ft_coord(x)[N//2 - 1:N//2 + 2])
print("DFT frequencies    :", np.fft.fftshift(np.fft.fftfreq(N, sp))[N//2 - 1:N//2 + 2])
lam, d = 0.66 / 1.33, 4.0
worst = 0
for j in (0, 3, 10):
    f = j / (N * sp)
    img = np.exp(2j * np.pi * f * x)[:, None] * np.ones((1, N))
    out = hp.propagate(data_grid(img, sp, 1.33, 0.66, (1, 0)), d).values.squeeze()
    exact = img * np.exp(-2j * np.pi * d / lam * np.sqrt(1 - (lam * f) ** 2))
    err = np.angle(out / exact)
    print("plane wave on bin %2d (f = %.4f): phase error of propagate = %.3f rad"
          % (j, f, err[5, 5]))
    worst = max(worst, np.abs(err).max())

h = calc_holo(detector_grid((64, 60), (0.1, 0.12)),
              Sphere(n=1.59, r=0.5, center=(3.1, 3.4, 8)), 1.33, 0.66, (1, 0))
h = h.transpose('z', 'x', 'y')
p = hp.propagate(h, d)
pm = hp.propagate(h.isel(x=slice(None, None, -1)), d)
mirror = np.abs(pm.isel(x=slice(None, None, -1)).values - p.values).max()
print("max |propagate(mirror image) mirrored back - propagate(image)| = %.3f"
      % mirror)
stack = hp.propagate(h.assign_coords(z=[0.7]), [0, 2.0, 4.0])
print("z labels of propagate(image at z = 0.7, [0, 2, 4]):", stack.z.values)
bad = worst > 1e-3 or mirror > 1e-6
print("VIOLATION" if bad else "ok")
sys.exit(1 if bad else 0)
