"""calc_holo is not invariant when detector and particle are moved together along z.

A hologram is an intensity: it can only depend on the position of the detector
pixel RELATIVE to the scatterer (the illumination is a plane wave).  calc_holo
multiplies the scattered field by exp(-i k z_particle) (phase of the incident
wave at the particle, counted from the plane z = 0) but adds a reference wave
whose phase is 0 at every pixel, whatever the z of that pixel.  The two agree
only for a detector in the plane z = 0; at any other z the interference term
is rotated by exp(i k z_detector): pixels with z != 0 get wrong values.
"""
import sys, os; sys.path.insert(0, os.getcwd())
import warnings; warnings.filterwarnings('ignore')
import numpy as np
import holopy as hp
from holopy.scattering import Sphere, calc_holo, calc_field, Mie
from holopy.core.metadata import detector_grid, detector_points

print(hp.__file__)
opt = dict(medium_index=1.33, illum_wavelen=0.66, illum_polarization=(1, 0),
           theory=Mie())
bad = False

# (a) grid: move detector and sphere together by dz
det0 = detector_grid((6, 6), 0.2)                       # z = 0
for dz in (0.1, 0.66 / 1.33 / 2, 0.66 / 1.33):
    det1 = det0.assign_coords(z=[dz])
    h0 = calc_holo(det0, Sphere(n=1.59, r=0.5, center=(0.5, 0.6, 6.0)), **opt)
    h1 = calc_holo(det1, Sphere(n=1.59, r=0.5, center=(0.5, 0.6, 6.0 + dz)), **opt)
    f0 = calc_field(det0, Sphere(n=1.59, r=0.5, center=(0.5, 0.6, 6.0)), **opt)
    f1 = calc_field(det1, Sphere(n=1.59, r=0.5, center=(0.5, 0.6, 6.0 + dz)), **opt)
    dh = np.abs(h0.values - h1.values).max()
    dmod = np.abs(np.abs(f0.values) - np.abs(f1.values)).max()
    print("dz = %.4f: max |holo(z_d=0) - holo(z_d=dz)| = %.3g   "
          "(|E_scat| differs by %.1g)" % (dz, dh, dmod))
    if dz != 0.66 / 1.33 and dh > 1e-6:
        bad = True

# (b) points along the optical axis: spurious fringes of period lambda_medium
z = np.linspace(0, 2, 9)          # step 0.25 ~ half a wavelength in the medium
line = detector_points(x=0.5, y=0.6, z=z)
s = Sphere(n=1.59, r=0.5, center=(0.5, 0.6, 10.0))
lib = calc_holo(line, s, **opt).values
# same relative geometry, every point put in the plane z = 0
ref = np.array([calc_holo(detector_points(x=0.5, y=0.6, z=0.0),
                          Sphere(n=1.59, r=0.5, center=(0.5, 0.6, 10.0 - zz)),
                          **opt).item() for zz in z])
print("on-axis points, z_d =", z)
print("  calc_holo(points at z_d)              :", np.round(lib, 3))
print("  same distance, detector point at z = 0:", np.round(ref, 3))
if np.abs(lib - ref).max() > 1e-6:
    bad = True

print("VIOLATION" if bad else "ok")
sys.exit(1 if bad else 0)
