"""A TIFF written with an explicit scaling=(lo, hi) is read back by hp.load
stretched so that its own minimum / maximum become lo / hi, instead of
undoing the scaling that save_image applied."""
import sys, os, tempfile; sys.path.insert(0, os.getcwd())
import warnings; warnings.simplefilter('ignore')
import numpy as np
import holopy as hp
from holopy.core.io import save_image
from holopy.core.metadata import detector_grid, update_metadata

im = detector_grid((12, 16), 0.1)
im.values[:] = np.random.default_rng(0).uniform(1, 2, im.shape)   # values in 1..2
im = update_metadata(im, medium_index=1.33, illum_wavelen=0.66, illum_polarization=(1, 0))
path = os.path.join(tempfile.mkdtemp(), 'scaled.tif')

save_image(path, im)                       # scaling='auto'
auto = hp.load(path)
print('auto scaling   : max |loaded - saved| =', float(abs(auto.values - im.values).max()), '(8-bit step', (float(im.max()-im.min()))/255, ')')

save_image(path, im, scaling=(0, 4))       # 0 -> black, 4 -> white
back = hp.load(path)
err = float(abs(back.values - im.values).max())
print('scaling=(0, 4) : saved range', float(im.min()), float(im.max()), ' loaded range', float(back.min()), float(back.max()))
print('                 max |loaded - saved| =', err, '(8-bit step', 4/255, ')')
sys.exit(1 if err > 2 * 4 / 255 else 0)
