"""fft() labels the frequency axes with linspace(-1/(2dx), 1/(2dx), N) instead
of the DFT frequencies (k - N//2)/(N dx): the zero-frequency bin is not at 0,
a cosine of known frequency is found at the wrong label, and propagate(), which
evaluates its transfer function on ft_coord(), shifts a reconstruction sideways
by d*lambda/(2 dx (N-1)).  ifft(fft(crop)) also loses the crop's origin."""
import sys, os; sys.path.insert(0, os.getcwd())
import warnings; warnings.simplefilter('ignore')
import numpy as np, xarray as xr
import holopy as hp
from holopy.core.process import fft, ifft, subimage
from holopy.core.metadata import detector_grid, update_metadata

N, dx = 100, 0.1
det = detector_grid(N, dx)
bad = False

# 1. constant image: all the power is in the zero-frequency bin
const = det.copy(deep=True); const.values[:] = 1.0
F = np.abs(fft(const)).isel(z=0)
i, j = np.unravel_index(F.values.argmax(), F.shape)
print('label of the DC bin        :', float(F.m[i]), float(F.n[j]), '(expected 0, 0)')
bad |= abs(float(F.m[i])) > 1e-12

# 2. cosine with 7 periods across the detector: f0 = 7/(N dx)
f0 = 7 / (N * dx)
cos = det.copy(deep=True)
cos.values[0] = np.cos(2 * np.pi * f0 * det.x.values)[:, None] * np.ones(N)
F = np.abs(fft(cos)).isel(z=0)
i, j = np.unravel_index(F.values.argmax(), F.shape)
print('label of the cosine peak   :', abs(float(F.m[i])), 'true frequency', f0)
print('fft m axis (first 3)       :', F.m.values[:3], ' fftshift(fftfreq):', np.fft.fftshift(np.fft.fftfreq(N, dx))[:3])
bad |= not np.allclose(F.m.values, np.fft.fftshift(np.fft.fftfreq(N, dx)), rtol=1e-9, atol=0)

# 3. round trip of a cropped image loses the physical origin
big = detector_grid(40, dx); big.values[:] = np.random.default_rng(0).uniform(1, 2, big.shape)
crop = subimage(big, (20, 20), 10)
back = ifft(fft(crop))
print('crop x[0], ifft(fft(crop)) x[0]:', float(crop.x[0]), float(back.x[0]))
bad |= abs(float(crop.x[0]) - float(back.x[0])) > 1e-9

# 4. consequence: propagate() of a hologram that is symmetric about pixel N/2
_upd = xr.Dataset.update                       # sandbox xarray: update returns None
def upd(self, other):
    r = _upd(self, other); return self if r is None else r
xr.Dataset.update = upd
try:
    from holopy.scattering import calc_holo, Sphere
    from holopy import propagate
    z = 10.
    holo = calc_holo(det, Sphere(n=1.45, r=0.25, center=(N*dx/2, N*dx/2, z)), 1.33, 0.66, (1, 0))
    img = holo.values[:, :, 0]
    sym = lambda a: np.abs(a - np.roll(a[::-1, ::-1], 1, (0, 1))).max()
    rec = propagate(holo, z).values.squeeze()
    lam = 0.66 / 1.33
    fx = np.fft.fftfreq(N, dx); FX, FY = np.meshgrid(fx, fx, indexing='ij')
    root = 1 - (lam*FX)**2 - (lam*FY)**2
    G = np.where(root >= 0, np.exp(-2j*np.pi*z/lam*np.sqrt(np.maximum(root, 0))), 0)
    ref = np.fft.ifft2(np.fft.fft2(img) * G)
    print('asymmetry of the input hologram        :', sym(img))
    print('asymmetry of propagate(holo, z)        :', sym(rec))
    print('asymmetry with the true DFT frequencies:', sym(ref))
    prof = np.abs(rec - 1)[N//2, N//2-8:N//2+9]; pref = np.abs(ref - 1)[N//2, N//2-8:N//2+9]
    print('column of the focus minimum along the central row: holopy', N//2-8+prof.argmin(), ' reference', N//2-8+pref.argmin(),
          ' predicted shift [px]', -z*lam/(2*dx*(N-1))/dx)
    bad |= sym(rec) > 1e-6
except ImportError as e:
    print('propagate part skipped:', e)
sys.exit(1 if bad else 0)
