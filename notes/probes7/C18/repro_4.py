"""simulate_noise / add_noise: the Poisson counts are an integer array and
scipy.ndimage.gaussian_filter returns its input's dtype, so the 'smoothed'
noise is truncated to whole counts: a large image gets only a handful of
distinct noise levels (terraces), and for a small poisson_lambda the noise
amplitude is wrong."""
import sys, os; sys.path.insert(0, os.getcwd())
import warnings; warnings.simplefilter('ignore')
import numpy as np
from scipy.ndimage import gaussian_filter
import holopy as hp
from holopy.core.process import simulate_noise, add_noise
from holopy.core.metadata import detector_grid

bad = False
for shape, smoothing, lam in [((512, 512), .01, 1000), ((256, 256), .05, 1000), ((100, 100), .01, 5)]:
    np.random.seed(0); n = simulate_noise(shape, .1, smoothing, lam)
    np.random.seed(0); raw = np.random.poisson(lam, shape)
    ref = gaussian_filter(raw.astype(float), np.array(shape) * smoothing); ref = ref / ref.mean() * .1
    levels = len(np.unique(n))
    print(shape, 'smoothing', smoothing, 'lambda', lam, ': distinct noise values', levels, 'of', n.size,
          '| std', n.std(), 'vs smoothing in floating point', ref.std())
    bad |= levels < 100
im = detector_grid(512, 0.1); im.values[:] = 1.0
np.random.seed(0); noisy = add_noise(im)
print('add_noise on a flat 512x512 image: distinct pixel values', len(np.unique(noisy.values)))
sys.exit(1 if bad else 0)
