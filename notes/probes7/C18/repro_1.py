"""normalize() of an image that contains NaN pixels (masked / dead pixels):
image.sum() skips the NaN but image.size counts them, so the result has
neither mean 1 over the valid pixels nor NaN everywhere."""
import sys, os; sys.path.insert(0, os.getcwd())
import warnings; warnings.simplefilter('ignore')
import numpy as np
import holopy as hp
from holopy.core.process import normalize
from holopy.core.metadata import detector_grid

rng = np.random.default_rng(0)
im = detector_grid((10, 10), 0.1)
im.values[:] = rng.uniform(1, 2, im.shape)
clean_mean = float(normalize(im).mean())

masked = im.copy(deep=True)
masked.values[0, :2, :] = np.nan          # 20 of 100 pixels masked
n = normalize(masked)
valid_mean = float(np.nanmean(n.values))
print('holopy from', hp.__file__)
print('mean of normalize(clean image)            :', clean_mean)
print('mean over valid pixels of normalize(masked):', valid_mean, '(expected 1, or NaN everywhere)')
print('all NaN?', bool(np.isnan(n.values).all()))
# the same valid pixels, normalised on their own
sub = masked.isel(x=slice(2, None))
print('ratio to normalising the valid pixels alone:',
      float((n.isel(x=slice(2, None)) / normalize(sub)).mean()), '(= N / N_valid = 100/80)')
bad = (not np.isnan(n.values).all()) and abs(valid_mean - 1) > 1e-9
sys.exit(1 if bad else 0)
