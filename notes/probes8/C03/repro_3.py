"""C03 repro 3: for a small NON-absorbing layered sphere (x <~ 0.01) the
extinction returned by calc_cross_sections is not C_sca: at x = 1e-3 it is ~100
times too large (C_abs = 98 C_sca for real indices), at x = 2e-3..3e-3 it is
negative or 30 % low.  The homogeneous path and a direct Bohren & Huffman
coated-sphere evaluation give C_ext = C_sca = Rayleigh."""
import sys, os; sys.path.insert(0, os.getcwd())
import warnings; warnings.filterwarnings('ignore')
import numpy as np
from holopy.scattering import calc_cross_sections, Sphere

k = 2 * np.pi   # medium index 1, wavelength 1
bad = False
for x in [1e-3, 2e-3, 3e-3, 1e-2, 3e-2, 0.1]:
    r = x / k
    csca, cabs, cext, g = calc_cross_sections(
        Sphere(n=[1.5, 1.4], r=[r / 2, r], center=(0, 0, 0)), 1.0, 1.0,
        (1, 0)).values
    # Rayleigh limit of a coated sphere (Bohren & Huffman 5.36)
    e1, e2, f = 1.5**2, 1.4**2, 0.125
    al = (((e2 - 1) * (e1 + 2 * e2) + f * (e1 - e2) * (1 + 2 * e2)) /
          ((e2 + 2) * (e1 + 2 * e2) + f * (2 * e2 - 2) * (e1 - e2)))
    ray = 8 / 3 * x**4 * al**2 * np.pi * r**2
    print('x=%-6g C_sca=%.6e (Rayleigh %.6e)  C_ext=%.6e  C_abs/C_sca=%.3g'
          % (x, csca, ray, cext, cabs / csca))
    if abs(cabs) > 1e-3 * csca and x <= 1e-2:
        bad = True
print('VIOLATION' if bad else 'ok')
sys.exit(1 if bad else 0)
