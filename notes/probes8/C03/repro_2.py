"""C03 repro 2: layered-sphere Mie coefficients are wrong (up to ~35 % in the
cross sections) when m_l * k * r_(l-1) or m_l * k * r_l of a shell with real
index is a multiple of pi.  Shown (a) with a 'layered' sphere whose two layers
have the same index, which must equal the homogeneous sphere, and (b) by the
jump between r and r*(1 +- 1e-7)."""
import sys, os; sys.path.insert(0, os.getcwd())
import warnings; warnings.filterwarnings('ignore')
import numpy as np
from holopy.scattering import calc_cross_sections, Sphere

cs = lambda s, nm, wl: calc_cross_sections(s, nm, wl, (1, 0)).values
bad = False
# (a) against an independent coated-sphere solution (Bohren & Huffman 8.2,
#     real indices, scipy Riccati-Bessel functions)
from scipy.special import riccati_jn, riccati_yn
def coated_cext_csca(m1, m2, x, y, nmax=25):
    def pc(z):
        p, dp = riccati_jn(nmax, z); q, dq = riccati_yn(nmax, z)
        return p, dp, -q, -dq          # psi, psi', chi, chi'
    p1, dp1, _, _ = pc(m1 * x)
    p2, dp2, c2, dc2 = pc(m2 * x)
    P2, dP2, C2, dC2 = pc(m2 * y)
    py, dpy, cy, dcy = pc(y)
    xi, dxi = py - 1j * cy, dpy - 1j * dcy
    A = (m2 * p2 * dp1 - m1 * dp2 * p1) / (m2 * c2 * dp1 - m1 * dc2 * p1)
    B = (m2 * p1 * dp2 - m1 * p2 * dp1) / (m2 * dc2 * p1 - m1 * dp1 * c2)
    an = ((py * (dP2 - A * dC2) - m2 * dpy * (P2 - A * C2)) /
          (xi * (dP2 - A * dC2) - m2 * dxi * (P2 - A * C2)))
    bn = ((m2 * py * (dP2 - B * dC2) - dpy * (P2 - B * C2)) /
          (m2 * xi * (dP2 - B * dC2) - dxi * (P2 - B * C2)))
    l = np.arange(nmax + 1)
    ext = ((2 * l + 1) * (an + bn).real)[1:].sum()
    sca = ((2 * l + 1) * (abs(an)**2 + abs(bn)**2))[1:].sum()
    return np.array([sca, ext])
k = 2 * np.pi            # medium index 1, wavelength 1
for n, r in [([1.5, 2.0], [0.2, 0.5]), ([1.5, 2.0], [0.21, 0.5]),
             ([1.5, 2.0], [0.25, 0.6]), ([1.5, 1.25], [0.2, 0.4])]:
    got = cs(Sphere(n=n, r=r, center=(0, 0, 0)), 1.0, 1.0)
    ref = coated_cext_csca(n[0], n[1], k * r[0], k * r[1]) * 2 * np.pi / k**2
    z = np.array([n[1] * k * r[0], n[1] * k * r[1]]) / np.pi
    print('n=%s r=%s  m2*x/pi, m2*y/pi = %s' % (n, r, z))
    print('   holopy  C_sca, C_ext', got[[0, 2]])
    print('   B&H 8.2 C_sca, C_ext', ref)
    if abs(got[2] - ref[1]) > 1e-6 * ref[1]:
        bad = True
# (b) discontinuity in the radii
for n, r in [([1.5, 2.0], [0.2, 0.5]), ([1.5, 2.0], [0.25, 0.6]),
             ([1.5, 1.25], [0.2, 0.4])]:
    a = cs(Sphere(n=n, r=r, center=(0, 0, 0)), 1.0, 1.0)
    b = cs(Sphere(n=n, r=[x * (1 + 1e-7) for x in r], center=(0, 0, 0)), 1.0, 1.0)
    c = cs(Sphere(n=n, r=[x * (1 - 1e-7) for x in r], center=(0, 0, 0)), 1.0, 1.0)
    print('n=%s r=%s' % (n, r))
    print('   at r          ', a)
    print('   at r*(1+1e-7) ', b)
    print('   at r*(1-1e-7) ', c)
    if abs(a[2] - b[2]) > 1e-4 * b[2]:
        bad = True
print('VIOLATION' if bad else 'ok')
sys.exit(1 if bad else 0)
