"""C03 repro 1: a one-sphere 'cluster' solved by Multisphere disagrees with Mie
(10-50 % in C_sca, C_ext, <cos theta>) whenever the size parameter
x = 2 pi n_med r / lambda is a multiple of pi (sin x == 0 to rounding), e.g. the
round inputs r = 0.5, lambda = 1, n_med = 1.  An input 1e-6 away agrees to 1e-9."""
import sys, os; sys.path.insert(0, os.getcwd())
import warnings; warnings.filterwarnings('ignore')
import numpy as np
from holopy.scattering import calc_cross_sections, Sphere, Spheres, Mie, Multisphere

bad = False
for (n, r, nm, wl) in [(1.5, 0.5, 1.0, 1.0), (1.5, 1.0, 1.0, 1.0),
                       (1.59, 0.25, 1.0, 0.5), (1.59, 0.5, 1.33, 1.33),
                       (1.5 + 0.1j, 0.5, 1.0, 1.0),
                       (1.5, 0.5 * (1 + 1e-6), 1.0, 1.0)]:   # last: control
    s = Sphere(n=n, r=r, center=(0, 0, 0))
    mie = calc_cross_sections(s, nm, wl, (1, 0), theory=Mie()).values
    ms = calc_cross_sections(Spheres([s]), nm, wl, (1, 0),
                             theory=Multisphere()).values
    rel = abs(ms[2] - mie[2]) / mie[2]
    print('n=%s r=%.8g n_med=%g wl=%g  x/pi=%.9g' % (n, r, nm, wl, 2*nm*r/wl))
    print('   Mie         ', mie)
    print('   Multisphere ', ms, '  rel. diff C_ext = %.3g' % rel)
    if rel > 1e-4:
        bad = True
print('VIOLATION' if bad else 'ok')
sys.exit(1 if bad else 0)
