"""C10 repro 2: wrong T-matrix amplitudes at detector azimuth exactly pi when
the particle's azimuth (Mishchenko's ALPHA) is exactly 180 degrees.

ALPHA = 180 arises from rotation[2] = pi, and ALSO from every negative tilt
(rotation = (0, -b, 0)) or reversed axis (rotation = (0, b + pi, 0)), because
Tmatrix._parse_args maps those to beta' = |beta|, alpha' = alpha + 180.
Detector azimuth exactly pi is every pixel of a grid with y == y_centre and
x < x_centre, i.e. a particle sitting on a pixel row.

AMPL (tmatrix_f/ampld.lp.f) computes the scattering direction's azimuth in the
particle frame as PHIP1 = DATAN(SPP1/CPP1) and repairs the quadrant only with
tests on the sign of SP1 = sin(phi - alpha); when phi == alpha exactly SP1 = 0
and a negative CPP1 (phi' = pi) is returned as phi' = 0.  (The 1e-7 nudges of
the angles, which are meant to keep the code off such points, skip phi == pi.)

Clauses violated: "unchanged by reversing its axis direction" and "mirrors
with the geometry".
"""
import sys, os; sys.path.insert(0, os.getcwd())
import warnings; warnings.filterwarnings('ignore')
import numpy as np
import holopy
from holopy.core import detector_grid
from holopy.scattering import Spheroid, Cylinder, calc_holo, Tmatrix

np.set_printoptions(linewidth=150, precision=4, suppress=True)
wl, nm = 0.66, 1.33
det = detector_grid(shape=(11, 11), spacing=0.5)
centre = (2.5, 2.5, 5)          # on pixel (5, 5)
b = 0.5
bad = False
makers = {
    'Spheroid': lambda rot: Spheroid(n=1.5, r=(0.3, 0.7), center=centre,
                                     rotation=rot),
    'Cylinder': lambda rot: Cylinder(n=1.5 + 0.05j, d=0.5, h=1.0,
                                     center=centre, rotation=rot)}
for name, mk in makers.items():
    def holo(rot):
        return calc_holo(det, mk(rot), nm, wl, (1, 0),
                         theory=Tmatrix()).values[..., 0]
    h = holo((0, b, 0))
    h_reversed = holo((0, b + np.pi, 0))      # same particle, axis reversed
    h_mirror = holo((0, -b, 0))               # particle mirrored in x
    h_mirror_nudged = holo((0, -b, 1e-6))     # the same to within 1e-6
    d_rev = np.abs(h_reversed - h)
    d_mir = np.abs(h_mirror[::-1] - h)
    print(name)
    print("  axis reversed: max |difference| = %.3g at pixel %s"
          % (d_rev.max(), np.unravel_index(d_rev.argmax(), d_rev.shape)))
    print("  difference along the row y = y_centre:", d_rev[:, 5])
    print("  everywhere else: max %.3g" % np.delete(d_rev, 5, axis=1).max())
    print("  mirrored particle vs mirrored hologram: max |difference| = %.3g"
          "   (with alpha moved by 1e-6 rad: %.3g)"
          % (d_mir.max(), np.abs(h_mirror_nudged[::-1] - h).max()))
    if d_rev.max() > 1e-4 or d_mir.max() > 1e-4:
        bad = True

# the same through the lens wrapper, whose azimuthal quadrature contains
# phi == pi for (some) even quad_npts_phi
from holopy.scattering import calc_field
from holopy.scattering.theory import Lens
det2 = detector_grid(shape=(9, 9), spacing=0.3)
lens = Lens(0.8, Tmatrix(), quad_npts_theta=40, quad_npts_phi=20)
mk = lambda rot: Spheroid(n=1.5, r=(0.3, 0.7), center=(1.23, 1.31, 2),
                          rotation=rot)
f = calc_field(det2, mk((0, b, 0)), nm, wl, (1, 0), theory=lens).values
f_rev = calc_field(det2, mk((0, b + np.pi, 0)), nm, wl, (1, 0),
                   theory=lens).values
rel = np.abs(f_rev - f).max() / np.abs(f).max()
print("Lens(0.8, Tmatrix(), quad_npts_phi=20): axis reversed, relative "
      "difference of the field %.3g" % rel)
if rel > 1e-4:
    bad = True
print("VIOLATION" if bad else "ok")
sys.exit(1 if bad else 0)
