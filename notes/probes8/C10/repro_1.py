"""C10 repro 1: Tmatrix computes a Cylinder 2.25x too large in volume.

_parse_args (holopy/scattering/theory/tmatrix.py) hands the compiled code the
"equal-volume-sphere radius"  axi = (3/2)**iscyl * (rz*rxy**2)**(1/3.)
For a cylinder of radius rxy and half-height rz the volume is 2 pi rxy^2 rz, so
the equal-volume radius is ((3/2) * rz * rxy**2)**(1/3): the factor 3/2 belongs
INSIDE the cube root.  As written the particle is (3/2)**(2/3) = 1.31 times too
large in every linear dimension, i.e. 2.25x in volume.

Check (independent of any other cylinder code): in the Rayleigh-Gans limit
(small particle, index close to the medium) the forward amplitude is
proportional to volume and independent of shape, so a cylinder must scatter
like the Mie sphere of equal volume.
"""
import sys, os; sys.path.insert(0, os.getcwd())
import warnings; warnings.filterwarnings('ignore')
import numpy as np
import holopy
from holopy.core import detector_points
from holopy.scattering import (Sphere, Spheroid, Cylinder, Tmatrix, Mie,
                               calc_scat_matrix)

wl, nm, n = 0.66, 1.33, 1.36
det = detector_points(theta=np.array([0.0, 0.3]), phi=np.array([0.0, 0.0]))
bad = False
for d, h in [(0.02, 0.02), (0.03, 0.02), (0.02, 0.04)]:   # aspect 1, 1.5, 0.5
    volume = np.pi * (d / 2)**2 * h
    a = (3 * volume / (4 * np.pi))**(1 / 3)
    cyl = calc_scat_matrix(det, Cylinder(n=n, d=d, h=h, center=(0, 0, 0)),
                           nm, wl, theory=Tmatrix()).values[:, 0, 0]
    sph = calc_scat_matrix(det, Sphere(n=n, r=a, center=(0, 0, 0)),
                           nm, wl, theory=Mie()).values[:, 0, 0]
    # the same check passes for a spheroid of that volume (control)
    ax = (volume * 3 / (4 * np.pi) / (h / d))**(1 / 3)
    sfd = calc_scat_matrix(det, Spheroid(n=n, r=(ax, ax * h / d),
                                         center=(0, 0, 0)),
                           nm, wl, theory=Tmatrix()).values[:, 0, 0]
    ratio = np.abs(cyl / sph)
    control = np.abs(sfd / sph)
    print("d=%.3f h=%.3f  |S2 cylinder / S2 equal-volume sphere| = %s "
          "(expected ~1, (3/2)**2 = 2.25 if the radius is wrong); "
          "spheroid control %s" % (d, h, np.round(ratio, 3),
                                   np.round(control, 3)))
    if np.any(np.abs(ratio - 1) > 0.2):
        bad = True
print("VIOLATION" if bad else "ok")
sys.exit(1 if bad else 0)
