"""C10 repro 3 (minor): TheoryNotCompatibleError never shows its `reason`.

holopy/scattering/errors.py, TheoryNotCompatibleError.__init__:
    if reason is not None:
        message += " because: " + message        # should be: + reason
so the text given by the caller is dropped and the message is repeated.
"""
import sys, os; sys.path.insert(0, os.getcwd())
from holopy.scattering import Tmatrix, Sphere
from holopy.scattering.errors import TheoryNotCompatibleError

reason = "layered spheres are not supported"
err = TheoryNotCompatibleError(Tmatrix(), Sphere(n=(1.5, 1.4), r=(0.3, 0.5)),
                               reason)
print(str(err))
bad = reason not in str(err)
print("VIOLATION: the reason is missing from the message" if bad else "ok")
sys.exit(1 if bad else 0)
