"""C04: theory='auto' for a two-sphere cluster flips between Multisphere and
Mie superposition when every length is multiplied by one factor, because
_choose_mie_vs_multisphere compares `max_separation <= 30 * max_radius` exactly
and the two sides round differently (r = 0.5, separation 15: ratio exactly 30).
The hologram then changes by ~0.1 under a pure change of units."""
import sys, os; sys.path.insert(0, os.getcwd())
import warnings; warnings.filterwarnings('ignore')
import numpy as np
import holopy as hp
from holopy.scattering import Sphere, Spheres, calc_holo
from holopy.scattering.interface import determine_default_theory_for

def cluster(s):
    return Spheres([Sphere(n=1.59, r=0.5*s, center=(2*s, 2*s, 10*s)),
                    Sphere(n=1.59, r=0.5*s, center=(2*s, 2*s, 25*s))])

def holo(s):
    det = hp.detector_grid(8, 0.5*s)
    return calc_holo(det, cluster(s), medium_index=1.33, illum_wavelen=0.66*s,
                     illum_polarization=(1, 0)).values   # theory='auto'

print('holopy from', hp.__file__)
base = holo(1.0)
bad = False
for s in [1.0, 1e-6, 1e-3, 1e3]:
    th = type(determine_default_theory_for(cluster(s))).__name__
    d = np.abs(holo(s) - base).max()
    print('scale %g: auto theory = %-11s max |holo(s) - holo(1)| = %.3g' % (s, th, d))
    bad |= d > 1e-6
print('VIOLATION' if bad else 'ok')
sys.exit(1 if bad else 0)
