"""MieLens silently returns a scattered field of exactly 0 at every pixel with
k*rho >= 3.9*quad_npts (rho > 30.8 um for water / 660 nm with the default
quad_npts=100), although the field there is ~1e-4..1e-3 (Lens(Mie) with a
converged quadrature and MieLens with more points agree on it)."""
import sys, os; sys.path.insert(0, os.getcwd())
import warnings; warnings.filterwarnings('ignore')
import numpy as np
import holopy
from holopy.scattering import Sphere, Mie, MieLens, calc_field, calc_holo
from holopy.scattering.theory import Lens
from holopy.core import detector_points
print(holopy.__file__)
nmed, wl = 1.33, 0.66
k = 2 * np.pi * nmed / wl
s = Sphere(n=1.59, r=0.5, center=(0, 0, 10))
xs = np.array([30.0, 30.7, 30.9, 31.0, 35.0, 40.0])
det = detector_points(x=xs, y=0 * xs, z=0 * xs)
acc = {'interpolate_integrals': False}
dflt = calc_field(det, s, nmed, wl, (1, 0), theory=MieLens(0.8, acc)).values[:, 0]
more = calc_field(det, s, nmed, wl, (1, 0), theory=MieLens(
    0.8, dict(acc, quad_npts=400))).values[:, 0]
lens = calc_field(det, s, nmed, wl, (1, 0), theory=Lens(
    0.8, Mie(), quad_npts_theta=400, quad_npts_phi=400)).values[:, 0]
print('k rho             ', np.round(k * xs, 1))
print('|E| MieLens default', np.abs(dflt))
print('|E| MieLens 400    ', np.abs(more))
print('|E| Lens(Mie) 400  ', np.abs(lens))
far = k * xs >= 390
bad = (dflt[far] == 0).all() and (np.abs(more[far]) > 5e-5).all() \
    and np.abs(more - lens).max() < 1e-6
print('VIOLATION: exact zeros returned beyond k rho = 390' if bad else 'ok')
sys.exit(1 if bad else 0)
