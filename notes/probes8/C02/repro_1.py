"""Lens(theta, Mie()) with its DEFAULT quadrature (quad_npts_phi=100) returns
scattered fields that are wrong by factors of 10-50 once
k*rho*sin(lens_angle) exceeds ~quad_npts_phi (rho ~ 11 um for water / 660 nm /
lens_angle 0.8), while MieLens (same physics, azimuth done analytically) and
Lens with a finer azimuthal quadrature agree with each other to 1e-9."""
import sys, os; sys.path.insert(0, os.getcwd())
import warnings; warnings.filterwarnings('ignore')
import numpy as np
import holopy
from holopy.scattering import Sphere, Mie, MieLens, calc_field
from holopy.scattering.theory import Lens
from holopy.core import detector_points
print(holopy.__file__)
nmed, wl = 1.33, 0.66
k = 2 * np.pi * nmed / wl
s = Sphere(n=1.59, r=0.5, center=(0, 0, 10))
xs = np.array([5., 8., 11., 14., 17., 20.])     # pixels of an ordinary 256 x 0.1um image
det = detector_points(x=xs, y=0 * xs, z=0 * xs)
la = 0.8
exact = calc_field(det, s, nmed, wl, (1, 0), theory=MieLens(
    la, {'interpolate_integrals': False, 'quad_npts': 400})).values[:, 0]
fine = calc_field(det, s, nmed, wl, (1, 0), theory=Lens(
    la, Mie(), quad_npts_theta=400, quad_npts_phi=400)).values[:, 0]
default = calc_field(det, s, nmed, wl, (1, 0), theory=Lens(la, Mie())).values[:, 0]
print('rho (um)          ', xs)
print('k rho sin(angle)  ', np.round(k * xs * np.sin(la), 1))
print('|E| MieLens(400)  ', np.abs(exact))
print('|E| Lens 400x400  ', np.abs(fine))
print('|E| Lens default  ', np.abs(default))
rel = np.abs(default - exact) / np.abs(exact)
print('relative error of the default Lens:', rel)
ok_fine = np.abs(fine - exact).max() < 1e-6
bad = ok_fine and rel.max() > 1.0
print('VIOLATION' if bad else 'ok')
sys.exit(1 if bad else 0)
