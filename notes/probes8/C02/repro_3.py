"""AberratedMieLens: the documented pupil phase for coefficients (c3, c5, c7,..)
is sum_j c_j * x**(j+2) with x = cos(theta) - 1 (pure powers, 'ascending
order'); the code evaluates a LEGENDRE series (numpy legval) in x, so from the
third coefficient on every coefficient also feeds the lower orders
(P2(x) = (3x^2-1)/2): [0, 0, c] acts mostly as a 3rd-order aberration of
strength -c/2."""
import sys, os; sys.path.insert(0, os.getcwd())
import warnings; warnings.filterwarnings('ignore')
import numpy as np
import holopy
from holopy.scattering.theory.mielensfunctions import AberratedMieLensCalculator
print(holopy.__file__)
kw = dict(particle_kz=10., index_ratio=1.2, size_parameter=5., lens_angle=1.0,
          interpolate_integrals=False)
viol = False
for coeffs in ([1.0], [1.0, 2.0], [0.0, 0.0, 3.0], [1.0, 2.0, 3.0]):
    calc = AberratedMieLensCalculator(spherical_aberration=coeffs, **kw)
    x = calc._pupil_x_squared          # cos(theta) - 1 at the quadrature points
    got = calc._calculate_aberrated_phase()
    documented = sum(c * x**(j + 2) for j, c in enumerate(coeffs))
    err = np.abs(got - documented).max()
    print(coeffs, 'max |phase - documented power series| =', err,
          ' max |documented| =', np.abs(documented).max())
    if err > 1e-9:
        viol = True
# [0,0,c] is the same phase as the 'lower order' list [-c/2, 0, 0] + 1.5c x^4
a = AberratedMieLensCalculator(spherical_aberration=[0, 0, 3.0], **kw)._calculate_aberrated_phase()
x = AberratedMieLensCalculator(spherical_aberration=[0, 0, 3.0], **kw)._pupil_x_squared
print('[0,0,3] phase == -1.5 x^2 + 4.5 x^4 :', np.allclose(a, -1.5 * x**2 + 4.5 * x**4, atol=1e-14))
print('VIOLATION' if viol else 'ok')
sys.exit(1 if viol else 0)
