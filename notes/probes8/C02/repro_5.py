"""Minor: three opaque crashes on legitimate inputs (no wrong values).
 a) LayeredSphere(...).num_domains -> ValueError (truth value of an array): `if self.n:`
 b) MieScatteringMatrix / MieLens for x*Im(m) > ~709 -> IndexError: list index out of range
 c) calc_scat_matrix(detector, sphere, n_med, [wl1, wl2]) (documented: 'adds a dimension')
    -> AttributeError: 'bool' object has no attribute 'dims'"""
import sys, os; sys.path.insert(0, os.getcwd())
import warnings; warnings.filterwarnings('ignore')
import numpy as np
import holopy
from holopy.scattering import Sphere, LayeredSphere, Mie, calc_scat_matrix
from holopy.scattering.theory.mielensfunctions import MieScatteringMatrix
from holopy.core import detector_points
print(holopy.__file__)
n_bad = 0
def attempt(label, f):
    global n_bad
    try:
        print(label, '->', f())
    except Exception as e:
        n_bad += 1
        print(label, '-> raised', type(e).__name__, ':', e)
attempt('a) Sphere(n=[..]).num_domains       ', lambda: Sphere(n=[1.5, 1.4], r=[.3, .5]).num_domains)
attempt('a) LayeredSphere(n=[..]).num_domains', lambda: LayeredSphere(n=[1.5, 1.4], t=[.3, .2]).num_domains)
attempt('b) Mie S(theta) x=300 m=1.5+2.5j    ', lambda: calc_scat_matrix(
    detector_points(theta=[0.3], phi=[0.]), Sphere(n=1.5 + 2.5j, r=300 / (2 * np.pi)), 1.0, 1.0,
    theory=Mie()).values[0, 0, 0])
attempt('b) MieScatteringMatrix same sphere   ', lambda: MieScatteringMatrix(
    'parallel', 1.5 + 2.5j, 300.)._eval(np.array([0.3])))
attempt('c) calc_scat_matrix, two wavelengths ', lambda: calc_scat_matrix(
    detector_points(theta=[0.3], phi=[0.]), Sphere(n=1.59, r=0.5), 1.33, [0.66, 0.5],
    theory=Mie()).shape)
sys.exit(1 if n_bad else 0)
