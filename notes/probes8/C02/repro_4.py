"""MieLens / AberratedMieLens: `calculator_accuracy_kwargs={}` is a default
argument evaluated once and stored by reference, so every theory built with the
default shares ONE dictionary: tuning the accuracy of one theory object changes
all other (existing and future) default-constructed theories."""
import sys, os; sys.path.insert(0, os.getcwd())
import warnings; warnings.filterwarnings('ignore')
import numpy as np
import holopy
from holopy.scattering import Sphere, MieLens, calc_field
from holopy.scattering.theory import AberratedMieLens
from holopy.core import detector_points
print(holopy.__file__)
xs = np.array([1., 3., 6.])
det = detector_points(x=xs, y=0 * xs, z=0 * xs)
s = Sphere(n=1.59, r=0.5, center=(0, 0, 10))
coarse = MieLens(lens_angle=0.8)
coarse.calculator_accuracy_kwargs['interpolate_integrals'] = False
ref = calc_field(det, s, 1.33, 0.66, (1, 0), theory=MieLens(
    0.8, {'interpolate_integrals': False})).values[:, 0]
coarse.calculator_accuracy_kwargs['quad_npts'] = 5     # a deliberately rough theory
other = MieLens(lens_angle=0.8)                        # a new, 'default' theory
third = AberratedMieLens(0.0, 0.8)
print('new MieLens().calculator_accuracy_kwargs =', other.calculator_accuracy_kwargs)
print('same object:', other.calculator_accuracy_kwargs is coarse.calculator_accuracy_kwargs,
      third.calculator_accuracy_kwargs is coarse.calculator_accuracy_kwargs)
got = calc_field(det, s, 1.33, 0.66, (1, 0), theory=other).values[:, 0]
err = np.abs(got - ref).max() / np.abs(ref).max()
print('relative error of the freshly built default theory:', err)
bad = other.calculator_accuracy_kwargs.get('quad_npts') == 5 and err > 1e-3
print('VIOLATION' if bad else 'ok')
sys.exit(1 if bad else 0)
