"""Bounds / widths that make no sense but are NaN (or an infinite width) pass
every construction check, because the checks are written as `a >= b` / `sd <=
0`, which are False for NaN.  The objects then return NaN densities."""
import sys, os; sys.path.insert(0, os.getcwd())
import warnings
warnings.simplefilter('ignore')
import numpy as np
from holopy.core.prior import Uniform, Gaussian, BoundedGaussian
from holopy.scattering.errors import ParameterSpecificationError

accepted = []
for label, build in [
        ('Uniform(nan, 1)', lambda: Uniform(np.nan, 1)),
        ('Uniform(0, nan)', lambda: Uniform(0, np.nan)),
        ('Uniform(0, 1, guess=nan)', lambda: Uniform(0, 1, guess=np.nan)),
        ('Gaussian(0, nan)', lambda: Gaussian(0, np.nan)),
        ('Gaussian(nan, 1)', lambda: Gaussian(np.nan, 1)),
        ('Gaussian(0, inf)', lambda: Gaussian(0, np.inf)),
        ('BoundedGaussian(0, 1, nan, 1)',
         lambda: BoundedGaussian(0, 1, np.nan, 1)),
        ('BoundedGaussian(0, 1, -1, nan)',
         lambda: BoundedGaussian(0, 1, -1, np.nan))]:
    try:
        p = build()
    except (ParameterSpecificationError, ValueError, TypeError) as e:
        print(label, 'rejected:', e)
        continue
    accepted.append(label)
    print(label, 'ACCEPTED; guess', p.guess, 'scale_factor', p.scale_factor,
          'lnprob(0.5) =', p.lnprob(0.5))
u = Uniform(0, 1)
print('Uniform(0, 1).lnprob(nan) =', u.lnprob(np.nan),
      '(a NaN value is counted as inside the support)')
sys.exit(1 if accepted else 0)
