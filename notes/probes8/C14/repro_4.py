"""State frozen at construction: Gaussian._lnprob_normalization and
Uniform._lnprob / guess / scale_factor are computed once in __init__, while
prob(), variance and interval read the live attributes.  After an attribute
is changed (priors are plain attribute holders, `renamed` copies them, and
yaml writes the live attributes) lnprob no longer equals log(prob), and a
save/load round trip of the very same object changes its lnprob."""
import sys, os; sys.path.insert(0, os.getcwd())
import numpy as np, yaml
from holopy.core.prior import Uniform, Gaussian
from holopy.core.holopy_object import FullLoader

bad = False
g = Gaussian(1, 2)
g.sd = 4
g2 = yaml.load(yaml.dump(g, Dumper=g.yaml_dumper), Loader=FullLoader)
print('Gaussian(1, 2) then sd = 4: lnprob(1) =', g.lnprob(1),
      ' log(prob(1)) =', np.log(g.prob(1)), ' reloaded lnprob(1) =',
      g2.lnprob(1), ' equal objects:', g == g2)
bad |= not np.isclose(g.lnprob(1), np.log(g.prob(1)))
u = Uniform(0, 1)
u.upper_bound = 10
u2 = yaml.load(yaml.dump(u, Dumper=u.yaml_dumper), Loader=FullLoader)
print('Uniform(0, 1) then upper_bound = 10: lnprob(5) =', u.lnprob(5),
      ' log(prob(5)) =', np.log(u.prob(5)), ' reloaded lnprob(5) =',
      u2.lnprob(5))
bad |= not np.isclose(u.lnprob(5), np.log(u.prob(5)))
sys.exit(1 if bad else 0)
