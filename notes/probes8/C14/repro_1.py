"""A derived prior that has an array (or list) among its operands:
sample(size=n) pairs the draws with np.repeat(array, n), i.e. with the
flattened, element-wise repeated array, so every draw is combined with the
FIRST element only and the result has shape (n,) instead of (n, len(array)).
guess and sample(None) are right; sample(n) is silently wrong.
Also: `arr + p` (one array-valued TransformedPrior) and `p + arr` (an array
of TransformedPriors) are two code paths that do not agree."""
import sys, os; sys.path.insert(0, os.getcwd())
import numpy as np
from holopy.core.prior import Uniform, TransformedPrior


class Rec(Uniform):          # records its own draws, otherwise a Uniform
    def sample(self, size=None):
        self.last = super().sample(size)
        return self.last


bad = False
arr = np.array([10., 20.])
for label, build, ref in [
        ('arr * p', lambda p: arr * p, lambda s: np.multiply.outer(s, arr)),
        ('p ** arr', lambda p: p ** arr, lambda s: np.power.outer(s, arr)),
        ('np.hypot(p, [3, 4])', lambda p: np.hypot(p, [3, 4]),
         lambda s: np.hypot.outer(s, [3, 4])),
        ('arr - p', lambda p: arr - p, lambda s: -np.subtract.outer(s, arr))]:
    p = Rec(1, 3)
    e = build(p)
    assert isinstance(e, TransformedPrior)
    one = e.sample()
    print(label, ': guess', e.guess, '| sample(None)', one, 'from draw', p.last)
    for n in (1, 3):
        s = e.sample(n)
        expect = ref(p.last)
        ok = np.shape(s) == np.shape(expect) and np.allclose(s, expect)
        print('   sample(%d) ->' % n, s, '| the operation applied to the '
              'draws', p.last, 'gives', expect.tolist(), '| OK' if ok else
              '| WRONG')
        bad = bad or not ok
p = Uniform(1, 3)
left, right = arr + p, p + arr
print('type(arr + p) =', type(left).__name__, '; type(p + arr) =',
      type(right).__name__)
zero = np.array([1, 0])
try:
    p * zero
    print('p * [1, 0] accepted')
except TypeError as e:
    print('p * array([1, 0]) raises:', e)
try:
    r = zero * p
    print('array([1, 0]) * p accepted ->', type(r).__name__, 'guess', r.guess)
except TypeError as e:
    print('array([1, 0]) * p raises:', e)
sys.exit(1 if bad else 0)
