"""make_center_priors on a hologram whose pixels are not square: the centre
prior is a Gaussian of 1 pixel width placed many pixels (10+ sigma) away from
the true centre, silently.  center_find votes along Sobel gradients taken in
PIXEL units, which point at the centre only if dx == dy; make_center_priors
multiplies that result by the (x, y) spacing as if it were right for any grid.
"""
import sys, os; sys.path.insert(0, os.getcwd())
import warnings
warnings.simplefilter('ignore')
import numpy as np
from holopy.core.prior import make_center_priors
from holopy.core.metadata import detector_grid
from holopy.scattering import Sphere, calc_holo

bad = False
for shape, spacing, centre in [((100, 100), (0.1, 0.1), (5, 5)),
                               ((100, 100), (0.1, 0.2), (5, 10)),
                               ((64, 64), (0.1, 0.12), (3.2, 3.8)),
                               ((64, 48), (0.1, 0.15), (3, 4))]:
    det = detector_grid(shape, spacing)
    sphere = Sphere(n=1.59, r=0.5, center=(centre[0], centre[1], 10))
    holo = calc_holo(det, sphere, 1.33, 0.66, (1, 0))
    px, py, pz = make_center_priors(holo)
    z = [float((p.mu - t) / p.sd) for p, t in zip((px, py), centre)]
    print('spacing', spacing, 'true centre', centre, '-> prior means',
          (round(float(px.mu), 3), round(float(py.mu), 3)), 'sd',
          (float(px.sd), float(py.sd)), 'distance in sd: %.1f, %.1f' % tuple(z))
    if spacing[0] != spacing[1] and max(abs(z[0]), abs(z[1])) > 4:
        bad = True
print('VIOLATION: centre prior excludes the true centre' if bad else 'ok')
sys.exit(1 if bad else 0)
