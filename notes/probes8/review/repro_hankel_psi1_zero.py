# REGRESSION (commit 7336f23): at a zero of psi_1 (tan x = x) the closed-form psi(1) no longer
# cancels against the divisor 2/x + dn1(2) of the next step; psi(2..n) lose every digit and the
# one-sphere Multisphere cross sections are ~75 % off Lorenz-Mie.  The pre-fix build was exact here.
# run from the scratch dir:  /venv/bin/python repro_hankel_psi1_zero.py   (exit 1 = problem present)
import sys, os, warnings
sys.path.insert(0, os.getcwd()); warnings.simplefilter('ignore')
import numpy as np
from holopy.scattering import Sphere, Mie, Multisphere, calc_cross_sections
bad = 0
for x in (4.4934094579090642, 7.7252518369377068, 10.904121659428899):
    s = Sphere(n=1.59, r=x/(2*np.pi), center=(0, 0, 5))
    mie = np.asarray(calc_cross_sections(s, 1.0, 1.0, (1, 0), theory=Mie()))
    ms = np.asarray(calc_cross_sections(s, 1.0, 1.0, (1, 0), theory=Multisphere()))
    err = abs(ms[0]/mie[0] - 1)
    print('x = %.16g  C_scat Mie %.6f  Multisphere %.6f  rel err %.1e' % (x, mie[0], ms[0], err))
    bad |= err > 1e-6
sys.exit(1 if bad else 0)
