# REGRESSION (commit 7336f23): psi(1) = sin(x)/x - cos(x) cancels for small x (psi_1 ~ x^2/3):
# relative error ~ 1e-16/x^2 in every psi(n>=1) (1e-10 at x=1e-3, 2e-8 at 1e-4, 3e-6 at 1e-5);
# the pre-fix quotient was exact to rounding there.
# run from the scratch dir (exit 1 = problem present)
import sys, os, warnings
sys.path.insert(0, os.getcwd()); warnings.simplefilter('ignore')
import numpy as np
from holopy.scattering.theory.mie_f import scsmfo_min
bad = 0
for x in (1e-5, 1e-4, 1e-3):
    xi = np.zeros(12, dtype=complex); scsmfo_min.hankel(5, x, xi)
    # series: psi_1 = x^2/3 (1 - x^2/10 + x^4/280), psi_2 = x^3/15 (1 - x^2/14)
    p1 = x*x/3*(1 - x*x/10 + x**4/280); p2 = x**3/15*(1 - x*x/14)
    e1 = abs(xi[1].real/p1 - 1); e2 = abs(xi[2].real/p2 - 1)
    print('x = %g  rel err psi1 %.1e  psi2 %.1e' % (x, e1, e2))
    bad |= max(e1, e2) > 1e-12
from holopy.scattering import Sphere, Mie, Multisphere, calc_cross_sections
s = Sphere(n=1.59, r=1e-4/(2*np.pi), center=(0, 0, 5))
g_mie = float(calc_cross_sections(s, 1.0, 1.0, (1, 0), theory=Mie())[3]); g_ms = float(calc_cross_sections(s, 1.0, 1.0, (1, 0), theory=Multisphere())[3])
print('x = 1e-4 asymmetry parameter: Mie %.4e  Multisphere %.4e' % (g_mie, g_ms))
bad |= abs(g_ms/g_mie - 1) > 1e-3
sys.exit(1 if bad else 0)
