# The commit says every azimuth comes back in [0, 2 pi).  x % (2 pi) of a tiny negative x
# rounds to 2 pi itself, so 2 pi is still returned (all four routes that reduce phi).
import sys, os; sys.path.insert(0, os.getcwd())
import numpy as np
from holopy.core.math import find_transformation_function as F
two_pi = 2 * np.pi; bad = 0
for a, b, v in (('cylindrical', 'spherical', [1., -1e-20, 1.]), ('spherical', 'cylindrical', [1., .3, -1e-20]),
                ('cartesian', 'spherical', [1., -1e-20, 1.]), ('cartesian', 'cylindrical', [1., -1e-20, 1.])):
    out = F(a, b)([np.array([x]) for x in v])
    phi = out[2 if b == 'spherical' else 1][0]
    print(a, '->', b, 'phi =', repr(phi), 'in [0, 2pi):', 0 <= phi < two_pi)
    bad += not (0 <= phi < two_pi)
sys.exit(1 if bad else 0)
