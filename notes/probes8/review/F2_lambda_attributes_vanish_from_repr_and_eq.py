"""HoloPyObject._iteritems (used by repr, ==, _dict, not only by save) now drops functions
that cannot be found by name.  Objects differing only in such a function compare equal and
their repr no longer shows it; TransformedPrior (transformation is a REQUIRED argument)
still cannot be loaded, now with a TypeError about a missing argument."""
import sys, os, warnings
warnings.simplefilter('ignore')
sys.path.insert(0, os.getcwd())
import numpy as np, yaml
from holopy.core.holopy_object import FullLoader
from holopy.core.prior import TransformedPrior, Uniform
from holopy.inference import CmaStrategy, ExactModel
from holopy.scattering import Sphere, calc_holo, calc_intensity
bad = 0
u = Uniform(0, 1, name='u')
a, b = TransformedPrior(lambda x: x + 1, u), TransformedPrior(lambda x: 2 * x, u)
print('TransformedPrior(x+1) == TransformedPrior(2x):', a == b); bad += (a == b)
print('repr shows the transformation:', 'transformation' in repr(a)); bad += 'transformation' not in repr(a)
try:
    yaml.load(yaml.dump(a), Loader=FullLoader); print('TransformedPrior(lambda) loads')
except Exception as e:
    print('load of saved TransformedPrior(lambda):', type(e).__name__, str(e)[:90]); bad += isinstance(e, TypeError)
c = CmaStrategy(weight_function=lambda i, n: 1.)
print('CmaStrategy(weight_function=lambda) == CmaStrategy():', c == CmaStrategy()); bad += (c == CmaStrategy())
s = Sphere(r=.5, n=1.5, center=(1, 1, 5))
m1 = ExactModel(s, lambda *a, **k: calc_holo(*a, **k)); m2 = ExactModel(s, lambda *a, **k: calc_intensity(*a, **k))
print('ExactModel(lambda holo) == ExactModel(lambda intensity):', m1 == m2); bad += (m1 == m2)
sys.exit(1 if bad else 0)
