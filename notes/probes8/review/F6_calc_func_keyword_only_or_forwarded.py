"""calc_func is written only if named among the POSITIONAL arguments of type(self).__init__
(co_varnames[:co_argcount]): a subclass taking it keyword-only, or forwarding *args/**kwargs
to ExactModel, loses it on save and silently reloads with calc_holo (round trip was right
before 636074f)."""
import sys, os, warnings
warnings.simplefilter('ignore')
sys.path.insert(0, os.getcwd())
import yaml
from holopy.core.holopy_object import FullLoader
from holopy.inference import ExactModel
from holopy.scattering import Sphere, calc_holo, calc_intensity
class KwOnly(ExactModel):
    def __init__(self, scatterer, *, calc_func=calc_holo, **kwargs):
        super().__init__(scatterer, calc_func=calc_func, **kwargs)
class Forwarding(ExactModel):
    def __init__(self, *args, **kwargs):
        super().__init__(*args, **kwargs)
s = Sphere(r=.5, n=1.5, center=(1, 1, 5)); bad = 0
for cls in (KwOnly, Forwarding):
    m = cls(s, calc_func=calc_intensity, noise_sd=.1)
    m2 = yaml.load(yaml.dump(m), Loader=FullLoader)
    print(cls.__name__, 'reloaded calc_func:', m2.calc_func.__name__, '| == original:', m2 == m)
    bad += m2.calc_func is not calc_intensity
sys.exit(1 if bad else 0)
