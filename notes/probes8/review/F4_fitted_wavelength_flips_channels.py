"""Detector labelled by wavelength ([.52, .66]); model wavelengths given as a list with a
prior: [Uniform(.6, .7, guess=.66), .52].  The 'labelled by these wavelengths themselves'
test compares VALUES, so the channel a wavelength goes to depends on whether the sampled
value happens to equal a label: at .66 exactly channel .66 is computed at .66, at
.66000001 channel .66 is computed at .52 (positional).  The forward model is discontinuous
in the fitted parameter.  Before 31a851e: positional for every value."""
import sys, os
sys.path.insert(0, os.getcwd())
import numpy as np
from holopy.inference import AlphaModel
from holopy.scattering import Sphere
from holopy.core import prior
from holopy.core.metadata import detector_grid
sph = Sphere(r=.5, n=1.5, center=(.25, .25, 5))
det = detector_grid(5, .1, extra_dims={'illumination': [.52, .66]})
m = AlphaModel(sph, noise_sd=.1, alpha=.7, medium_index=1.33, illum_polarization=(1, 0),
               illum_wavelen=[prior.Uniform(.6, .7, guess=.66), .52])
name = list(m.parameters)[0]
a = m.forward({name: .66}, det)
b = m.forward({name: .66000001}, det)
jump = float(abs(a.sel(illumination=.66) - b.sel(illumination=.66)).max())
print('max change of channel .66 for a 1e-8 change of the wavelength:', jump)
sys.exit(1 if jump > 1e-3 else 0)
