# Incomplete: one prior among the semi-axes switches the whole sign check off
# (np.array(r) < 0 raises TypeError for the object array -> except: pass), so a negative
# NUMBER next to a prior is still accepted, with the inverted bounding box the fix is about.
import sys, os; sys.path.insert(0, os.getcwd())
import warnings; warnings.filterwarnings('ignore')
from holopy.scattering import Ellipsoid
from holopy.scattering.errors import InvalidScatterer
from holopy.core.prior import Uniform
try:
    e = Ellipsoid(n=1.5, r=(Uniform(.1, 1), -.2, .3), center=(0, 0, 0))
except InvalidScatterer:
    print('refused'); sys.exit(0)
print('ACCEPTED', e.r)
sys.exit(1)
