# Incomplete: the centre shape check lives in CenteredScatterer.__init__, but Spheroid,
# JanusSphere_Uniform, JanusSphere_Tapered (set self.center themselves, never call
# super().__init__) and the base Scatterer(indicators, n, center) never run it.
import sys, os; sys.path.insert(0, os.getcwd())
import warnings; warnings.filterwarnings('ignore')
import numpy as np
from holopy.scattering import Spheroid, Sphere
from holopy.scattering.scatterer import JanusSphere_Uniform, JanusSphere_Tapered, Scatterer
from holopy.scattering.errors import InvalidScatterer
col = np.array([[0.], [0.], [5.]])
pts = np.array([[0, 0, 5.], [.1, 0, 5.], [0, .1, 5.]])   # all well inside
bad = 0
mk = {
 'Spheroid': lambda c: Spheroid(n=1.5, r=(.5, .6), center=c),
 'JanusSphere_Uniform': lambda c: JanusSphere_Uniform(n=(1.5, 1.4), r=(.5, .6), center=c),
 'JanusSphere_Tapered': lambda c: JanusSphere_Tapered(n=(1.5, 1.4), r=(.5, .6), center=c),
 'Scatterer': lambda c: Scatterer(lambda p: (p ** 2).sum(-1) < .25, 1.5, c),
}
for name, f in mk.items():
    for cname, c in (('(3,1) column', col), ('scalar 3.0', 3.0), ('(1,2)', (1, 2)), ('3x3', np.zeros((3, 3)))):
        try:
            s = f(c)
        except InvalidScatterer:
            continue
        except Exception as e:
            print(name, cname, 'other error', type(e).__name__); continue
        bad += 1
        msg = ''
        if cname.startswith('(3,1)'):
            try:
                msg = ' contains(3 interior points) -> %s ; reference %s' % (s.contains(pts), f((0, 0, 5.)).contains(pts))
            except Exception as e:
                msg = ' contains -> %s' % type(e).__name__
        print('ACCEPTED', name, 'center =', cname, msg)
try:
    Sphere(n=1.5, r=.5, center=col); print('Sphere accepted column'); 
except InvalidScatterer:
    print('(Sphere refuses the column, as intended)')
sys.exit(1 if bad else 0)
