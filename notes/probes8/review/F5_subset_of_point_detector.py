"""052b697 repaired make_subset_data(points, pixels=None, return_selection=True) only; the
same function with pixels=N on the same detector still asks for the 'flat' axis."""
import sys, os, warnings
warnings.simplefilter('ignore')
sys.path.insert(0, os.getcwd())
import numpy as np
from holopy.core.metadata import make_subset_data, detector_points
pts = detector_points(theta=np.linspace(0, 1, 7), phi=0)
print(make_subset_data(pts, None, True)[1])
try:
    sub, sel = make_subset_data(pts, 3, True, seed=1)
    print(sel, sub.dims)
except KeyError as e:
    print('pixels=3: KeyError', e); sys.exit(1)
