# Regression: transform_spherical_to_cylindrical took nested Python lists before
# (list * ndarray works, phi was handed on); `phi % (2*np.pi)` on a list raises TypeError.
import sys, os; sys.path.insert(0, os.getcwd())
import numpy as np
from holopy.core.math import find_transformation_function
f = find_transformation_function('spherical', 'cylindrical')
try:
    print(f([[1., 2.], [.3, .4], [-.5, 7.]])); sys.exit(0)
except TypeError as e:
    print('TypeError:', e); sys.exit(1)
