"""Detector whose channels are labelled by the wavelengths ([.52, .66]); positional
wavelengths in the other order ([.66, .52]).  With one polarisation the list is
labelled by value (channel .52 computed at .52 -- commit 31a851e case 1).  With
per-channel polarisations naming the same channels the new 'detector order' rule
wins and channel .52 is computed at .66 (was right before 31a851e when the
polarisation happened to be stored in the list's order)."""
import sys, os
sys.path.insert(0, os.getcwd())
import numpy as np
from holopy.scattering import Sphere, calc_field
from holopy.core.metadata import detector_grid

sph = Sphere(r=.5, n=1.5, center=(.25, .25, 5))
det = detector_grid(5, .1, extra_dims={'illumination': [.52, .66]})
one = detector_grid(5, .1)
pols = {.66: (1, 0), .52: (0, 1)}
bad = 0
f1 = calc_field(det, sph, 1.33, [.66, .52], (1, 0))          # single polarisation
f2 = calc_field(det, sph, 1.33, [.66, .52], pols)            # per-channel polarisations
for name, f, p in (('single pol', f1, {.66: (1, 0), .52: (1, 0)}), ('per-channel pol', f2, pols)):
    for lab in (.52, .66):
        ref = calc_field(one, sph, 1.33, lab, p[lab]).values
        ok = np.allclose(f.sel(illumination=lab).values, ref)
        print(name, 'channel', lab, 'computed at its own wavelength:', ok)
        bad += not ok
sys.exit(1 if bad else 0)
