"""ignore_aliases tests (str, bool, int, float) only: np.int64 / np.int32 (and complex) are
numbers too, still get &id001, and now the text of the reloaded object differs from the
text it was loaded from (before 31e8a33 both texts had the anchor)."""
import sys, os, warnings
warnings.simplefilter('ignore')
sys.path.insert(0, os.getcwd())
import numpy as np, yaml
import holopy
from holopy.core.holopy_object import FullLoader
from holopy.inference import EmceeStrategy
bad = 0
for n in (np.int64(50), np.int32(50), 1.5 + .1j):
    o = EmceeStrategy(nwalkers=n, nsamples=n) if not isinstance(n, complex) else [n, n]
    s = yaml.dump(o, default_flow_style=True)
    s2 = yaml.dump(yaml.load(s, Loader=FullLoader), default_flow_style=True)
    print(type(n).__name__, '| anchor on a number:', '&id' in s, '| re-save identical:', s == s2)
    bad += ('&id' in s)
sys.exit(1 if bad else 0)
