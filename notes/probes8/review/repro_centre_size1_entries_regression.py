# Regression (behaviour change): a centre whose entries are a mix of plain numbers and
# size-1 arrays (what x.values / df[['x']].values / a length-1 selection give) computed a
# correct hologram before the fix; now InvalidScatterer at construction.
import sys, os; sys.path.insert(0, os.getcwd())
import warnings; warnings.filterwarnings('ignore')
import numpy as np, xarray as xr
import holopy as hp
from holopy.scattering import Sphere, calc_holo
from holopy.scattering.errors import InvalidScatterer
det = hp.detector_grid(8, .2)
kw = dict(medium_index=1.33, illum_wavelen=.66, illum_polarization=(1, 0))
ref = calc_holo(det, Sphere(n=1.5, r=.5, center=(1., 2., 3.)), **kw)
track = xr.DataArray([[1., 2.]], dims=['frame', 'xy'])        # one-frame table of positions
c = [track[:, 0].values, track[:, 1].values, 3.]               # [array([1.]), array([2.]), 3.0]
try:
    h = calc_holo(det, Sphere(n=1.5, r=.5, center=c), **kw)
    print('accepted; max diff to reference', float(abs(h - ref).max()))
    sys.exit(0)
except InvalidScatterer as e:
    print('NOW REFUSED:', str(e).replace('\n', ' ')[:160])
    sys.exit(1)
