# REGRESSION (commit 2e8b290): size given as a 1-tuple (accepted by every base prior, and by derived
# priors before the fix) now raises TypeError as soon as the derived prior has a constant operand.
# run from the scratch dir (exit 1 = problem present)
import sys, os
sys.path.insert(0, os.getcwd())
import numpy as np
from holopy.core.prior import Uniform, ComplexPrior
p = Uniform(1, 2); bad = 0
for label, d in (('2*p', 2*p), ('-p', -p), ('p+1', p+1), ('ComplexPrior(p, 0.1)', ComplexPrior(p, 0.1))):
    try:
        r = d.sample((4,)); print(label, 'sample((4,)) ->', r.shape)
        bad |= r.shape != (4,)
    except Exception as e:
        print(label, 'sample((4,)) ->', type(e).__name__, e); bad = 1
print('base prior:', p.sample((4,)).shape)
sys.exit(bad)
