# Regression: semi-axes that do not form a rectangular array (a per-illumination DataArray
# or a size-1 array as one entry) were accepted before; np.array(self.r) in the new sign
# check raises a bare numpy ValueError ('inhomogeneous shape'), which only TypeError is caught.
import sys, os; sys.path.insert(0, os.getcwd())
import warnings; warnings.filterwarnings('ignore')
import numpy as np, xarray as xr
from holopy.scattering import Ellipsoid
from holopy.scattering.errors import InvalidScatterer
ill = xr.DataArray([.5, .6], dims=['illumination'], coords={'illumination': ['red', 'green']})
bad = 0
for name, r in (('per-channel DataArray entry', (ill, .2, .3)), ('size-1 array entry', [np.array([.1]), .2, .3]), ('list entry', ([.1, .2], .2, .3))):
    try:
        Ellipsoid(n=1.5, r=r, center=(0, 0, 0)); print(name, ': accepted')
    except InvalidScatterer as e:
        print(name, ': InvalidScatterer')
    except ValueError as e:
        bad += 1; print(name, ': bare ValueError:', str(e)[:80])
# the dictionary form of the same per-channel value is accepted (TypeError path):
Ellipsoid(n=1.5, r=({'red': .5, 'green': .6}, .2, .3), center=(0, 0, 0))
sys.exit(1 if bad else 0)
