"""MieLens.raw_fields changes the `positions` array it is given (the azimuth row
is shifted by the polarisation angle and wrapped, in place); Lens.raw_fields does
not.  A second call with the same array gives a different field."""
import sys, os; sys.path.insert(0, os.getcwd())
import warnings; warnings.filterwarnings('ignore')
import numpy as np
np.NaN = np.nan
import xarray as xr
from holopy.scattering import Sphere, Mie
from holopy.scattering.theory import MieLens, Lens

pol = xr.DataArray([0.6, 0.8, 0], dims='vector',
                   coords={'vector': ['x', 'y', 'z']})
s = Sphere(n=1.59, r=0.5, center=(0, 0, 0))
pos = np.array([[10., 20., 30.], [0.1, 0.2, 0.3], [50., 50., 50.]])
before = pos.copy()
th = MieLens(0.9, {'interpolate_integrals': False})
f1 = th.raw_fields(pos, s, 12.66, 1.33, pol)
after = pos.copy()
f2 = th.raw_fields(pos, s, 12.66, 1.33, pol)
print('phi before:', before[1], ' after one call:', after[1])
print('second call on the same array, rel. diff: %.2e'
      % (np.abs(f2 - f1).max() / np.abs(f1).max()))
pos2 = before.copy()
Lens(0.9, Mie(), 20, 20).raw_fields(pos2, s, 12.66, 1.33, pol)
print('Lens leaves positions alone:', np.array_equal(pos2, before))
bad = not np.array_equal(after, before)
print('VIOLATION' if bad else 'ok')
sys.exit(1 if bad else 0)
