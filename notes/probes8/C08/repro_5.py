"""AberratedMieLens: the docstring says coefficient i of `spherical_aberration`
multiplies a pure power of (cos(theta) - 1) (3rd, 5th, 7th ... order), but the
phase is built with numpy's LEGENDRE-series evaluator `legval`, so the third and
later coefficients also change the lower orders."""
import sys, os; sys.path.insert(0, os.getcwd())
import numpy as np
from holopy.scattering.theory.mielensfunctions import AberratedMieLensCalculator

def phase(c):
    calc = AberratedMieLensCalculator(
        spherical_aberration=c, particle_kz=0., index_ratio=1.2,
        size_parameter=5., lens_angle=0.9, interpolate_integrals=False)
    return calc._pupil_x_squared.ravel(), calc._calculate_aberrated_phase().ravel()

x, p1 = phase([1.0]); _, p2 = phase([0, 1.0]); _, p3 = phase([0, 0, 1.0])
print('c=[1]     -> x^2 :', np.allclose(p1, x**2))
print('c=[0,1]   -> x^3 :', np.allclose(p2, x**3))
print('c=[0,0,1] -> x^4 :', np.allclose(p3, x**4),
      ';  x^2 * P2(x) = 1.5 x^4 - 0.5 x^2 :', np.allclose(p3, 1.5*x**4 - .5*x**2))
bad = not np.allclose(p3, x**4)
print('VIOLATION' if bad else 'ok')
sys.exit(1 if bad else 0)
