"""Beyond krho >= 3.9*quad_npts MieLens silently returns a field of exactly 0
(so a hologram of exactly the background), whereas Lens(Mie) and MieLens with a
finer quadrature return the (non-zero) field."""
import sys, os; sys.path.insert(0, os.getcwd())
import warnings; warnings.filterwarnings('ignore')
import numpy as np
np.NaN = np.nan
from holopy.scattering import calc_field, calc_holo, Sphere, Mie
from holopy.scattering.theory import MieLens, Lens
from holopy.core.metadata import detector_points

wl, nmed = 0.66, 1.33
k = 2 * np.pi * nmed / wl
krho = np.array([380., 389., 391., 420., 500.])
det = detector_points(x=krho / k, y=0 * krho, z=0.)
kw = dict(medium_index=nmed, illum_wavelen=wl, illum_polarization=(1, 0))
s = Sphere(n=1.59, r=0.5, center=(0, 0, 5.))
OFF = {'interpolate_integrals': False}
f100 = calc_field(det, s, theory=MieLens(0.6, OFF), **kw).values[:, 0]
f300 = calc_field(det, s, theory=MieLens(
    0.6, {'quad_npts': 300, 'interpolate_integrals': False}), **kw).values[:, 0]
lens = calc_field(det, s, theory=Lens(0.6, Mie(), 300, 1200), **kw).values[:, 0]
holo = calc_holo(det, s, theory=MieLens(0.6, OFF), **kw).values.ravel()
print('krho                    ', krho)
print('|E| MieLens default     ', np.abs(f100))
print('|E| MieLens quad_npts300', np.abs(f300))
print('|E| Lens(Mie) 300x1200  ', np.abs(lens))
print('hologram - 1 (default)  ', holo - 1)
bad = (np.all(f100[2:] == 0) and np.all(np.abs(f300[2:]) > 0)
       and np.allclose(f300, lens, rtol=1e-6, atol=0)
       and np.allclose(f100[:2], lens[:2], rtol=1e-6, atol=0))
print('VIOLATION' if bad else 'ok')
sys.exit(1 if bad else 0)
