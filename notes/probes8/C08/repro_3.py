"""MieLens.__init__ (and AberratedMieLens.__init__) use a mutable default
`calculator_accuracy_kwargs={}` and store it un-copied: setting an accuracy
option on one default-constructed theory changes every other one, existing
or created later."""
import sys, os; sys.path.insert(0, os.getcwd())
import warnings; warnings.filterwarnings('ignore')
import numpy as np
np.NaN = np.nan
from holopy.scattering import calc_field, Sphere
from holopy.scattering.theory import MieLens
from holopy.scattering.theory.mielens import AberratedMieLens
from holopy.core.metadata import detector_grid

existing = MieLens(lens_angle=0.9)
coarse = MieLens(lens_angle=0.9)
coarse.calculator_accuracy_kwargs['quad_npts'] = 6       # a quick preview theory
coarse.calculator_accuracy_kwargs['interpolate_integrals'] = False
later = MieLens(lens_angle=0.9)
print('existing theory :', existing)
print('later theory    :', later)
det = detector_grid(shape=(6, 6), spacing=0.5)
s = Sphere(n=1.59, r=0.5, center=(1.2, 1.3, 8.))
kw = dict(medium_index=1.33, illum_wavelen=0.66, illum_polarization=(1, 0))
ref = calc_field(det, s, theory=MieLens(
    0.9, {'interpolate_integrals': False}), **kw).values
got = calc_field(det, s, theory=later, **kw).values
err = np.abs(got - ref).max() / np.abs(ref).max()
print('field of a freshly built MieLens(0.9) vs reference: rel. diff %.2e' % err)
a1 = AberratedMieLens(0.0); a1.calculator_accuracy_kwargs['quad_npts'] = 6
print('AberratedMieLens built afterwards:', AberratedMieLens(0.0))
bad = (later.calculator_accuracy_kwargs is existing.calculator_accuracy_kwargs
       and 'quad_npts' in later.calculator_accuracy_kwargs and err > 1e-6)
# tidy up the shared default
coarse.calculator_accuracy_kwargs.clear(); a1.calculator_accuracy_kwargs.clear()
print('VIOLATION' if bad else 'ok')
sys.exit(1 if bad else 0)
