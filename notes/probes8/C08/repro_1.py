"""MieLens with its default pupil quadrature (quad_npts=100) returns wrong fields
INSIDE the radial range it declares valid (krho < 3.9*quad_npts) for wide lens
angles / defocused particles: refining the quadrature changes the result by
O(1), and the generic Lens(Mie) wrapper agrees with the refined value."""
import sys, os; sys.path.insert(0, os.getcwd())
import warnings; warnings.filterwarnings('ignore')
import numpy as np
np.NaN = np.nan
import holopy
from holopy.scattering import calc_field, Sphere, Mie
from holopy.scattering.theory import MieLens, Lens
from holopy.core.metadata import detector_points
print(holopy.__file__)

wl, nmed = 0.66, 1.33
k = 2 * np.pi * nmed / wl
krho = np.array([0., 100., 150., 200., 250., 300., 350., 389.])   # all < 390
det = detector_points(x=krho / k, y=0 * krho, z=0.)
kw = dict(medium_index=nmed, illum_wavelen=wl, illum_polarization=(1, 0))
bad = False
for la, kz, x in [(1.4, 300., 5.), (1.2, 0., 1.), (1.0, -150., 20.)]:
    s = Sphere(n=1.59, r=x / k, center=(0, 0, kz / k))
    f = {q: calc_field(det, s, theory=MieLens(
            la, {'quad_npts': q, 'interpolate_integrals': False}),
            **kw).values[:, 0] for q in (100, 400, 800)}
    lens = calc_field(det, s, theory=Lens(la, Mie(), 500, 900),
                      **kw).values[:, 0]
    print('lens_angle %.1f  kz %.0f  ka %.0f' % (la, kz, x))
    print('  krho                 ', krho)
    print('  |E| default (100 pts)', np.abs(f[100]).round(5))
    print('  |E| 400 pts          ', np.abs(f[400]).round(5))
    print('  |E| Lens(Mie) 500x900', np.abs(lens).round(5))
    e100 = np.abs(f[100] - f[800]) / np.abs(f[800])
    e400 = np.abs(f[400] - f[800]) / np.abs(f[800])
    elens = np.abs(lens - f[800]) / np.abs(f[800])
    print('  rel. change 100->800 ', e100.round(4))
    print('  rel. change 400->800  %.1e   Lens vs 800: %.1e'
          % (e400.max(), elens.max()))
    if e100.max() > 1e-2 and e400.max() < 1e-6 and elens.max() < 1e-6:
        bad = True
print('VIOLATION' if bad else 'ok')
sys.exit(1 if bad else 0)
