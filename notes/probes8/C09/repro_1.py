"""Multisphere's "particle separation too large" guard looks only at POSITIVE
centroid-centred coordinates: `(centers > 1e4).any()` (multisphere.py:181).
The same cluster rotated by 180 degrees about the optical axis (or mirrored)
is refused in one orientation and silently computed (with a hopelessly
truncated cluster expansion) in the other."""
import sys, os; sys.path.insert(0, os.getcwd())
import warnings; warnings.filterwarnings('ignore')
import numpy as np
import holopy as hp
from holopy.scattering import Sphere, Spheres, Mie, Multisphere, calc_field
from holopy.scattering.errors import InvalidScatterer

pts = np.array([[0.3, 0.2, 0.], [-0.4, 0.5, 0.], [0.1, -0.6, 0.]])
optics = dict(medium_index=1.33, illum_wavelen=0.66)


def run(sign):
    # `sign` = +1: configuration as is; -1: rotated by pi about the z axis
    # (scatterers, detector points and polarisation all rotated together)
    S = Spheres([Sphere(n=1.59, r=0.4, center=(0, 0, 6)),
                 Sphere(n=1.59, r=0.4, center=(0, sign * 1.0, 6)),
                 Sphere(n=1.59, r=0.4, center=(sign * 1500., 0, 6))])
    det = hp.detector_points(x=sign * pts[:, 0], y=sign * pts[:, 1],
                             z=pts[:, 2])
    pol = (sign * 1.0, 0)
    out = {}
    for name, theory in [('Multisphere', Multisphere()), ('Mie', Mie())]:
        try:
            f = calc_field(det, S, illum_polarization=pol, theory=theory,
                           **optics).values
            out[name] = f * sign   # rotate the vectors back (z comp. aside)
        except InvalidScatterer as e:
            out[name] = 'InvalidScatterer: ' + str(e).splitlines()[-1]
    return out


a, b = run(+1), run(-1)
print('as given      :', a['Multisphere'] if isinstance(a['Multisphere'], str)
      else 'max|E| = %g' % np.abs(a['Multisphere']).max())
print('rotated by pi :', b['Multisphere'] if isinstance(b['Multisphere'], str)
      else 'max|E| = %g' % np.abs(b['Multisphere']).max())
bad = isinstance(a['Multisphere'], str) != isinstance(b['Multisphere'], str)
if bad:
    ms = b['Multisphere'] if not isinstance(b['Multisphere'], str) \
        else a['Multisphere']
    mie = b['Mie']
    print('silently returned Multisphere field vs Mie superposition: '
          'max|E_ms| = %g, max|E_mie| = %g' % (np.abs(ms).max(),
                                                np.abs(mie).max()))
    print('VIOLATION: the guard fires for one orientation only')
sys.exit(1 if bad else 0)
