"""With the default theory a one-sphere cluster has no scattering matrix and no
cross sections, although the single sphere has both and calc_holo / calc_field
treat the two alike: `_choose_mie_vs_multisphere` answers Mie() for
len(spheres.scatterers) == 1 (and for clusters beyond the 30-radius rule), but
Mie.raw_scat_matrs / Mie.raw_cross_sections refuse a Spheres, and
ImageFormation.calculate_scattering_matrix / calculate_cross_sections have no
superposition (or unwrap-the-single-member) branch as the field path has."""
import sys, os; sys.path.insert(0, os.getcwd())
import warnings; warnings.filterwarnings('ignore')
import numpy as np
import holopy as hp
from holopy.scattering import (Sphere, Spheres, Multisphere, calc_field,
                               calc_scat_matrix, calc_cross_sections)

s = Sphere(n=1.59, r=0.5, center=(0.4, 0.5, 5))
det = hp.detector_points(theta=np.linspace(0.1, 3, 5), phi=np.linspace(0, 6, 5))
grid = hp.detector_grid(shape=(4, 4), spacing=0.2)
bad = False
f1 = calc_field(grid, s, 1.33, .66, (1, 0))
f2 = calc_field(grid, Spheres([s]), 1.33, .66, (1, 0))
print('calc_field  single vs one-sphere cluster (auto):',
      float(abs(f1 - f2).max()))
for name, call in [
        ('calc_scat_matrix', lambda sc, **kw: calc_scat_matrix(
            det, sc, 1.33, .66, **kw)),
        ('calc_cross_sections', lambda sc, **kw: calc_cross_sections(
            sc, 1.33, .66, (1, 0), **kw))]:
    single = call(s)
    try:
        cluster = call(Spheres([s]))
        print(name, 'auto: max difference', float(abs(cluster - single).max()))
    except Exception as e:
        bad = True
        print(name, 'auto on Spheres([s]) ->', type(e).__name__ + ':',
              str(e).replace('\n', ' ')[:90])
    explicit = call(Spheres([s]), theory=Multisphere)
    print(name, 'Multisphere on Spheres([s]) vs single sphere:',
          float(abs(explicit - single).max()))
sys.exit(1 if bad else 0)
