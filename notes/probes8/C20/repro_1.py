# voxelate(spacing, medium_index) ignores medium_index: the voxels outside the
# scatterer are 0 whatever background index is asked for, while
# index_at(points, background) (the function it wraps) honours it.
import sys, os; sys.path.insert(0, os.getcwd())
import numpy as np
from holopy.scattering.scatterer import Sphere, Ellipsoid, Union

bad = False
s1 = Sphere(n=1.5, r=1.0, center=(0, 0, 0))
s2 = Sphere(n=1.5, r=1.0, center=(0, 0, 1.0))
for s in (s1, Sphere(n=[1.5, 1.6], r=[.5, 1.], center=(0, 0, 0)),
          Ellipsoid(n=1.5, r=(1, .5, .8), center=(0, 0, 0)), Union(s1, s2)):
    vox = s.voxelate(0.25, medium_index=1.33)
    ref = s.index_at(s._voxel_coords(0.25), 1.33)
    print(type(s).__name__, 'voxelate(.., medium_index=1.33) values:',
          np.unique(vox), ' index_at(.., 1.33) values:', np.unique(ref))
    if not np.array_equal(vox, ref):
        bad = True
print('VIOLATION: medium_index ignored by voxelate' if bad else 'ok')
sys.exit(1 if bad else 0)
