# Ellipsoid accepts negative semi-axes (Sphere, Spheroid, Cylinder reject
# negative sizes): contains() uses the squares so the sign is lost, bounds come
# out inverted (lower > upper) and voxelate fails with an unrelated message.
import sys, os; sys.path.insert(0, os.getcwd())
import numpy as np
from holopy.scattering.scatterer import Ellipsoid, Sphere
from holopy.scattering.errors import InvalidScatterer
bad = False
try:
    e = Ellipsoid(n=1.5, r=(-1, 2, 3), center=(0, 0, 0))
    bad = True
    print('accepted', e)
    print('bounds', e.bounds)
    print('contains (0.5,0,0):', e.contains([.5, 0, 0]))
    b = np.array(e.bounds); p = np.array([.5, 0, 0])
    print('interior point inside reported bounds:', bool(((p >= b[:, 0]) & (p <= b[:, 1])).all()))
    try:
        e.voxelate(.5)
    except Exception as ex:
        print('voxelate:', repr(ex))
except InvalidScatterer as ex:
    print('rejected')
print('VIOLATION' if bad else 'ok')
sys.exit(1 if bad else 0)
