# LimitOverlaps.check measures the tolerance against np.min(s.r): for a cluster
# of layered spheres Spheres.r holds every layer radius, so the CORE radius
# sets the tolerance instead of the smallest sphere's (outer) diameter, and a
# cluster of spheres with different layer counts makes it raise.
import sys, os; sys.path.insert(0, os.getcwd())
import warnings; warnings.simplefilter('ignore')
import numpy as np
from holopy.scattering.scatterer import Sphere, Spheres
from holopy.inference import LimitOverlaps, AlphaModel, prior
from holopy.scattering import Mie

bad = False
lim = LimitOverlaps(fraction=.1)   # 10 % of the sphere diameter (=0.1 here)
homog = Spheres([Sphere(n=1.59, r=.5, center=(0, 0, 0)),
                 Sphere(n=1.59, r=.5, center=(0, 0, .95))], warn=False)
coated = Spheres([Sphere(n=[1.4, 1.59], r=[.1, .5], center=(0, 0, 0)),
                  Sphere(n=[1.4, 1.59], r=[.1, .5], center=(0, 0, .95))], warn=False)
print('largest overlaps', homog.largest_overlap(), coated.largest_overlap())
print('check homogeneous spheres (outer r .5):', lim.check(homog))
print('check coated spheres      (outer r .5):', lim.check(coated))
if lim.check(homog) != lim.check(coated):
    bad = True
# through a model: the same geometry gets prior -inf
z = prior.Uniform(.5, 2, guess=.95)
def model(sph):
    return AlphaModel(sph, alpha=1, noise_sd=.1, medium_index=1.33, illum_wavelen=.66,
                      illum_polarization=(1, 0), theory=Mie(), constraints=[LimitOverlaps(.1)])
mh = model(Spheres([Sphere(n=1.59, r=.5, center=(0, 0, 0)), Sphere(n=1.59, r=.5, center=(0, 0, z))], warn=False))
mc = model(Spheres([Sphere(n=[1.4, 1.59], r=[.1, .5], center=(0, 0, 0)),
                    Sphere(n=[1.4, 1.59], r=[.1, .5], center=(0, 0, z))], warn=False))
print('lnprior homogeneous', mh.lnprior([.95]), ' coated', mc.lnprior([.95]))
if mh.lnprior([.95]) != mc.lnprior([.95]):
    bad = True
mixed = Spheres([Sphere(n=1.59, r=.5, center=(0, 0, 0)),
                 Sphere(n=[1.4, 1.59], r=[.1, .5], center=(0, 0, .95))], warn=False)
try:
    print('check mixed cluster:', lim.check(mixed))
except Exception as e:
    print('check mixed cluster raises', repr(e)[:90]); bad = True
print('VIOLATION' if bad else 'ok')
sys.exit(1 if bad else 0)
