# Set operations cannot be nested, and a sphere collection has no bounds /
# voxelation: both fail with AttributeError: ... no attribute 'indicators'
# (CsgScatterer and Scatterers never set it; Scatterer.num_domains / bounds
# assume it).
import sys, os; sys.path.insert(0, os.getcwd())
import warnings; warnings.simplefilter('ignore')
from holopy.scattering.scatterer import Sphere, Spheres, Union, Difference
a = Sphere(n=1.5, r=1., center=(0, 0, 0)); b = Sphere(n=1.5, r=1., center=(0, 0, 1.)); c = Sphere(n=1.5, r=.5, center=(0, 1, 0))
bad = False
try:
    d = Difference(Union(a, b), c); print(d.contains([[0, 1.2, 0]]))
except AttributeError as e:
    print('nested CSG:', repr(e)); bad = True
try:
    print(Spheres([a, c]).bounds)
except AttributeError as e:
    print('Spheres.bounds:', repr(e)); bad = True
print('VIOLATION' if bad else 'ok')
sys.exit(1 if bad else 0)
