# Malformed centres that pass CenteredScatterer's check (only len(center) == 3
# is tested): a (3,1) column / (3,3) array, and a centre with a None entry.
# The column centre silently gives three answers for a single query point.
import sys, os; sys.path.insert(0, os.getcwd())
import warnings; warnings.simplefilter('ignore')
import numpy as np
from holopy.scattering.scatterer import Sphere, Spheres
from holopy.scattering.errors import InvalidScatterer
bad = False
for c in (np.zeros((3, 1)), np.zeros((3, 3)), [0, 0, None], ['a', 'b', 'c']):
    try:
        s = Sphere(n=1.5, r=1., center=c)
        print('accepted centre', repr(c).replace('\n', ''))
        bad = True
    except InvalidScatterer:
        print('rejected', c)
s = Sphere(n=1.5, r=1., center=np.array([[0.], [0.], [5.]]))
good = Sphere(n=1.5, r=1., center=(0., 0., 5.))
pts = [[0, 0, 5.], [0, 0, 4.5], [0, 0, 5.2]]   # all inside the sphere about (0,0,5)
print('column centre: contains ->', s.contains(pts), ' flat centre ->', good.contains(pts))
sc = Spheres([Sphere(n=1.5, r=1., center=[0, 0, None]), Sphere(n=1.5, r=1., center=[0, 0, .5])])
print('cluster with a None coordinate: overlaps =', sc.overlaps, '(silently none)')
print('VIOLATION' if bad else 'ok')
sys.exit(1 if bad else 0)
