"""C05 repro 1: Lens (default quadrature) is not covariant under rotation about
the optical axis once k*rho*sin(lens_angle) exceeds ~quad_npts_phi (=100):
the 100 equally spaced azimuthal quadrature nodes alias, the hologram grows
spurious "spokes" along the node directions, and no warning/error is given.

Run from the checkout root:  /venv/bin/python /tmp/probe8_out/C05/repro_1.py
"""
import sys, os; sys.path.insert(0, os.getcwd())
import warnings; warnings.filterwarnings('ignore')
import numpy as np
import holopy
from holopy.core import detector_points
from holopy.scattering import Sphere, Mie, MieLens, calc_holo
from holopy.scattering.theory import Lens

print('holopy from', holopy.__file__)
wl, n0, lens_angle = 0.66, 1.33, 0.9
sphere = Sphere(n=1.59, r=0.5, center=(0., 0., 5.))
lens = Lens(lens_angle, Mie())            # library defaults: 100 x 100 nodes
ref = MieLens(lens_angle, calculator_accuracy_kwargs={'interpolate_integrals': False})

a = np.pi / 100     # rotate the whole configuration by half a node spacing (1.8 deg)
bad = False
for rho in (5., 9., 12., 16.):    # microns; a 256 x 256 image at 0.1 um/px reaches 18 um
    # configuration A: point on the x axis, x polarisation
    dA = detector_points(x=np.array([rho]), y=np.array([0.]), z=0.)
    hA = float(calc_holo(dA, sphere, n0, wl, (1, 0), theory=lens).values[0])
    # configuration B = A rotated by a about the optical axis (sphere is on the axis)
    dB = detector_points(x=np.array([rho*np.cos(a)]), y=np.array([rho*np.sin(a)]), z=0.)
    hB = float(calc_holo(dB, sphere, n0, wl, (np.cos(a), np.sin(a)), theory=lens).values[0])
    hR = float(calc_holo(dA, sphere, n0, wl, (1, 0), theory=ref).values[0])
    ksin = 2*np.pi*n0/wl*rho*np.sin(lens_angle)
    print('rho=%5.1f um  k rho sin(beta)=%6.1f   Lens: holo-1 = %+.5f   rotated by 1.8deg: %+.5f'
          '   MieLens reference: %+.5f' % (rho, ksin, hA-1, hB-1, hR-1))
    if abs(hA - hB) > 1e-4:
        bad = True
if bad:
    print('VIOLATION: Lens hologram changes under a joint rotation of detector point and '
          'polarisation (errors many times the fringe amplitude), silently.')
    sys.exit(1)
print('no violation')
sys.exit(0)
