"""C19 repro 1: coordinate conversions do not preserve the distance from the
origin (nor the polar angle) for very large / origin-adjacent magnitudes:
x*x + y*y + z*z (and x**2 + y**2, rho**2 + z**2) overflow to inf above
~1.3e154 and underflow to 0 (or lose all precision, silently) below ~1.5e-154,
although r itself is perfectly representable."""
import sys, os; sys.path.insert(0, os.getcwd())
import warnings
import numpy as np
from holopy.core.math import find_transformation_function as ftf
warnings.simplefilter('ignore')
bad = False
for scale in (1e200, 1e-200, 1e-160):
    xyz = np.array([[3.0], [4.0], [12.0]]) * scale      # |p| = 13 * scale
    r_true = 13.0 * scale
    theta_true = np.arctan2(5.0, 12.0)
    r, theta, phi = ftf('cartesian', 'spherical')(xyz)
    rho, phi_c, z = ftf('cartesian', 'cylindrical')(xyz)
    r2, theta2, _ = ftf('cylindrical', 'spherical')(np.array([[5.0 * scale], [0.9], [12.0 * scale]]))
    back = ftf('spherical', 'cartesian')(np.array([r, theta, phi]))
    print(f"scale {scale:g}: cart->sph r/r_true = {r[0]/r_true!r}, theta = {theta[0]!r} (true {theta_true!r});"
          f" cart->cyl rho/true = {rho[0]/(5*scale)!r}; cyl->sph r/true = {r2[0]/r_true!r};"
          f" round trip / input = {(back/xyz).ravel()}")
    for got, true in ((r[0], r_true), (rho[0], 5 * scale), (r2[0], r_true), (theta[0], theta_true), (theta2[0], theta_true)):
        if not abs(got / true - 1) < 1e-9:
            bad = True
print("VIOLATION" if bad else "ok")
sys.exit(1 if bad else 0)
