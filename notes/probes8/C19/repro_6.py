"""C19 repro 6: translating by three one-element arrays (or by a column
vector) silently turns the centre into a 3 x 3 matrix instead of moving the
scatterer (np.array([c1, c2, c3]) has shape (3, 1) and broadcasts)."""
import sys, os; sys.path.insert(0, os.getcwd())
import numpy as np
from holopy.scattering.scatterer import Sphere, Spheres
s = Sphere(n=1.5, r=.5, center=(0, 0, 0))
dx, dy, dz = np.array([1.]), np.array([2.]), np.array([3.])
c1 = s.translated(dx, dy, dz).center
c2 = s.translated(np.array([[1.], [2.], [3.]])).center
c3 = Spheres([s, Sphere(n=1.5, r=.5, center=(2, 0, 0))]).translated(dx, dy, dz).scatterers[1].center
print('three 1-element arrays ->', c1.tolist()); print('column vector ->', c2.tolist()); print('in a Spheres ->', c3.tolist())
bad = np.shape(c1) != (3,) or np.shape(c2) != (3,) or np.shape(c3) != (3,)
print("VIOLATION" if bad else "ok"); sys.exit(1 if bad else 0)
