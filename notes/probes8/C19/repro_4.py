"""C19 repro 4: the six conversions (and the three identities) disagree about
which input shapes they take: a scalar z / a single point given as three
numbers / 2-d coordinate arrays work for some pairs and raise the ragged-array
ValueError for others."""
import sys, os; sys.path.insert(0, os.getcwd())
import numpy as np
from holopy.core.math import find_transformation_function as ftf
names = ['cartesian', 'spherical', 'cylindrical']
a3 = np.array([1., 2., 3.]); b3 = np.array([.5, .6, .7])
a2 = np.array([[1., 2.], [3., 4.]]); b2 = np.array([[.1, .2], [.3, .4]])
inputs = {'(array, array, scalar)': (a3, b3, 0.3), 'three numbers': (1.0, 0.5, 0.3),
          '(2-d, 2-d, scalar)': (a2, b2, 0.3)}
bad = False
for lab, inp in inputs.items():
    res = {}
    for a in names:
        for b in names:
            try:
                ftf(a, b)(inp); res[f"{a[:3]}->{b[:3]}"] = 'ok'
            except ValueError:
                res[f"{a[:3]}->{b[:3]}"] = 'ValueError'
    print(lab, res)
    if len(set(res.values())) > 1:
        bad = True
print("VIOLATION (inconsistent)" if bad else "ok")
sys.exit(1 if bad else 0)
