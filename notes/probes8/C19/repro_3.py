"""C19 repro 3: Scatterers.rotated cannot rotate composites that translate
fine: (a) a Scatterers nested in a Scatterers (no .center on the generic
composite), (b) any member with an orientation (Spheroid, Cylinder, Ellipsoid,
Capsule, Bisphere, Janus): only Sphere, Scatterers and CsgScatterer define
.rotated()."""
import sys, os; sys.path.insert(0, os.getcwd())
import numpy as np
from holopy.scattering.scatterer import Sphere, Scatterers, Spheroid, Cylinder, Ellipsoid, Capsule
s1 = Sphere(n=1.5, r=.5, center=(0, 0, 0)); s2 = Sphere(n=1.5, r=.5, center=(2, 0, 0))
s3 = Sphere(n=1.5, r=.5, center=(0, 3, 1))
bad = False
cases = {'nested Scatterers': Scatterers([Scatterers([s1, s2]), s3]),
         'Spheroid member': Scatterers([Spheroid(n=1.5, r=(.3, .6), rotation=(0, .3, 0), center=(0, 0, 5)), s2]),
         'Cylinder member': Scatterers([Cylinder(n=1.5, d=.3, h=.6, rotation=(0, .3, 0), center=(0, 0, 5)), s2]),
         'Ellipsoid member': Scatterers([Ellipsoid(n=1.5, r=(.3, .6, .7), rotation=(0, .3, 0), center=(0, 0, 5)), s2]),
         'Capsule member': Scatterers([Capsule(n=1.5, d=.3, h=.6, rotation=(0, .3, 0), center=(0, 0, 5)), s2])}
for name, comp in cases.items():
    comp.translated(1, 2, 3)        # fine
    try:
        comp.rotated(0.1, 0.2, 0.3)
        print(name, ': rotated ok')
    except Exception as e:
        bad = True
        print(name, ': translated ok, rotated raises', type(e).__name__, e)
print("VIOLATION" if bad else "ok")
sys.exit(1 if bad else 0)
