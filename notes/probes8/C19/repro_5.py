"""C19 repro 5: JanusSphere_Tapered's default rotation=(0, 0) has two angles;
its indicators call rotation_matrix(*self.rotation), which needs three."""
import sys, os; sys.path.insert(0, os.getcwd())
from holopy.scattering.scatterer.janus import JanusSphere_Tapered, JanusSphere_Uniform
JanusSphere_Uniform(n=(1.5, 1.6), r=(.5, .6), center=(0, 0, 0)).indicators   # default (0, 0, 0): fine
try:
    j = JanusSphere_Tapered(n=(1.5, 1.6), r=(.5, .6), center=(0, 0, 0))
    j.indicators
    print('ok'); sys.exit(0)
except TypeError as e:
    print('default-constructed JanusSphere_Tapered (rotation=%r):' % (j.rotation,), e); sys.exit(1)
