"""C19 repro 7 (side finding, cylindrical azimuth): MieLens.raw_fields
subtracts the polarisation angle from the azimuth row of the caller's
positions array IN PLACE (phi -= pol_angle; phi %= 2 pi), so a second call
with the same positions gives other fields."""
import sys, os; sys.path.insert(0, os.getcwd())
import numpy as np, xarray as xr
from holopy.scattering import Sphere
from holopy.scattering.theory import MieLens
th = MieLens(lens_angle=0.8, calculator_accuracy_kwargs={'interpolate_integrals': False})
pos = np.array([[5., 6., 7.], [0.3, 1.2, 4.0], [20., 20., 20.]])      # k rho, phi, k z
pol = xr.DataArray([np.cos(0.7), np.sin(0.7), 0], dims=['vector'], coords={'vector': ['x', 'y', 'z']})
p0 = pos.copy()
f1 = th.raw_fields(pos, Sphere(n=1.5, r=0.5), 9.5, 1.33, pol)
f2 = th.raw_fields(pos, Sphere(n=1.5, r=0.5), 9.5, 1.33, pol)
print('azimuths before', p0[1], 'after', pos[1]); print('max |second - first| =', abs(f1 - f2).max())
bad = not np.array_equal(pos, p0)
print("VIOLATION" if bad else "ok"); sys.exit(1 if bad else 0)
