"""C19 repro 2: cylindrical<->spherical hand the azimuth through unchanged, so
the azimuth they return is not in [0, 2 pi] and differs from the one obtained
by composing through Cartesian coordinates (which wraps with % 2 pi)."""
import sys, os; sys.path.insert(0, os.getcwd())
import numpy as np
from holopy.core.math import find_transformation_function as ftf
cyl = np.array([[1., 1., 1.], [-0.5, 7.0, -3.0], [0.3, 0.3, -0.3]])   # rho, phi, z
direct = ftf('cylindrical', 'spherical')(cyl)
via = ftf('cartesian', 'spherical')(ftf('cylindrical', 'cartesian')(cyl))
print("cyl->sph        phi:", direct[2])
print("cyl->cart->sph  phi:", via[2])
sph = np.array([[1., 1., 1.], [0.4, 1.4, 2.4], [-0.5, 7.0, -3.0]])     # r, theta, phi
direct2 = ftf('spherical', 'cylindrical')(sph)
via2 = ftf('cartesian', 'cylindrical')(ftf('spherical', 'cartesian')(sph))
print("sph->cyl        phi:", direct2[1])
print("sph->cart->cyl  phi:", via2[1])
bad = (np.any(direct[2] < 0) or np.any(direct[2] > 2 * np.pi)
       or np.any(direct2[1] < 0) or np.any(direct2[1] > 2 * np.pi)
       or not np.allclose(direct, via) or not np.allclose(direct2, via2))
print("VIOLATION" if bad else "ok")
sys.exit(1 if bad else 0)
