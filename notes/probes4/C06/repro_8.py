"""SIDE FINDING, outside the three clauses of C06 (seen while testing
detectors away from z = 0): calc_holo is not invariant when detector and
particle are moved together along z.  _get_field_from multiplies the field
by exp(-1j*k*center_z) (absolute z of the particle) while the reference wave
is taken with zero phase at the detector wherever it is."""
import sys, os; sys.path.insert(0, os.getcwd())
import warnings; warnings.simplefilter('ignore')
import numpy as np
from holopy.scattering import Sphere, Mie, calc_holo
from holopy.core.metadata import detector_grid
det0 = detector_grid(shape=(5, 5), spacing=0.3)
det2 = det0.assign_coords(z=[2.0])
kw = dict(medium_index=1.33, illum_wavelen=0.66, illum_polarization=(1, 0), theory=Mie())
a = calc_holo(det0, Sphere(n=1.59, r=0.5, center=(0.7, 0.7, 5)), **kw)
b = calc_holo(det2, Sphere(n=1.59, r=0.5, center=(0.7, 0.7, 7)), **kw)
d = float(abs(a.values - b.values).max())
print('max |holo(det z=0, sphere z=5) - holo(det z=2, sphere z=7)| =', d)
sys.exit(1 if d > 1e-9 else 0)
