"""prep_schema(..., illum_polarization=False) (used by calc_scat_matrix)
writes the sentinel False over the detector's polarisation metadata; the
result carries illum_polarization=False and can no longer be used as a
detector (AttributeError: 'bool' object has no attribute 'values')."""
import sys, os; sys.path.insert(0, os.getcwd())
import warnings; warnings.simplefilter('ignore')
import numpy as np
from holopy.scattering import Sphere, calc_scat_matrix, calc_field
from holopy.core.metadata import detector_grid, update_metadata

det = update_metadata(detector_grid(5, 0.2), medium_index=1.33,
                      illum_wavelen=0.66, illum_polarization=(0, 1))
s = Sphere(n=1.59, r=0.5, center=(0.3, 0.4, 5))
print('detector polarisation           :', det.illum_polarization.values)
m = calc_scat_matrix(det, s)
print('calc_scat_matrix result attrs   : illum_polarization =',
      repr(m.attrs['illum_polarization']), ', illum_wavelen =', m.attrs['illum_wavelen'])
print('detector itself unchanged       :', det.illum_polarization.values)
bad = m.attrs['illum_polarization'] is False
try:
    calc_field(m.isel(E_out=0, E_in=0, drop=True), s)
    print('result reused as a detector: works')
except Exception as e:
    print('result reused as a detector ->', type(e).__name__, ':', e)
    bad = True
sys.exit(1 if bad else 0)
