"""Polarisation linearity 'for any norm': to_vector normalises with
sqrt(sum(c**2)), which under/overflows; a tiny polarisation vector gives an
all-NaN field, a huge one an all-zero field, silently."""
import sys, os; sys.path.insert(0, os.getcwd())
import warnings; warnings.simplefilter('ignore')
import numpy as np
from holopy.scattering import Sphere, Mie, calc_field
from holopy.core.metadata import detector_grid, to_vector

det = detector_grid(4, 0.3)
s = Sphere(n=1.59, r=0.5, center=(0.5, 0.6, 5))
kw = dict(medium_index=1.33, illum_wavelen=0.66, theory=Mie())
fx = calc_field(det, s, illum_polarization=(1, 0), **kw)
fy = calc_field(det, s, illum_polarization=(0, 1), **kw)
lin = (fx + fy) / np.sqrt(2)
bad = False
for scale in [1e-3, 1e3, 1e-170, 1e160]:
    f = calc_field(det, s, illum_polarization=(scale, scale), **kw)
    err = float(abs(f - lin).max()) if not np.isnan(f.values).any() else float('nan')
    print('pol = (%g, %g): to_vector -> %s ; max|f - (fx+fy)/sqrt2| = %s ; max|f| = %s'
          % (scale, scale, to_vector((scale, scale)).values, err, float(abs(f).max())))
    bad |= not (err < 1e-12)
sys.exit(1 if bad else 0)
