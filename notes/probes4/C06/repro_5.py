"""detector_grid with one row and an illumination axis cannot be built
(data_grid guesses whether the z axis is already there from
`len(arr) > 1 or arr.ndim == 2`); one column works."""
import sys, os; sys.path.insert(0, os.getcwd())
import warnings; warnings.simplefilter('ignore')
from holopy.core.metadata import detector_grid
bad = False
for shape in [(5, 1), (1, 5), (1, 1)]:
    for extra in [None, {'illumination': ['red', 'green']}]:
        try:
            d = detector_grid(shape=shape, spacing=0.1, extra_dims=extra)
            print(shape, 'multi-channel' if extra else 'single      ', '->', d.dims, d.shape)
        except Exception as e:
            print(shape, 'multi-channel' if extra else 'single      ', '->', type(e).__name__, ':', e)
            bad = True
sys.exit(1 if bad else 0)
