"""A per-channel sphere centre (dictionary or labelled array) is accepted
and computed correctly with 3 channels but refused with 2 channels:
CenteredScatterer.__init__ tests len(center) != 3, which for a dictionary
counts the channels."""
import sys, os; sys.path.insert(0, os.getcwd())
import warnings; warnings.simplefilter('ignore')
import numpy as np, xarray as xr
from holopy.scattering import Sphere, Mie, calc_holo
from holopy.core.metadata import detector_grid
bad = False
for chans in (['r', 'g', 'b'], ['r', 'g']):
    det = detector_grid(4, 0.3, extra_dims={'illumination': chans})
    det1 = detector_grid(4, 0.3)
    wl = {c: 0.4 + 0.1 * i for i, c in enumerate(chans)}
    cen = {c: (0.5, 0.6, 5 + 0.2 * i) for i, c in enumerate(chans)}
    cx = xr.DataArray([cen[c] for c in chans], dims=['illumination', 'xyz'],
                      coords={'illumination': chans})
    for name, c_in in [('dict', cen), ('labelled (illumination, xyz)', cx)]:
        try:
            out = calc_holo(det, Sphere(n=1.59, r=0.5, center=c_in), medium_index=1.33,
                            illum_wavelen=wl, illum_polarization=(1, 0), theory=Mie())
            err = max(float(abs(out.sel(illumination=c) - calc_holo(
                det1, Sphere(n=1.59, r=0.5, center=cen[c]), medium_index=1.33,
                illum_wavelen=wl[c], illum_polarization=(1, 0), theory=Mie())).max())
                for c in chans)
            print(len(chans), 'channels,', name, ': max deviation from single-channel', err)
            bad |= err > 1e-12
        except Exception as e:
            print(len(chans), 'channels,', name, '->', type(e).__name__, ':',
                  str(e).replace('\n', ' ')[:110])
            bad = True
sys.exit(1 if bad else 0)
