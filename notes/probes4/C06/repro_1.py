"""C06 / superposition clause: a generic ``Scatterers`` collection of spheres
cannot be sent through calc_field / calc_holo at all (AttributeError on
``.center``), although ImageFormation has a dedicated branch
(`isinstance(scatterer, Scatterers)` -> get_component_list -> superposition)
for exactly that class.  Spheres([...]) with the same members works."""
import sys, os; sys.path.insert(0, os.getcwd())
import warnings; warnings.simplefilter('ignore')
import numpy as np
from holopy.scattering import Sphere, Spheres, Scatterers, Mie, calc_field
from holopy.core.metadata import detector_grid

det = detector_grid(shape=(4, 5), spacing=(0.2, 0.3))
s1 = Sphere(n=1.59, r=0.5, center=(1, 1.2, 5))
s2 = Sphere(n=(1.6, 1.45), r=(0.2, 0.4), center=(-1, 0.3, 7))
s3 = Sphere(n=1.45 + 0.01j, r=0.3, center=(0.2, 0.3, 6))
kw = dict(medium_index=1.33, illum_wavelen=0.66, illum_polarization=(1, 1),
          theory=Mie())
parts = sum(calc_field(det, s, **kw) for s in (s1, s2, s3))
ok = calc_field(det, Spheres([s1, s2, s3], warn=False), **kw)
print('Spheres      : max|field - sum of members| =', float(abs(ok - parts).max()))
bad = False
for name, coll in [('Scatterers([s1,s2,s3])', Scatterers([s1, s2, s3])),
                   ('Scatterers([Spheres([s1,s2]), s3])',
                    Scatterers([Spheres([s1, s2], warn=False), s3]))]:
    try:
        f = calc_field(det, coll, **kw)
        err = float(abs(f - parts).max())
        print(name, ': max|field - sum of members| =', err)
        bad |= err > 1e-12
    except Exception as e:
        print(name, '->', type(e).__name__, ':', e)
        bad = True
sys.exit(1 if bad else 0)
