"""Scatterers/Spheres keep the caller's list object (composite.py:79,
self.scatterers = scatterers) and add() appends to it in place: adding a
sphere to one collection silently changes the field of another collection
built from the same list, and the caller's list."""
import sys, os; sys.path.insert(0, os.getcwd())
import warnings; warnings.simplefilter('ignore')
import numpy as np
from holopy.scattering import Sphere, Spheres, Mie, calc_field
from holopy.core.metadata import detector_grid

det = detector_grid(shape=(4, 5), spacing=(0.2, 0.3))
kw = dict(medium_index=1.33, illum_wavelen=0.66, illum_polarization=(1, 0), theory=Mie())
s1 = Sphere(n=1.59, r=0.5, center=(1, 1.2, 5))
s2 = Sphere(n=1.5, r=0.3, center=(-1, 0.3, 7))
s3 = Sphere(n=1.45, r=0.4, center=(3, 3, 6))
members = [s1, s2]
a = Spheres(members)
b = Spheres(members)
before = calc_field(det, b, **kw)
a.add(s3)                                     # only `a` is meant to change
after = calc_field(det, b, **kw)
print('len(caller list) after a.add(s3):', len(members), '(was 2)')
print('len(b.scatterers)               :', len(b.scatterers), '(b was never touched)')
change = float(abs(after - before).max())
print('max change of the field of b    :', change)
sys.exit(1 if (change > 0 or len(members) != 2) else 0)
