"""BORDERLINE (stale metadata after xarray slicing).  One channel cut out of
a multi-channel hologram with data.sel(illumination=...) keeps the
per-channel metadata of all channels in attrs.  A single-channel model then
(a) computes every channel again when only the wavelength is overridden
(the hologram's stored polarisation was broadcast over the channels by
prep_schema, although the user gave one polarisation) and (b) divides the
single-channel residuals by the noise of *every* channel, so lnlike differs
from the one of the same data with its own noise."""
import sys, os; sys.path.insert(0, os.getcwd())
import warnings; warnings.simplefilter('ignore')
import numpy as np
from holopy.scattering import Sphere, Mie, calc_holo
from holopy.core.metadata import detector_grid, update_metadata
from holopy.inference import AlphaModel, prior

chans = ['red', 'green']
det = detector_grid(shape=(6, 5), spacing=(0.2, 0.3), extra_dims={'illumination': chans})
wl = {'red': 0.66, 'green': 0.532}
nn = {'red': 1.58, 'green': 1.6}
holo = calc_holo(det, Sphere(n=nn, r=0.5, center=(0.5, 0.6, 5)), medium_index=1.33,
                 illum_wavelen=wl, illum_polarization=(0, 1), theory=Mie())
rng = np.random.default_rng(0)
holo = holo + 0.05 * rng.normal(size=holo.shape)
holo = update_metadata(holo, medium_index=1.33, illum_wavelen=wl,
                       illum_polarization=(0, 1), noise_sd={'red': 0.2, 'green': 0.05})
green = holo.sel(illumination='green')           # the usual way to take one channel
print('slice dims', green.dims, '; noise_sd kept in attrs:', green.noise_sd.values)

s = Sphere(n=1.6, r=0.5, center=(0.5, 0.6, 5))
out = calc_holo(green, s, illum_wavelen=0.532, illum_polarization=(0, 1), theory=Mie())
print('calc_holo(green slice, single wavelength+pol) dims:', out.dims)

model = AlphaModel(Sphere(n=prior.Uniform(1.5, 1.7, guess=1.6), r=0.5, center=(0.5, 0.6, 5)),
                   alpha=1, illum_wavelen=0.532, illum_polarization=(0, 1), theory=Mie())
ll_slice = model.lnlike(model.initial_guess, green)
clean = update_metadata(holo.sel(illumination='green', drop=True), noise_sd=0.05)
clean.attrs['noise_sd'] = 0.05
ll_single = model.lnlike(model.initial_guess, clean)
print('lnlike on the slice (stale 2-channel noise):', ll_slice)
print('lnlike on the same pixels, noise 0.05      :', ll_single)
sys.exit(1 if abs(ll_slice - ll_single) > 1e-6 else 0)
