"""SIDE FINDING outside the C06 anchors (multi-channel != stacked
single-channel in image preparation): holopy.core.process.normalize divides
a multi-channel image by the mean over all channels together, so channels
recorded with different brightness do not end up with the unit background
that calc_holo assumes for every channel."""
import sys, os; sys.path.insert(0, os.getcwd())
import warnings; warnings.simplefilter('ignore')
import numpy as np
from holopy.core.process import normalize
from holopy.scattering import Sphere, Mie, calc_holo
from holopy.core.metadata import detector_grid
chans = ['red', 'green']
det = detector_grid(shape=(20, 20), spacing=0.2, extra_dims={'illumination': chans})
holo = calc_holo(det, Sphere(n={'red': 1.58, 'green': 1.6}, r=0.5, center=(2, 2, 8)),
                 medium_index=1.33, illum_wavelen={'red': 0.66, 'green': 0.532},
                 illum_polarization=(1, 0), theory=Mie())
gain = holo.illum_wavelen * 0 + [300.0, 120.0]       # camera counts per channel
raw = holo * gain                                     # what a colour camera records
both = normalize(raw)
worst = 0
for c in chans:
    single = normalize(raw.sel(illumination=c, drop=True))
    d = float(abs(both.sel(illumination=c, drop=True) - single).max())
    print(c, ': mean after normalize(multi) = %.4f, after normalize(single) = %.4f, max diff %.3g'
          % (float(both.sel(illumination=c).mean()), float(single.mean()), d))
    worst = max(worst, d)
sys.exit(1 if worst > 1e-9 else 0)
