"""SIDE FINDING outside C06 (option ignored): Scatterer.voxelate(spacing,
medium_index) documents medium_index as the index filled in outside the
scatterer but never passes it on (scatterer.py:220 calls
self.index_at(coords) with the default background=0)."""
import sys, os; sys.path.insert(0, os.getcwd())
import numpy as np
from holopy.scattering import Sphere
s = Sphere(n=1.59, r=0.5, center=(0, 0, 0))
vals = np.unique(s.voxelate(0.25, medium_index=1.33))
print('distinct values in voxelate(0.25, medium_index=1.33):', vals)
sys.exit(1 if 1.33 not in vals else 0)
