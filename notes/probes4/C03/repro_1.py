"""C03 repro 1: Multisphere amplitude matrix (uts_scsmfo.asm -> rotcoef) reads an
uninitialised stack word (fnr(0)); when that word happens to hold a NaN/Inf bit
pattern the amplitude matrix, and with it the asymmetry parameter reported by
calc_cross_sections, silently becomes NaN -- for a perfectly ordinary cluster,
and not reproducibly (an identical second call gives a finite value).

Part A: "natural" occurrence (no unusual input at all; depends on what earlier
        code left on the C stack, so it may or may not fire on another machine).
Part B: forced demonstration: leave NaN bit patterns on the C stack (by one
        call of the same compiled routine with theta = NaN from a deeper C
        call chain; this modifies no library state whatsoever), then repeat
        the *same legitimate* public call.  Any change of the result proves
        that the result depends on uninitialised memory.
Run from the checkout root.  Exit 1 if the violation is observed.
"""
import sys, os; sys.path.insert(0, os.getcwd())
import warnings
import numpy as np
import holopy
from holopy.scattering import (calc_cross_sections, calc_scat_matrix, Sphere,
                               Spheres, Multisphere)
from holopy.core.metadata import detector_points
from holopy.scattering.theory.mie_f import uts_scsmfo
warnings.filterwarnings('ignore')
print(holopy.__file__)
violated = False

# ---------------------------------------------------------------- part A
rng = np.random.default_rng(12)
ms = Multisphere()
def rand_cluster(nsph):
    nmed = rng.uniform(1, 1.5); wl = rng.uniform(0.4, 0.8); k = 2*np.pi*nmed/wl
    sph = []
    while len(sph) < nsph:
        x = 10**rng.uniform(-0.7, 0.7)
        c = rng.normal(size=3)*3/k
        r = x/k
        if all(np.linalg.norm(c-np.array(s.center)) > r+s.r for s in sph):
            m = rng.uniform(1.05, 1.8)
            im = 10**rng.uniform(-4, -0.3) if rng.random() < 0.5 else 0
            sph.append(Sphere(n=(m+1j*im)*nmed if im else m*nmed, r=r, center=c))
    return sph, nmed, wl
sph, nmed, wl = rand_cluster(rng.integers(2, 5))   # 3 non-overlapping spheres, ka <= 3.2
print(sph, nmed, wl)
cluster = Spheres(sph)
p = np.array([1., 0])
first = calc_cross_sections(Spheres(sph), nmed, wl, tuple(p), theory=ms).values
second = calc_cross_sections(Spheres(sph), nmed, wl, tuple(p), theory=ms).values
print('A: first call :', first)
print('A: second call:', second)
if np.isnan(first).any() or np.isnan(second).any() or not np.array_equal(first, second):
    print('A: VIOLATION: two identical calls disagree / a cross section is NaN')
    violated = True
else:
    print('A: natural occurrence did not fire in this process')

# ---------------------------------------------------------------- part B
det = detector_points(theta=np.linspace(0, np.pi, 7), phi=np.linspace(0, 6, 7))
base_cs = calc_cross_sections(cluster, nmed, wl, (1., 0.), theory=ms).values
base_S = calc_scat_matrix(det, cluster, nmed, wl, theory=ms).values
assert np.isfinite(base_cs).all() and np.isfinite(base_S).all()

N = 70
junk = np.zeros((2, N * (N + 2), 2), complex)
def leave_nan_on_stack(depth):
    # the nested map() calls only make the C stack deeper
    if depth == 0:
        uts_scsmfo.asm(junk, N, np.nan, 0.3)
    else:
        list(map(leave_nan_on_stack, [depth - 1]))

hits = []
for depth in range(0, 120):
    leave_nan_on_stack(depth)
    S = calc_scat_matrix(det, cluster, nmed, wl, theory=ms).values
    if not np.array_equal(S, base_S):
        cs = calc_cross_sections(cluster, nmed, wl, (1., 0.), theory=ms).values
        hits.append((depth, int(np.isnan(S).sum()), cs))
for depth, nnan, cs in hits[:5]:
    print('B: depth %d: same calc_scat_matrix call now has %d NaN entries; '
          'calc_cross_sections ->' % (depth, nnan), cs)
if hits:
    print('B: VIOLATION: %d of 120 stack states change the result of an '
          'identical, legitimate call (baseline %s)' % (len(hits), base_cs))
    violated = True
else:
    print('B: no dependence on stack contents observed')
sys.exit(1 if violated else 0)
