"""C03 repro 2 (minor, metadata): calc_scat_matrix on a detector of explicit
Cartesian points (detector_points(x=, y=, z=)) returns an array that has lost
the detector's x, y, z coordinates (only the bare 'point' counter and the
particle-relative r, theta, phi survive), while calc_field on the very same
detector keeps them, and calc_scat_matrix on a detector_grid keeps them too.
Exit 1 if the coordinates are lost."""
import sys, os; sys.path.insert(0, os.getcwd())
import warnings; warnings.filterwarnings('ignore')
import numpy as np
from holopy.scattering import calc_scat_matrix, calc_field, Sphere
from holopy.core.metadata import detector_points, detector_grid
s = Sphere(n=1.59, r=0.5, center=(1, 2, 10))
det = detector_points(x=np.array([1.0, 3.0]), y=np.array([2.0, 5.0]), z=np.array([0.0, 1.0]))
S = calc_scat_matrix(det, s, 1.33, 0.66)
F = calc_field(det, s, 1.33, 0.66, (1, 0))
G = calc_scat_matrix(detector_grid(shape=(2, 3), spacing=1.0), s, 1.33, 0.66)
print('detector coords     :', sorted(det.coords))
print('calc_field coords   :', sorted(F.coords))
print('calc_scat_matrix    :', sorted(S.coords))
print('calc_scat_matrix on a grid:', sorted(G.coords))
lost = [c for c in 'xyz' if c in det.coords and c not in S.coords]
print('lost by calc_scat_matrix:', lost)
sys.exit(1 if lost else 0)
