"""C03 repro 1 (natural occurrence, fragile): no unusual input at all. The first of two identical calc_cross_sections calls returns asymmetry = NaN because uts_scsmfo.rotcoef reads the uninitialised stack word fnr(0). Depends on what earlier code left on the C stack; see repro_1.py for the forced, robust demonstration. Exit 1 if observed."""
import sys, os; sys.path.insert(0, os.getcwd())
import numpy as np, warnings
import holopy as hp
from holopy.scattering import calc_cross_sections, calc_scat_matrix, Sphere, Spheres, Mie, Multisphere
rng=np.random.default_rng(12)
ms=Multisphere()
exec('''
def rand_cluster(nsph):
    nmed = rng.uniform(1,1.5); wl = rng.uniform(0.4,0.8); k=2*np.pi*nmed/wl
    sph=[]
    while len(sph)<nsph:
        x = 10**rng.uniform(-0.7, 0.7)
        c = rng.normal(size=3)*3/k
        r=x/k
        if all(np.linalg.norm(c-np.array(s.center))>r+s.r for s in sph):
            m = rng.uniform(1.05,1.8); im = 10**rng.uniform(-4,-0.3) if rng.random()<0.5 else 0
            sph.append(Sphere(n=(m+1j*im)*nmed if im else m*nmed, r=r, center=c))
    return sph, nmed, wl
def Rz(a): return np.array([[np.cos(a),-np.sin(a),0],[np.sin(a),np.cos(a),0],[0,0,1]])
''')
sph,nmed,wl=rand_cluster(rng.integers(2,5))
print(sph, nmed, wl)
p=np.array([1.,0]); b=np.pi/2
R=Rz(b); p2=R[:2,:2]@p
S2=Spheres([Sphere(n=s.n,r=s.r,center=R@np.array(s.center)) for s in sph])
a=calc_cross_sections(Spheres(sph),nmed,wl,tuple(p),theory=ms).values
b=calc_cross_sections(Spheres(sph),nmed,wl,tuple(p),theory=ms).values
print(a); print(b)
sys.exit(1 if (np.isnan(a).any() or np.isnan(b).any() or not np.array_equal(a,b)) else 0)
