import sys, os; sys.path.insert(0, os.getcwd())
import numpy as np, warnings
warnings.simplefilter('ignore')
from holopy.scattering import Sphere, Spheres
from holopy.scattering.theory import Multisphere
import holopy.scattering.theory.multisphere as ms
th = Multisphere()
k = 2*np.pi/(0.66/1.33)
pts = np.array([[0,0,0],[1.2,0.3,0.2],[-0.4,1.1,-0.3]])
rs=[0.4,0.3,0.35]; ns=[1.59,1.45,1.7]
sc=Spheres([Sphere(n=n,r=r,center=c) for n,r,c in zip(ns,rs,pts)])
amn,lmax=th._scsmfo_setup(sc,medium_wavevec=k,medium_index=1.33)
g=np.deg2rad(40); ex,ey=np.cos(g),np.sin(g)
for name,F in (('stock',np.ones((2,2))),('flipped',np.array([[1,-1],[-1,1]]))):
    print(name)
    for ph in (0.,0.7,1.5,3.0,4.5):
        A=ms._asm_far(1e-7,ph,amn,lmax)*F
        einc=np.array([ex*np.cos(ph)+ey*np.sin(ph), ex*np.sin(ph)-ey*np.cos(ph)])
        es=(A@einc)*np.array([1,-1])
        Ex=es[0]*np.cos(ph)-es[1]*np.sin(ph); Ey=es[0]*np.sin(ph)+es[1]*np.cos(ph)
        print('  phi %.1f Ex %s Ey %s'%(ph,np.round(Ex,4),np.round(Ey,4)))
