import sys, os; sys.path.insert(0, os.getcwd())
import numpy as np, warnings, xarray as xr
warnings.simplefilter('ignore')
from holopy.scattering import Sphere, Spheres
from holopy.scattering.theory import Multisphere
import holopy.scattering.theory.multisphere as ms
from holopy.scattering.theory.mie_f import uts_scsmfo
th = Multisphere()
k = 2*np.pi/(0.66/1.33)
def cluster(a):
    pts = np.array([[0,0,0],[1.2,0.3,0.2],[-0.4,1.1,-0.3]])
    R = np.array([[np.cos(a),-np.sin(a),0],[np.sin(a),np.cos(a),0],[0,0,1]])
    pts = pts@R.T
    rs=[0.4,0.3,0.35]; ns=[1.59,1.45,1.7]
    return Spheres([Sphere(n=n,r=r,center=c) for n,r,c in zip(ns,rs,pts)])
sc=cluster(0)
amn,lmax=th._scsmfo_setup(sc,medium_wavevec=k,medium_index=1.33)
for th_,ph in ((0.,0.),(0.4,1.0),(1.2,3.0)):
    a=uts_scsmfo.asm(amn,lmax,th_,ph)
    kr=2e4
    b=uts_scsmfo.asmfr(amn,lmax,th_,ph,kr)
    print(th_,ph,' ratio asmfr/asm',np.round(b/a,4))
orig=ms._asm_far
def flipped(theta,phi,amn,lmax):
    return orig(theta,phi,amn,lmax)*np.array([[1,-1],[-1,1]])
for name,f in (('stock',orig),('flipped',flipped)):
    ms._asm_far=f
    print(name)
    for g in (40,-40):
      for a in (0,25):
        gam=np.deg2rad(g+a); pol=np.array([np.cos(gam),np.sin(gam)])
        sc=cluster(np.deg2rad(a))
        amn,lmax=th._scsmfo_setup(sc,medium_wavevec=k,medium_index=1.33)
        ce=th._calc_cext(sc,k,1.33,pol,amn,lmax); cs=th._calc_cscat(sc,k,1.33,pol,amn,lmax)
        cq=th._calc_cscat_quad(sc,k,1.33,pol,amn,lmax) if a==0 else float('nan')
        print('  gamma',g,'rot',a,'cext %.6f cscat %.6f quad %.6f'%(ce,cs,cq))
