"""Adjacent to C09 (interface.py entry points used with clusters), low severity.

calc_scat_matrix documents "If illum_wavelen is an array result will add a
dimension and have all wavelengths", but any call with more than one
wavelength dies inside prep_schema with
    AttributeError: 'bool' object has no attribute 'dims'
because calc_scat_matrix passes the sentinel illum_polarization=False and
prep_schema's multi-illumination branch treats it as a DataArray.  The same
sentinel also overwrites the detector's polarisation in the metadata of the
returned matrix (attrs['illum_polarization'] is False)."""
import sys, os; sys.path.insert(0, os.getcwd())
import warnings; warnings.filterwarnings('ignore')
import numpy as np
import holopy as hp
from holopy.core import detector_grid
from holopy.core.metadata import update_metadata
from holopy.scattering import Sphere, Spheres, Multisphere, calc_scat_matrix, calc_field

print(hp.__file__)
det = detector_grid(shape=(3, 3), spacing=1.0)
sc = Spheres([Sphere(n=1.59, r=0.5, center=(2, 2, 10)),
              Sphere(n=1.45, r=0.3, center=(2.9, 2, 10.1))])
bad = False

# the same two wavelengths are fine for calc_field ...
f = calc_field(det, sc, 1.33, [0.66, 0.52], (1, 0))
print('calc_field with two wavelengths ->', f.dims)
# ... but not for calc_scat_matrix
try:
    S = calc_scat_matrix(det, sc, 1.33, [0.66, 0.52])
    print('calc_scat_matrix with two wavelengths ->', S.dims)
except Exception as e:
    print('calc_scat_matrix with two wavelengths raised %s: %s'
          % (type(e).__name__, e))
    bad = True

# metadata of the single-wavelength result
det_pol = update_metadata(det, 1.33, 0.66, (0, 1))
S = calc_scat_matrix(det_pol, sc)
print("detector illum_polarization:", det_pol.illum_polarization.values)
print("result   illum_polarization:", S.attrs['illum_polarization'])
if S.attrs['illum_polarization'] is False:
    bad = True
print('VIOLATION' if bad else 'ok')
sys.exit(1 if bad else 0)
