"""Uniform and Gaussian cache their log-normalisation at construction while
every other method reads the public bounds / sd live.  After a bound (or sd) is
changed, lnprob disagrees with prob, and a save/load cycle silently changes
lnprob (the value the fitting and sampling strategies use)."""
import sys, os; sys.path.insert(0, os.getcwd())
import io, warnings
import numpy as np
warnings.simplefilter('ignore')
import holopy as hp
from holopy.core.prior import Uniform, Gaussian

def reload(o):
    b = io.BytesIO(); hp.save(b, o); b.seek(0); return hp.load(b)

u = Uniform(0, 1)
u.upper_bound = 10            # widen the prior
print('Uniform : interval', u.interval, ' prob(5)', u.prob(5), ' exp(lnprob(5))', np.exp(u.lnprob(5)),
      ' after reload exp(lnprob(5))', np.exp(reload(u).lnprob(5)))
g = Gaussian(0, 1)
g.sd = 10
print('Gaussian: prob(0)', g.prob(0), ' exp(lnprob(0))', np.exp(g.lnprob(0)),
      ' after reload exp(lnprob(0))', np.exp(reload(g).lnprob(0)))
bad = (not np.isclose(u.lnprob(5), reload(u).lnprob(5))) or (not np.isclose(g.lnprob(0), reload(g).lnprob(0)))
print('VIOLATION' if bad else 'ok')
sys.exit(1 if bad else 0)
