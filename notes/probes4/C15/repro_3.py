"""A derived prior with an array operand (Prior.__pow__ explicitly accepts
numpy arrays) works before saving; the reloaded one has a list in place of the
array and its .guess / .sample() raise."""
import sys, os; sys.path.insert(0, os.getcwd())
import io, warnings
import numpy as np
warnings.simplefilter('ignore')
import holopy as hp
from holopy.core.prior import Uniform

p = Uniform(1, 2) ** np.array([1., 2.])
print('original guess :', p.guess)
b = io.BytesIO(); hp.save(b, p); b.seek(0)
q = hp.load(b)
print('reloaded       :', q)
try:
    print('reloaded guess :', q.guess)
    bad = not np.allclose(q.guess, p.guess)
except Exception as e:
    print('reloaded guess raised', type(e).__name__, e)
    bad = True
print('VIOLATION' if bad else 'ok')
sys.exit(1 if bad else 0)
