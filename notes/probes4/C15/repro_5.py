"""Using a strategy changes the caller's strategy object, so the strategy that
is saved (alone or inside the result) is not the one that was constructed and
it cannot be used again:
 (a) FitResult.__init__ overwrites strategy.parallel (a user pool) with the
     string 'external_pool' on the caller's object;
 (b) EmceeStrategy.sample stores the walker start positions it generated for
     the first model in strategy.walker_initial_pos and reuses them for the
     next model.
emcee itself is not installed here, so the compiled sampler is replaced by a
stub that only records what it is given."""
import sys, os; sys.path.insert(0, os.getcwd())
import io, warnings
import numpy as np
warnings.simplefilter('ignore')
import holopy as hp
from holopy.scattering import Sphere, calc_holo
from holopy.core.prior import Uniform
from holopy.core.metadata import update_metadata
from holopy.inference import AlphaModel, EmceeStrategy
import holopy.inference.emcee as hem

class Pool:
    def map(self, f, xs): return list(map(f, xs))
    def close(self): pass

class FakeSampler:
    def __init__(self, nw, ns, npar):
        self.acceptance_fraction = np.ones(nw)
        self._c = np.random.rand(nw, ns, npar); self._l = np.random.rand(nw, ns)
    def get_chain(self): return self._c
    def get_log_prob(self): return self._l
seen = []
def stub(model, data, nwalkers, nsamples, walker_initial_pos, parallel='auto', seed=None):
    seen.append((np.array(walker_initial_pos), parallel))
    return FakeSampler(nwalkers, nsamples, len(model._parameters))
hem.sample_emcee = stub

det = hp.detector_grid(shape=(5, 6), spacing=.1)
holo = update_metadata(calc_holo(det, Sphere(n=1.5, r=.5, center=[.2, .2, 3]), 1.33, .66, (1, 0)), noise_sd=.1)
m1 = AlphaModel(Sphere(n=Uniform(1.4, 1.6), r=.5, center=[.2, .2, Uniform(2, 4)]))
m2 = AlphaModel(Sphere(n=Uniform(1.0, 1.1), r=.5, center=[.2, .2, Uniform(20, 40)]))

pool = Pool()
strat = EmceeStrategy(nwalkers=4, nsamples=3, parallel=pool, seed=1)
text_before = (lambda b: (hp.save(b, EmceeStrategy(nwalkers=4, nsamples=3, parallel=None, seed=1)), b.getvalue())[1])(io.BytesIO())
strat.sample(m1, holo)
print('(a) strategy.parallel after one use:', repr(strat.parallel))
a_bad = strat.parallel is not pool

strat2 = EmceeStrategy(nwalkers=4, nsamples=3, parallel=None, seed=1)
strat2.sample(m1, holo)
strat2.sample(m2, holo)
start2 = seen[-1][0]
print('(b) walkers handed to the sampler for the 2nd model (priors n in [1.0,1.1], z in [20,40]):')
print(start2)
lo = np.array([1.0, 20]); hi = np.array([1.1, 40])
b_bad = not np.all((start2 >= lo) & (start2 <= hi))
text_after = (lambda b: (hp.save(b, strat2), b.getvalue())[1])(io.BytesIO())
print('    saved text of the strategy unchanged by use:', text_after == text_before)
bad = a_bad or b_bad
print('VIOLATION' if bad else 'ok')
sys.exit(1 if bad else 0)
