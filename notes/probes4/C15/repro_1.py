"""hp.save(name, obj) / hp.load(name) disagree on the file when `name` has no
extension and a stale `name`.h5 exists: the object just saved is NOT what load
returns (a different class comes back, silently)."""
import sys, os; sys.path.insert(0, os.getcwd())
import tempfile, warnings
import numpy as np
warnings.simplefilter('ignore')
import holopy as hp
from holopy.scattering import Sphere, calc_holo

d = tempfile.mkdtemp()
base = os.path.join(d, 'run1')
det = hp.detector_grid(shape=(5, 5), spacing=.1)
sphere = Sphere(n=1.59, r=.5, center=[.2, .2, 3])
holo = calc_holo(det, sphere, 1.33, .66, (1, 0))

hp.save(base, holo)      # array branch: default_extension -> run1.h5
hp.save(base, sphere)    # yaml branch: written to 'run1' exactly
print('files:', sorted(os.listdir(d)))
back = hp.load(base)
print('saved a', type(sphere).__name__, '-> hp.load returned a', type(back).__name__)
bad = not isinstance(back, Sphere)
print('VIOLATION' if bad else 'ok')
sys.exit(1 if bad else 0)
