"""holopy.core.prior.make_center_priors on a multi-channel hologram laid out the
way calc_holo returns it (dims ('illumination', 'x', 'y', 'z')) returns centre
priors that have nothing to do with the particle position, silently and with a
one-pixel standard deviation.  A single channel, or the same data transposed
to put 'illumination' last, gives the right answer."""
import sys, os; sys.path.insert(0, os.getcwd())
import warnings
import numpy as np
warnings.simplefilter('ignore')
import holopy as hp
from holopy.scattering import Sphere, calc_holo
from holopy.core.prior import make_center_priors

true_xy = (4.1, 6.3)
sph = Sphere(n=1.59, r=0.5, center=true_xy + (10,))
det = hp.detector_grid(shape=(100, 100), spacing=.1, extra_dims={'illumination': ['red', 'green']})
holo = calc_holo(det, sph, 1.33, {'red': .66, 'green': .52}, (1, 0))
print('hologram dims', holo.dims)
multi = [float(p.guess) for p in make_center_priors(holo)[:2]]
single = [float(p.guess) for p in make_center_priors(holo.sel(illumination='red'))[:2]]
sd = [float(p.sd) for p in make_center_priors(holo)[:2]]
print('true centre          ', true_xy)
print('one channel          ', np.round(single, 3))
print('both channels        ', np.round(multi, 3), ' (sd of the Gaussian priors: %s)' % sd)
print('both, illumination last', np.round([float(p.guess) for p in make_center_priors(holo.transpose('x', 'y', 'z', 'illumination'))[:2]], 3))
bad = np.abs(np.array(multi) - true_xy).max() > 0.5
print('VIOLATION' if bad else 'ok')
sys.exit(1 if bad else 0)
