"""HoloPyObject.__eq__ compares only the argument dictionaries, not the class:
objects of different classes that happen to take the same argument names
compare equal, so an equality-based check of a save/load round trip cannot
notice a class mix-up."""
import sys, os; sys.path.insert(0, os.getcwd())
import warnings
warnings.simplefilter('ignore')
from holopy.scattering import Sphere, Cylinder, Capsule, Bisphere
from holopy.scattering.scatterer import Union, Intersection, Difference

kw = dict(n=1.5, h=1.0, d=.5, center=[1, 2, 3], rotation=[0, .1, 0])
s1 = Sphere(n=1.5, r=.5, center=[0, 0, 0]); s2 = Sphere(n=1.5, r=.5, center=[.3, 0, 0])
pairs = {'Capsule == Cylinder': Capsule(**kw) == Cylinder(**kw),
         'Cylinder == Bisphere': Cylinder(**kw) == Bisphere(**kw),
         'Union == Intersection': Union(s1, s2) == Intersection(s1, s2),
         'Union == Difference': Union(s1, s2) == Difference(s1, s2)}
for k, v in pairs.items():
    print(k, '->', v)
bad = any(pairs.values())
print('VIOLATION' if bad else 'ok')
sys.exit(1 if bad else 0)
