"""LeastSquaresScipyStrategy freezes ftol/xtol/gtol/max_nfev into a private
dict at construction.  Changing the public attributes afterwards is ignored by
the object itself, but save/load (and the strategy text stored in a FitResult)
use the public attributes, so the reloaded strategy behaves differently from
the one that was saved and the saved result reports options the fit never used."""
import sys, os; sys.path.insert(0, os.getcwd())
import io, warnings
import numpy as np
warnings.simplefilter('ignore')
import holopy as hp
from holopy.scattering import Sphere, calc_holo
from holopy.core.prior import Uniform
from holopy.core.metadata import update_metadata
from holopy.inference import AlphaModel, LeastSquaresScipyStrategy

det = hp.detector_grid(shape=(12, 12), spacing=.1)
holo = update_metadata(calc_holo(det, Sphere(n=1.59, r=.5, center=[.6, .6, 5]), 1.33, .66, (1, 0)), noise_sd=.1)
model = AlphaModel(Sphere(n=Uniform(1.5, 1.7), r=Uniform(.4, .6), center=[.6, .6, Uniform(4, 6)]), alpha=Uniform(.6, 1))

strat = LeastSquaresScipyStrategy()
strat.max_nfev = 1          # "stop after one evaluation"
strat.ftol = 1e-2
b = io.BytesIO(); hp.save(b, strat); b.seek(0)
reloaded = hp.load(b)
print('saved text      :', b.getvalue().decode().replace('\n', ' '))
print('original uses   :', {k: strat._optimizer_kwargs[k] for k in ('ftol', 'max_nfev')})
print('reloaded uses   :', {k: reloaded._optimizer_kwargs[k] for k in ('ftol', 'max_nfev')})
r1 = hp.fit(holo, model, strategy=strat)
r2 = hp.fit(holo, model, strategy=reloaded)
print('function evaluations: original', r1.minimizer_info.nfev, ' reloaded', r2.minimizer_info.nfev)
print('result.strategy of the original fit claims:', r1.strategy)
bad = (r1.minimizer_info.nfev != r2.minimizer_info.nfev) or strat._optimizer_kwargs['max_nfev'] != strat.max_nfev
print('VIOLATION' if bad else 'ok')
sys.exit(1 if bad else 0)
