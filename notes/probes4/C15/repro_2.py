"""A scatterer whose per-channel parameter is an xarray.DataArray (what a Model
with a labelled per-channel index hands back as model.scatterer /
result.scatterer) is written without complaint but the text cannot be read."""
import sys, os; sys.path.insert(0, os.getcwd())
import io, warnings
import numpy as np, xarray as xr
warnings.simplefilter('ignore')
import holopy as hp
from holopy.scattering import Sphere
from holopy.core.prior import Uniform
from holopy.inference import AlphaModel

n = xr.DataArray([Uniform(1.5, 1.6), Uniform(1.6, 1.7)], dims=['illumination'],
                 coords={'illumination': ['red', 'green']})
model = AlphaModel(Sphere(n=n, r=Uniform(.4, .6), center=[.3, .4, Uniform(4, 6)]))
# the model itself round-trips (make_xarray in its maps)
m2 = hp.load(io.BytesIO((lambda b: (hp.save(b, model), b.getvalue())[1])(io.BytesIO())))
print('model reloads:', type(m2).__name__)
best = model.scatterer_from_parameters(model.initial_guess)   # what result.scatterer is
print('scatterer:', type(best.n).__name__, best.n.values)
buf = io.BytesIO()
hp.save(buf, best)                      # succeeds silently
print('saved %d bytes, starts: %r' % (len(buf.getvalue()), buf.getvalue()[:70]))
buf.seek(0)
try:
    back = hp.load(buf)
    ok = isinstance(back, Sphere) and np.allclose(np.asarray(back.n, dtype=float), best.n.values.astype(float))
    print('reloaded:', back)
except Exception as e:
    ok = False
    print('hp.load raised', type(e).__name__, str(e).splitlines()[0][:150])
print('ok' if ok else 'VIOLATION: object written by hp.save cannot be read back')
sys.exit(0 if ok else 1)
