"""C17 repro 1: propagate() labels the result plane with the *relative* distance d,
discarding the z position of the input plane.  Chained propagation and propagation
of a field recorded on a detector away from z = 0 therefore return planes with the
wrong z coordinate (and a list containing 0 mixes absolute and relative labels)."""
import sys, os; sys.path.insert(0, os.getcwd())
import warnings; warnings.filterwarnings('ignore')
import numpy as np, xarray as xr
_u = xr.Dataset.update                      # sandbox xarray: update returns None
xr.Dataset.update = lambda self, other: (lambda r: self if r is None else r)(_u(self, other))
import holopy as hp
from holopy.core.metadata import detector_grid
from holopy.scattering import Sphere, calc_field

N, sp = 121, 0.1
kw = dict(medium_index=1.33, illum_wavelen=0.66, illum_polarization=(1, 0))
sph = Sphere(n=1.59, r=0.4, center=(N*sp/2, N*sp/2, 12.0))
def field(z):
    det = detector_grid(N, sp).assign_coords(z=[z])
    return calc_field(det, sph, **kw).sel(vector='x')
c = slice(40, 81)
def relerr(a, b):
    a = a.transpose('x', 'y', 'z').values[c, c, 0]; b = b.transpose('x', 'y', 'z').values[c, c, 0]
    return np.linalg.norm(a - b) / np.linalg.norm(b)

e3 = field(3.0)                       # a field recorded on a detector at z = 3
p = hp.propagate(e3, 2.0, medium_index=1.33, illum_wavelen=0.66)
print('input plane z =', e3.z.values, ' propagated by d = 2  -> result z =', p.z.values)
print('  rel. difference to the field computed at z = 5:', relerr(p, field(5.0)))
print('  rel. difference to the field computed at z = 2:', relerr(p, field(2.0)))

e0 = field(0.0)
chain = hp.propagate(hp.propagate(e0, 3.0), 2.0)
direct = hp.propagate(e0, 5.0)
print('chain 3 then 2: z =', chain.z.values, ' direct 5: z =', direct.z.values,
      ' max |value difference| =', float(abs(chain.values - direct.values).max()))
mixed = hp.propagate(e3, [0, 2.0], medium_index=1.33, illum_wavelen=0.66)
print('propagate(field at z=3, [0, 2]) -> z =', mixed.z.values, '(planes really at 3 and 5)')

bad = (relerr(p, field(5.0)) < 0.1 and float(p.z.values[0]) != 5.0) or \
      (float(chain.z.values[0]) != float(direct.z.values[0]))
print('VIOLATION' if bad else 'ok')
sys.exit(1 if bad else 0)
