"""C17 repro 3 (minor, crash): a plane picked out of a reconstructed stack (or any image
whose z is a scalar coordinate rather than a length-1 axis) cannot be propagated further:
propagate() unconditionally does ft.squeeze('z').  fft/ifft accept the same image.
An image carrying an auxiliary (non-index) coordinate along an extra axis fails in
fft()/propagate() because ft_coords() rebuilds every coordinate from bare values."""
import sys, os; sys.path.insert(0, os.getcwd())
import warnings; warnings.filterwarnings('ignore')
import numpy as np, xarray as xr
_u = xr.Dataset.update
xr.Dataset.update = lambda self, other: (lambda r: self if r is None else r)(_u(self, other))
import holopy as hp
from holopy.core.metadata import data_grid
from holopy.core.process import fft, ifft

rng = np.random.default_rng(0)
holo = data_grid(rng.normal(size=(8, 6)), spacing=0.3, medium_index=1.33, illum_wavelen=0.66)
stack = hp.propagate(holo, [1.0, 2.0])
plane = stack.sel(z=2.0)                       # z is now a scalar coordinate
print('ifft(fft(plane)) works:', float(abs(ifft(fft(plane)) - plane).max()))
bad = False
try:
    further = hp.propagate(plane, 1.0)
    print('propagate(plane) ok, max diff to direct propagation by 3:',
          float(abs(further.values.squeeze() - hp.propagate(holo, 3.0).values.squeeze()).max()))
except Exception as e:
    bad = True
    print('propagate(stack.sel(z=2.0), 1.0) FAILED:', type(e).__name__, e)

movie = data_grid(rng.normal(size=(8, 6, 3)), spacing=0.3, medium_index=1.33, illum_wavelen=0.66,
                  extra_dims={'time': [0., 1., 2.]}).assign_coords(frame=('time', [10, 11, 12]))
try:
    hp.propagate(movie, 1.0); print('propagate(movie with aux coordinate) ok')
except Exception as e:
    bad = True
    print('propagate(movie with an auxiliary "frame" coordinate on time) FAILED:', type(e).__name__, str(e)[:100])
sys.exit(1 if bad else 0)
