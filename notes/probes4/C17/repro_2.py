"""C17 repro 2: per-channel wavelengths given as a dictionary cannot be attached to
(or used to propagate) an image that carries any scalar coordinate -- e.g. one frame
selected from a multi-colour time series.  dict_to_array() iterates over the values
of *every* coordinate, including 0-d ones, before it even looks at 'illumination'."""
import sys, os; sys.path.insert(0, os.getcwd())
import warnings; warnings.filterwarnings('ignore')
import numpy as np, xarray as xr
_u = xr.Dataset.update
xr.Dataset.update = lambda self, other: (lambda r: self if r is None else r)(_u(self, other))
import holopy as hp
from holopy.core.metadata import data_grid, update_metadata

rng = np.random.default_rng(0)
movie = data_grid(rng.normal(size=(6, 5, 2, 3)), spacing=0.3, medium_index=1.33,
                  extra_dims={'illumination': ['red', 'green'], 'time': [0., 1., 2.]})
wl = {'red': 0.66, 'green': 0.52}
full = hp.propagate(movie, 2.0, illum_wavelen=wl)          # works on the whole movie
frame = movie.sel(time=1.0)                                # one frame: 'time' is now a scalar coordinate
bad = False
for label, call in [('update_metadata', lambda: update_metadata(frame, illum_wavelen=wl)),
                    ('propagate', lambda: hp.propagate(frame, 2.0, illum_wavelen=wl))]:
    try:
        out = call()
        print(label, 'ok', out.dims)
    except Exception as e:
        bad = True
        print(label, 'on one frame of the movie FAILED:', type(e).__name__, '-', e)
if not bad:
    ref = full.sel(time=1.0)
    print('max diff to the frame of the full result',
          float(abs(hp.propagate(frame, 2.0, illum_wavelen=wl) - ref).max()))
sys.exit(1 if bad else 0)
