"""C19 repro 4: translated() accepts a translation given as a (3, 1) column
vector (len() == 3 passes the check) and then broadcasts it against the (3,)
centre, so the "translated" scatterer silently gets a 3x3 matrix as its
centre (a (1, 3) row vector is rejected with a clear error instead).

Run from the checkout root:  /venv/bin/python /tmp/probe4_out/C19/repro_4.py
"""
import sys, os; sys.path.insert(0, os.getcwd())
import warnings
import numpy as np
import holopy
from holopy.scattering import Sphere, Spheres

warnings.simplefilter("ignore")
print("holopy from", holopy.__file__)
t = np.array([[1.], [2.], [3.]])          # column vector, e.g. from R @ v
s = Sphere(n=1.59, r=0.5, center=(1, 2, 3))
c = Spheres([s, Sphere(n=1.5, r=0.2, center=(3, 3, 3))])
bad = False
for name, obj, get in [("Sphere", s, lambda o: np.asarray(o.center)),
                       ("Spheres", c, lambda o: o.centers)]:
    want = get(obj) + t.ravel()
    try:
        got = get(obj.translated(t))
    except Exception as e:                 # a refusal would be fine
        print(name, "refused:", type(e).__name__)
        continue
    print(name, "centre(s) after translated(column vector):\n", got)
    print("   expected\n", want)
    if got.shape != want.shape or not np.allclose(got, want):
        bad = True
if bad:
    print("VIOLATION: centre is no longer a point (shifted by a matrix, "
          "not by the vector)")
    sys.exit(1)
print("no violation")
sys.exit(0)
