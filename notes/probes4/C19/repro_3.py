"""C19 repro 3 (user of rotation_matrix): JanusSphere_Tapered's default
rotation is the 2-tuple (0, 0) while its indicators call
rotation_matrix(*self.rotation), which needs three Euler angles; a tapered
Janus sphere built with the default orientation cannot be voxelated or
queried (the sibling JanusSphere_Uniform defaults to (0, 0, 0) and works).

Run from the checkout root:  /venv/bin/python /tmp/probe4_out/C19/repro_3.py
"""
import sys, os; sys.path.insert(0, os.getcwd())
import numpy as np
import holopy
from holopy.scattering.scatterer import JanusSphere_Tapered, JanusSphere_Uniform

print("holopy from", holopy.__file__)
u = JanusSphere_Uniform(n=(1.5, 1.6), r=(0.5, 0.6), center=(0, 0, 0))
print("uniform, default rotation", u.rotation, "->",
      u.in_domain(np.array([[0, 0, 0.55], [0, 0, -0.55], [0, 0, 0.1]])))
t = JanusSphere_Tapered(n=(1.5, 1.6), r=(0.5, 0.6), center=(0, 0, 0))
print("tapered, default rotation", t.rotation)
try:
    print(t.in_domain(np.array([[0, 0, 0.55], [0, 0, -0.55], [0, 0, 0.1]])))
except TypeError as e:
    print("VIOLATION: default orientation unusable:", e)
    sys.exit(1)
print("no violation")
sys.exit(0)
