"""C19 repro 2 (anchored file scatterer.py, less-visited entry point):
Scatterer.voxelate(spacing, medium_index) silently ignores medium_index; the
voxels outside the particle are always 0 instead of the medium's index.

Run from the checkout root:  /venv/bin/python /tmp/probe4_out/C19/repro_2.py
"""
import sys, os; sys.path.insert(0, os.getcwd())
import numpy as np
import holopy
from holopy.scattering import Sphere

print("holopy from", holopy.__file__)
s = Sphere(n=1.59, r=0.5, center=(1, 2, 3))
vox = s.voxelate(0.25, medium_index=1.33)
expected = s.index_at(s._voxel_coords(0.25), 1.33)
print("values in voxelate(0.25, medium_index=1.33):", np.unique(vox))
print("values expected (index_at(..., background=1.33)):", np.unique(expected))
if not np.array_equal(vox, expected):
    print("VIOLATION: medium_index is ignored by voxelate")
    sys.exit(1)
print("no violation")
sys.exit(0)
