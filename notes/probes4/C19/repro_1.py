"""C19 repro 1: coordinate conversions computed in the *integer* dtype of the
input: the squares x*x, x**2 ... wrap around silently, so integer-valued
points of quite ordinary magnitude (>= 46341 for int32, >= 3.04e9 for int64)
come back with a wrong finite radius (or NaN), i.e. the conversion does not
preserve the distance from the origin, is not inverted by the reverse
conversion and disagrees with the same points given as floats.

Run from the checkout root:  /venv/bin/python /tmp/probe4_out/C19/repro_1.py
"""
import sys, os; sys.path.insert(0, os.getcwd())
import warnings
import numpy as np
import holopy
from holopy.core.math import find_transformation_function as ftf

print("holopy from", holopy.__file__)
warnings.simplefilter("ignore", RuntimeWarning)

bad = False
cases = [
    ("int32", np.array([[30000, 50000], [40000, 50000], [0, 50000]],
                       dtype=np.int32)),
    ("int64", np.array([[3, 3_100_000_000], [4, 3_100_000_000], [12, 7]],
                       dtype=np.int64)),
]
for label, xyz in cases:
    xyz_f = xyz.astype(float)
    true_r = np.sqrt((xyz_f ** 2).sum(0))
    for target in ("spherical", "cylindrical"):
        got = ftf("cartesian", target)(xyz)           # integer points
        ref = ftf("cartesian", target)(xyz_f)         # same points as floats
        back = ftf(target, "cartesian")(got)
        if target == "spherical":
            dist = got[0]
        else:
            dist = np.hypot(got[0], got[2])
        ok_same = np.allclose(got, ref, rtol=1e-12, equal_nan=False)
        ok_dist = np.allclose(dist, true_r, rtol=1e-12, equal_nan=False)
        ok_inv = np.allclose(back, xyz_f, rtol=1e-9, atol=1e-6)
        print(f"{label:6s} cartesian->{target:11s}  points(columns)=\n{xyz}")
        print("   returned             :", got.tolist())
        print("   same points as floats:", ref.tolist())
        print("   distance kept:", ok_dist, "| equals float result:", ok_same,
              "| inverse recovers the points:", ok_inv)
        if not (ok_same and ok_dist and ok_inv):
            bad = True

# composition clause: cartesian->cylindrical->spherical vs cartesian->spherical
xyz = np.array([[50000], [50000], [50000]], dtype=np.int32)
direct = ftf("cartesian", "spherical")(xyz)
via = ftf("cylindrical", "spherical")(ftf("cartesian", "cylindrical")(xyz))
print("int32 (50000,50000,50000): direct r,theta,phi =", direct.ravel(),
      " via cylindrical =", via.ravel(), " true r =", 50000 * np.sqrt(3))
if not np.allclose(direct, via, equal_nan=False):
    bad = True

if bad:
    print("VIOLATION: integer-typed points are converted with wrapped-around "
          "squares (silent wrong radius / NaN)")
    sys.exit(1)
print("no violation")
sys.exit(0)
