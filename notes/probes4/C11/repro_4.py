"""C11 / 'building a scatterer from parameter values puts each value at the
place its prior was used' x add_tie x objects that share the model.

Model.add_tie edits self._parameters and self._parameter_names IN PLACE (del /
item assignment) but REBINDS self._maps.  Every other object that shares the
model's state is left with values going to the wrong places, silently:

 (a) a shallow copy made to try a tied variant (copy.copy(model).add_tie(...))
     corrupts the ORIGINAL model: its names lose '1:r' while its maps still
     point at the old indices, so the value given for 'alpha' lands in the
     radius of the second sphere;
 (b) a FitResult keeps a reference to the model it was fitted with and maps its
     best-fit values BY POSITION through that model; tying two parameters of
     the model afterwards (to run a second, tied fit) makes the first result
     report a radius as the z coordinate of the second sphere.
"""
import sys, os; sys.path.insert(0, os.getcwd())
import copy, warnings
warnings.filterwarnings('ignore')
import numpy as np
import holopy as hp
from holopy.core.prior import Uniform
from holopy.scattering import Sphere, Spheres, Mie
from holopy.inference import AlphaModel, NmpfitStrategy
from holopy.inference.result import FitResult, UncertainValue

warnings.simplefilter('ignore')
print('holopy from', hp.__file__)
bad = 0


def make_model():
    s = Spheres([Sphere(n=1.55, r=Uniform(.3, .6), center=[1.2, 2, Uniform(5, 7)]),
                 Sphere(n=1.55, r=Uniform(.3, .6), center=[4.9, 2, Uniform(5, 7)])])
    return AlphaModel(s, alpha=Uniform(.5, 1.), theory=Mie(), noise_sd=.01)

# (a) shallow copy
model = make_model()
values = {'0:r': .40, '0:center.2': 6.0, '1:r': .50, '1:center.2': 6.5, 'alpha': .7}
expected = repr(model.scatterer_from_parameters(values))
tied = copy.copy(model)
tied.add_tie(['0:r', '1:r'])
print('(a) names of the ORIGINAL model after tying its shallow copy:', model._parameter_names)
try:
    now = repr(model.scatterer_from_parameters(values))
except Exception as e:
    now = 'raised %r' % e
print('    original model, before:', expected)
print('    original model, after :', now)
bad += now != expected

# (b) a fit result obtained before the tie
model = make_model()
best = [.45, 6.0, .50, 6.5, .8]
intervals = [UncertainValue(v, 0.01, name=n) for v, n in zip(best, model._parameter_names)]
data = hp.detector_grid(shape=4, spacing=.5)
result = FitResult(data, model, NmpfitStrategy(), 0.1, {'intervals': intervals})
before = repr(result.scatterer)
model.add_tie(['0:r', '1:r'])         # prepare a second, tied fit of the same model
try:
    after = repr(result.scatterer)
except Exception as e:
    after = 'raised %r' % e
print('(b) result.parameters      :', result.parameters)
print('    result.scatterer before:', before)
print('    result.scatterer after :', after)
bad += after != before

print('VIOLATION' if bad else 'ok')
sys.exit(1 if bad else 0)
