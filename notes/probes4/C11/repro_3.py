"""Anchored file scatterer.py, outside the literal C11 statement: an option
that is silently ignored.  Scatterer.voxelate(spacing, medium_index) documents
medium_index as 'the background index of refraction to fill in at regions
where the scatterer is not present' but never passes it on to index_at."""
import sys, os; sys.path.insert(0, os.getcwd())
import warnings; warnings.filterwarnings('ignore')
import numpy as np
import holopy
from holopy.scattering import Sphere

print('holopy from', holopy.__file__)
s = Sphere(n=1.59, r=.5, center=[0, 0, 0])
vox = s.voxelate(.25, medium_index=1.33)
direct = s.index_at(s._voxel_coords(.25), background=1.33)
print('values in voxelate(.25, medium_index=1.33):', np.unique(vox))
print('values in index_at(..., background=1.33)  :', np.unique(direct))
bad = not np.array_equal(vox, direct)
print('VIOLATION: medium_index ignored' if bad else 'ok')
sys.exit(1 if bad else 0)
