"""C11 / 'uniquely named parameters ... named or unnamed'.

A prior that carries an explicit user name containing a colon loses that name
when it is shared between two members of a collection at the same attribute:
Mapper.get_parameter_index treats the text before the first ':' of ANY
parameter name as a member index and renames the parameter to the bare
attribute name, also when the name was chosen by the user.
"""
import sys, os; sys.path.insert(0, os.getcwd())
import warnings; warnings.filterwarnings('ignore')
import holopy
from holopy.core.prior import Uniform
from holopy.scattering import Sphere, Spheres, Mie
from holopy.inference import AlphaModel

print('holopy from', holopy.__file__)


def names(prior_name, share):
    p = Uniform(.3, .6, guess=.5, name=prior_name)
    q = p if share else Uniform(.3, .6, guess=.45)
    s = Spheres([Sphere(n=1.5, r=p, center=[0, 0, 5]),
                 Sphere(n=1.5, r=q, center=[2, 0, 5])])
    return AlphaModel(s, theory=Mie())._parameter_names

print("name='dimer_r', shared :", names('dimer_r', True))
print("name='dimer:r', single :", names('dimer:r', False))
got = names('dimer:r', True)
print("name='dimer:r', shared :", got)
bad = 'dimer:r' not in got
print('VIOLATION: the user-given name was replaced' if bad else 'ok')
sys.exit(1 if bad else 0)
