"""C11 / 'fixed values are left untouched', 'rebuilt scatterer equals the original'.

Fixed tuple-valued entries of a scatterer (a centre given as a tuple, and the
DEFAULT rotation=(0, 0, 0) of Spheroid/Cylinder/Ellipsoid/Capsule/Bisphere)
come back from the Model / validate_scatterer as lists, so the rebuilt
scatterer does not compare equal to the one the user supplied, although no
value was changed (the library's own test test_scatterer_is_parameterized
asserts model.scatterer == sphere, which only holds for list/array centres).
"""
import sys, os; sys.path.insert(0, os.getcwd())
import warnings; warnings.filterwarnings('ignore')
import numpy as np
import holopy
from holopy.core.prior import Uniform
from holopy.scattering import Sphere, Spheres, Cylinder, Mie, Tmatrix
from holopy.scattering.interface import validate_scatterer
from holopy.inference import AlphaModel

print('holopy from', holopy.__file__)
bad = 0

# 1. the library's own expectation (test_scatterer_is_parameterized) with a tuple centre
for center in [[1, 2, 3], np.array([1, 2, 3]), (1, 2, 3)]:
    sphere = Sphere(n=Uniform(1, 2), r=Uniform(0, 1), center=center)
    same = AlphaModel(sphere, theory=Mie()).scatterer == sphere
    print('model.scatterer == scatterer for center of type %-8s: %s'
          % (type(center).__name__, same))
    bad += not same

# 2. no tuple written by the user at all: the default rotation is a tuple
cyl = Cylinder(n=1.5, h=1.0, d=0.5, center=[1, 2, 3])
model = AlphaModel(Cylinder(n=Uniform(1.4, 1.6, guess=1.5), h=1.0, d=0.5,
                            center=[1, 2, 3]), theory=Tmatrix())
built = model.initial_guess_scatterer
print('initial_guess_scatterer :', built)
print('scatterer of the guesses:', cyl)
print('equal:', built == cyl)
bad += not (built == cyl)

# 3. the scatterer calc_holo & co. really compute with is "different" from the input
val = validate_scatterer(cyl)
print('validate_scatterer(cylinder without priors) == cylinder:', val == cyl)
bad += not (val == cyl)

# 4. collection given as a tuple: rebuilt from its own parameter dictionary
sp = Spheres((Sphere(n=1.5, r=.5, center=[0, 0, 0]), Sphere(n=1.5, r=.5, center=[2, 0, 0])))
same = sp.from_parameters(sp.parameters) == sp
print('Spheres(tuple).from_parameters(own parameters) == original:', same)
bad += not same

print('VIOLATION' if bad else 'ok')
sys.exit(1 if bad else 0)
