"""C10 repro 3 (minor, error reporting):
(a) TheoryNotCompatibleError drops the `reason` it is given and repeats its own
    text instead (errors.py: `message += " because: " + message`).
(b) Spheroid(r=<scalar>) means to raise InvalidScatterer but passes the
    arguments in the wrong order (message, scatterer), so a TypeError comes out
    of InvalidScatterer.__init__ (callers that catch InvalidScatterer, e.g.
    AlphaModel._forward, do not see it).

Run from the checkout root; exit status 1 = violation present.
"""
import sys, os
sys.path.insert(0, os.getcwd())
import warnings
warnings.simplefilter('ignore')
from holopy.scattering import Sphere, Spheroid, Tmatrix
from holopy.scattering.errors import TheoryNotCompatibleError, InvalidScatterer

bad = False
reason = "layered spheres are not supported"
msg = str(TheoryNotCompatibleError(Tmatrix(), Sphere(n=1.5, r=0.5), reason))
print('message :', msg)
if reason not in msg:
    print('VIOLATION (a): the reason is not in the message')
    bad = True

try:
    Spheroid(n=1.5, r=0.5)
    print('Spheroid(r=0.5) accepted')
except InvalidScatterer as e:
    print('Spheroid(r=0.5) -> InvalidScatterer:', e)
except Exception as e:
    print('Spheroid(r=0.5) ->', type(e).__name__ + ':', e)
    print('VIOLATION (b): not the InvalidScatterer the code means to raise')
    bad = True
sys.exit(1 if bad else 0)
