"""C10 repro 4 (low priority, same mechanism as repro 1: nothing checks the
scalars handed to the f2py routine, and f2py silently reduces them):
(a) calc_scat_matrix with Tmatrix accepts a complex medium index and returns
    numbers computed from the REAL PARTS of the wavelength and of n/n_medium
    (Mie refuses the same call: "Cannot handle complex arguments").
(b) degenerate sizes are not refused either: a zero-diameter cylinder kills
    the interpreter with SIGSEGV (not the known Fortran STOP), a NaN Euler
    angle comes back as an all-NaN field without any exception.

Run from the checkout root; exit status 1 = violation present.
"""
import sys, os, subprocess
sys.path.insert(0, os.getcwd())
import warnings
import numpy as np
warnings.simplefilter('ignore')
import holopy as hp
from holopy.scattering import Sphere, Mie, Tmatrix, calc_scat_matrix

bad = False
det = hp.detector_points(theta=[0.1, 0.5], phi=[0., 0.])
s = Sphere(n=1.59, r=0.5, center=(0, 0, 3))
n_med = 1.33 + 0.05j
try:
    calc_scat_matrix(det, s, n_med, 0.66, theory=Mie())
    print('Mie accepted the complex medium index')
except Exception as e:
    print('Mie     :', type(e).__name__, e)
try:
    t = calc_scat_matrix(det, s, n_med, 0.66, theory=Tmatrix()).values
    # what the compiled code actually saw: real parts only
    k = 2 * np.pi * n_med / 0.66
    lam = (2 * np.pi / k).real
    m_seen = (1.59 / n_med).real
    s_seen = Sphere(n=m_seen, r=0.5, center=(0, 0, 3))
    t2 = calc_scat_matrix(det, s_seen, 1.0, lam, theory=Tmatrix()).values
    t2 = t2 * (2 * np.pi / k).real / (2 * np.pi / k)   # same complex prefactor
    print('Tmatrix : returned', t[1, 0, 0])
    print('          relative index real part only, n = %.4f, gives' % m_seen,
          t2[1, 0, 0])
    if np.isfinite(t).all():
        print('VIOLATION (a): silently computed with the imaginary parts '
              'dropped')
        bad = True
except Exception as e:
    print('Tmatrix :', type(e).__name__, e)

child = r'''
import sys, os; sys.path.insert(0, os.getcwd())
import warnings; warnings.simplefilter('ignore')
import numpy as np, holopy as hp
from holopy.scattering import Cylinder, Spheroid, Tmatrix, calc_field
det = hp.detector_grid(shape=(3, 3), spacing=1.)
kw = dict(medium_index=1.33, illum_wavelen=.66, illum_polarization=(1, 0), theory=Tmatrix())
if sys.argv[1] == 'zero':
    calc_field(det, Cylinder(n=1.5, d=0., h=0.5, center=(1, 1, 5)), **kw)
    print('RETURNED')
else:
    f = calc_field(det, Spheroid(n=1.5, r=(.3, .5), rotation=(0, float('nan'), .3), center=(1, 1, 5)), **kw)
    print('RETURNED nan=%d of %d' % (np.isnan(f.values).sum(), f.values.size))
'''
for case in ['zero', 'nanangle']:
    p = subprocess.run([sys.executable, '-c', child, case],
                       capture_output=True, text=True)
    print(case, '-> return code', p.returncode, '| stdout:',
          p.stdout.strip() or '<nothing>')
    if p.returncode < 0 or 'nan=' in p.stdout and 'nan=0' not in p.stdout:
        bad = True
if bad:
    print('VIOLATION (b) if a negative return code / NaNs are shown above')
sys.exit(1 if bad else 0)
