"""C10 repro 2 (side finding): a generic composite `Scatterers` of
Tmatrix-compatible parts cannot be computed, although ImageFormation has a
superposition branch for exactly this case.

ImageFormation.calculate_scattered_field starts with `scatterer.center is
None`; `Scatterers` (unlike `Spheres`) defines no `center`, so every calc_*
call dies with AttributeError before the superposition branch
(_calculate_single_color_scattered_field: `elif isinstance(scatterer,
Scatterers)`) can be reached.

Run from the checkout root; exit status 1 = violation present.
"""
import sys, os
sys.path.insert(0, os.getcwd())
import warnings
import numpy as np
warnings.simplefilter('ignore')
import holopy as hp
from holopy.scattering import (Spheroid, Cylinder, Scatterers, Tmatrix,
                               calc_field)

det = hp.detector_grid(shape=(6, 6), spacing=0.5)
kw = dict(medium_index=1.33, illum_wavelen=0.66, illum_polarization=(1, 0),
          theory=Tmatrix())
a = Spheroid(n=1.59, r=(0.3, 0.6), rotation=(0, 0.4, 0.3), center=(1, 1.5, 4))
b = Cylinder(n=1.5, d=0.5, h=0.7, rotation=(0, 1.0, 2.0), center=(2, 1, 6))
expected = calc_field(det, a, **kw) + calc_field(det, b, **kw)
try:
    got = calc_field(det, Scatterers([a, b]), **kw)
except Exception as e:
    print('calc_field(Scatterers([spheroid, cylinder]), Tmatrix) raised',
          type(e).__name__ + ':', e)
    print('VIOLATION: the composite is refused with an internal '
          'AttributeError; the superposition branch is unreachable')
    sys.exit(1)
err = float(np.abs(got - expected).max() / np.abs(expected).max())
print('composite equals the sum of its parts to', err)
sys.exit(1 if err > 1e-9 else 0)
