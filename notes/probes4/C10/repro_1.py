"""C10 repro 1: calc_scat_matrix(..., theory=Tmatrix()) on a layered sphere
silently returns the amplitude matrix of the bare core.

The round-4 repair put the "uniform sphere only" test into
Tmatrix.can_handle, but calc_scat_matrix -> ImageFormation.
calculate_scattering_matrix -> Tmatrix.raw_scat_matrs -> _parse_args never
asks can_handle; _parse_args accepts any Sphere instance and hands the arrays
n, r of a LayeredSphere to the f2py routine, which takes element [0] of each.
calc_field on the same inputs raises TheoryNotCompatibleError.

Run from the checkout root:  /venv/bin/python /tmp/probe4_out/C10/repro_1.py
exit status 1 = violation present.
"""
import sys, os
sys.path.insert(0, os.getcwd())
import warnings
import numpy as np
warnings.simplefilter('ignore')
import holopy as hp
from holopy.scattering import (Sphere, LayeredSphere, Mie, Tmatrix,
                               calc_scat_matrix, calc_field)
from holopy.scattering.errors import TheoryNotCompatibleError

print('holopy from', hp.__file__)
det = hp.detector_points(theta=[0.1, 0.5, 0.9], phi=[0., 0., 0.])
n_med, wl = 1.33, 0.66
layered = LayeredSphere(n=[1.59, 1.40], t=[0.30, 0.20], center=(0, 0, 3))
core = Sphere(n=1.59, r=0.30, center=(0, 0, 3))

field_path = 'returned values'
try:
    calc_field(det, layered, n_med, wl, (1, 0), theory=Tmatrix())
except TheoryNotCompatibleError as e:
    field_path = 'TheoryNotCompatibleError'
print('calc_field(layered, Tmatrix)       ->', field_path)

violation = False
try:
    t_lay = calc_scat_matrix(det, layered, n_med, wl, theory=Tmatrix()).values
except Exception as e:
    print('calc_scat_matrix(layered, Tmatrix) ->', type(e).__name__, e)
    print('no violation: the call is refused')
    sys.exit(0)

m_lay = calc_scat_matrix(det, layered, n_med, wl, theory=Mie()).values
t_core = calc_scat_matrix(det, core, n_med, wl, theory=Tmatrix()).values
# azimuth 0, so the (known) lab-frame convention of Tmatrix plays no role
print('S2 (theta=0.5) Mie, layered sphere     :', m_lay[1, 0, 0])
print('S2 (theta=0.5) Tmatrix, layered sphere :', t_lay[1, 0, 0])
print('S2 (theta=0.5) Tmatrix, bare core only :', t_core[1, 0, 0])
scale = np.abs(m_lay).max()
d_true = np.abs(t_lay - m_lay).max() / scale
d_core = np.abs(t_lay - t_core).max() / scale
print('rel. difference to the layered-sphere result: %.3g' % d_true)
print('rel. difference to the bare-core result     : %.3g' % d_core)
if d_true > 1e-3:
    violation = True
    print('VIOLATION: calc_scat_matrix silently returned a wrong matrix '
          'for a layered sphere' +
          (' (it is the matrix of the core alone)' if d_core < 1e-9 else ''))
sys.exit(1 if violation else 0)
