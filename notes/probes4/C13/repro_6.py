"""C13 / repro_6: hp.fit(data, scatterer) - the documented shortcut that builds a
default model from a bare scatterer - cannot take an absorbing sphere as the
guess: make_uniform() wraps the complex index in prior.Uniform(0, inf, guess=n)
and Uniform.__init__ compares the complex guess with its bounds.

Run from the checkout root:  /venv/bin/python /tmp/probe4_out/C13/repro_6.py
"""
import sys, os; sys.path.insert(0, os.getcwd())
import warnings; warnings.simplefilter('ignore')
import numpy as np; np.NaN = np.nan          # sandbox: numpy 2 has no np.NaN
import holopy as hp
from holopy.scattering import Sphere, calc_holo

det = hp.detector_grid((20, 22), (0.1, 0.12))
det = hp.core.update_metadata(det, medium_index=1.33, illum_wavelen=0.66,
                              illum_polarization=(1, 0), noise_sd=0.05)
data = calc_holo(det, Sphere(n=1.59 + 0.01j, r=0.5, center=(1.0, 1.2, 10)), scaling=0.75)
guess = Sphere(n=1.59 + 0.01j, r=0.51, center=(1.02, 1.18, 10.1))

print("non-absorbing twin works:",
      hp.fit(calc_holo(det, Sphere(n=1.59, r=0.5, center=(1.0, 1.2, 10)), scaling=0.75),
             Sphere(n=1.59, r=0.51, center=(1.02, 1.18, 10.1))).parameters['r'])
try:
    res = hp.fit(data, guess)
    print("absorbing sphere:", res.parameters)
    bad = False
except TypeError as e:
    print("absorbing sphere: TypeError:", e)
    bad = True
sys.exit(1 if bad else 0)
