"""C13 / repro_2: FitResult.forward() decides that its data are a random pixel
subset from the mere presence of an `original_dims` attribute.  The best-fit
hologram of a pixel-subset fit carries that attribute (forward() copies the
subset's metadata onto the image it returns), and it survives cropping.  Fitting
such a (full, cropped) image then gives a result whose .hologram is computed on
the OLD un-cropped grid instead of the grid of result.data, and saving that
result pads result.data with NaN (outer join in xr.merge) so that the reloaded
result has different data and max_lnprob = nan.

Run from the checkout root:  /venv/bin/python /tmp/probe4_out/C13/repro_2.py
"""
import sys, os; sys.path.insert(0, os.getcwd())
import warnings; warnings.simplefilter('ignore')
import tempfile
import numpy as np; np.NaN = np.nan          # sandbox: numpy 2 has no np.NaN
import holopy as hp
from holopy.scattering import Sphere, calc_holo
from holopy.inference import prior, AlphaModel, NmpfitStrategy, LeastSquaresScipyStrategy

det = hp.detector_grid((20, 22), (0.1, 0.12))
det = hp.core.update_metadata(det, medium_index=1.33, illum_wavelen=0.66,
                              illum_polarization=(1, 0), noise_sd=0.05)
data = calc_holo(det, Sphere(n=1.59, r=0.5, center=(1.0, 1.2, 10)), scaling=0.8)
sph = Sphere(n=1.59, r=prior.Uniform(0.3, 0.8, guess=0.52),
             center=[prior.Uniform(0, 2, guess=1.02), prior.Uniform(0, 2.5, guess=1.18),
                     prior.Uniform(5, 15, guess=10.2)])
model = AlphaModel(sph, alpha=prior.Uniform(0.5, 1, guess=0.75))

# 1. a fit on a random subset of pixels; its best-fit hologram is a full image
first = hp.fit(data, model, strategy=LeastSquaresScipyStrategy(npixels=200))
best = first.hologram
print("best-fit image of the subset fit:", best.dims, best.shape,
      "| carries 'original_dims':", 'original_dims' in best.attrs)

# 2. crop that image (a full x/y/z image, no 'flat' dimension) and fit it
crop = best.isel(x=slice(3, 17), y=slice(2, 20))
second = hp.fit(crop, model, strategy=NmpfitStrategy())
direct = model.forward(second.parameters, second.data)
print("data fitted          :", second.data.shape)
print("model.forward(...)   :", direct.shape)
print("result.hologram      :", second.hologram.shape)
lnp = second.max_lnprob

# 3. save / load
fname = os.path.join(tempfile.mkdtemp(), 'result.h5')
hp.save(fname, second)
loaded = hp.load(fname)
nan = int(np.isnan(loaded.data.values).sum())
print("reloaded data        :", loaded.data.shape, "NaN pixels:", nan)
print("max_lnprob before / recomputed after reload:", lnp,
      loaded.model.lnposterior(loaded.parameters, loaded.data))

bad = (second.hologram.shape != second.data.shape) or (loaded.data.shape != second.data.shape)
if bad:
    print("VIOLATION: best-fit hologram is not the forward model on the data's grid; "
          "saved result does not reload to equivalent data")
sys.exit(1 if bad else 0)
