"""C13 / repro_4: when mpfit stops on its gradient test (status 4) it `return`s from
inside the main loop instead of leaving it, so the termination block (fnorm**2,
covariance, perror) never runs.  NmpfitStrategy turns the missing perror into
uncertainties of exactly 0.  Status 4 is what happens whenever the residuals
become exactly zero, i.e. for noise-free data started at (or stepping exactly
onto) the generating parameters - the fixed-point case of the property - so the
same data/model report sensible uncertainties from a guess 1e-6 away and
+-0 from the exact guess.

Run from the checkout root:  /venv/bin/python /tmp/probe4_out/C13/repro_4.py
"""
import sys, os; sys.path.insert(0, os.getcwd())
import warnings; warnings.simplefilter('ignore')
import numpy as np; np.NaN = np.nan          # sandbox: numpy 2 has no np.NaN
import holopy as hp
from holopy.scattering import Sphere, calc_holo
from holopy.inference import prior, AlphaModel, NmpfitStrategy

det = hp.detector_grid((20, 22), (0.1, 0.12))
det = hp.core.update_metadata(det, medium_index=1.33, illum_wavelen=0.66,
                              illum_polarization=(1, 0), noise_sd=0.05)
data = calc_holo(det, Sphere(n=1.59, r=0.5, center=(1.0, 1.2, 10)), scaling=0.8)

def fit(offset):
    sph = Sphere(n=1.59, r=prior.Uniform(0.3, 0.8, guess=0.5 + offset),
                 center=[prior.Uniform(0, 2, guess=1.0), prior.Uniform(0, 2.5, guess=1.2),
                         prior.Uniform(5, 15, guess=10.)])
    model = AlphaModel(sph, alpha=prior.Uniform(0.5, 1, guess=0.8))
    return hp.fit(data, model, strategy=NmpfitStrategy())

near = fit(1e-6)
exact = fit(0.0)
for tag, res in (('guess 1e-6 off', near), ('exact guess', exact)):
    d = res.mpfit_details
    print("%-15s status %d  fnorm %.3g  perror %s" % (tag, d.status, d.fnorm,
          'None' if d.perror is None else np.round(d.perror, 4)))
    print("    uncertainties:", {iv.name: iv.plus for iv in res.intervals})

bad = (all(iv.plus == 0 for iv in exact.intervals)
       and all(iv.plus > 0 for iv in near.intervals))
if bad:
    print("VIOLATION: converged fit (status 4) reports zero uncertainty for every parameter")
sys.exit(1 if bad else 0)
