"""C13 / repro_5: UncertainValue._repr_latex_ (the Jupyter display hook of every
entry of FitResult.intervals) reads self.n_sigma, an attribute that the class
documents ("n_sigma: int") but that __init__ neither accepts nor sets.

Run from the checkout root:  /venv/bin/python /tmp/probe4_out/C13/repro_5.py
"""
import sys, os, types; sys.path.insert(0, os.getcwd())
import warnings; warnings.simplefilter('ignore')
try:
    import IPython.display                      # noqa
except ImportError:                             # sandbox: IPython is not installed
    ip = types.ModuleType('IPython'); disp = types.ModuleType('IPython.display')
    disp.Math = lambda s: s; ip.display = disp
    sys.modules['IPython'] = ip; sys.modules['IPython.display'] = disp
from holopy.inference.result import UncertainValue

value = UncertainValue(0.5, 0.01, name='r')
try:
    print("latex:", value._repr_latex_())
    bad = False
except AttributeError as e:
    print("AttributeError:", e)
    bad = True
if bad:
    print("VIOLATION: the display hook of a fitted value always raises")
sys.exit(1 if bad else 0)
