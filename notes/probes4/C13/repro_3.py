"""C13 / repro_3: LeastSquaresScipyStrategy copies ftol/xtol/gtol/max_nfev into a
private `_optimizer_kwargs` dictionary in __init__ and never looks at the public
attributes again.  Changing `strategy.max_nfev` (or a tolerance) after
construction is silently ignored by fit(), although repr(), ==, and the yaml
form all show the new value - and a yaml round trip (what hp.save stores with a
result) gives a strategy that compares equal but fits differently.
NmpfitStrategy reads its attributes at fit time.

Run from the checkout root:  /venv/bin/python /tmp/probe4_out/C13/repro_3.py
"""
import sys, os; sys.path.insert(0, os.getcwd())
import warnings; warnings.simplefilter('ignore')
import yaml
import numpy as np; np.NaN = np.nan          # sandbox: numpy 2 has no np.NaN
import holopy as hp
from holopy.core.holopy_object import FullLoader
from holopy.scattering import Sphere, calc_holo
from holopy.inference import prior, AlphaModel, NmpfitStrategy, LeastSquaresScipyStrategy

det = hp.detector_grid((20, 22), (0.1, 0.12))
det = hp.core.update_metadata(det, medium_index=1.33, illum_wavelen=0.66,
                              illum_polarization=(1, 0), noise_sd=0.05)
data = calc_holo(det, Sphere(n=1.59, r=0.5, center=(1.0, 1.2, 10)), scaling=0.8)
sph = Sphere(n=1.59, r=prior.Uniform(0.3, 0.8, guess=0.55),
             center=[prior.Uniform(0, 2, guess=1.05), prior.Uniform(0, 2.5, guess=1.15),
                     prior.Uniform(5, 15, guess=10.5)])
model = AlphaModel(sph, alpha=prior.Uniform(0.5, 1, guess=0.7))

strategy = LeastSquaresScipyStrategy()
strategy.max_nfev = 2
print("strategy says        :", strategy)
res = hp.fit(data, model, strategy=strategy)
print("function evaluations :", res.minimizer_info.nfev, "(max_nfev = 2 was requested)")

clone = yaml.load(yaml.dump(strategy), Loader=FullLoader)
res2 = hp.fit(data, model, strategy=clone)
print("yaml clone == strategy:", clone == strategy,
      "| clone's function evaluations:", res2.minimizer_info.nfev)
print("fitted r, original vs clone:", res.parameters['r'], res2.parameters['r'])

nmp = NmpfitStrategy(); nmp.maxiter = 2
print("NmpfitStrategy with maxiter changed to 2 -> niter =",
      hp.fit(data, model, strategy=nmp).mpfit_details.niter)

bad = res.minimizer_info.nfev > 2 and res2.minimizer_info.nfev <= 2
if bad:
    print("VIOLATION: option changed on the strategy is ignored; equal strategies fit differently")
sys.exit(1 if bad else 0)
