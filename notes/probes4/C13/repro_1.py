"""C13 / repro_1: LeastSquaresScipyStrategy reports parameter uncertainties that are
too small by a factor noise_sd (they are multiplied by the noise although the
Jacobian they come from already belongs to residuals divided by the noise).

Run from the checkout root:  /venv/bin/python /tmp/probe4_out/C13/repro_1.py
"""
import sys, os; sys.path.insert(0, os.getcwd())
import warnings; warnings.simplefilter('ignore')
import numpy as np; np.NaN = np.nan          # sandbox: numpy 2 has no np.NaN
import holopy as hp
from holopy.scattering import Sphere, calc_holo
from holopy.inference import prior, AlphaModel, NmpfitStrategy, LeastSquaresScipyStrategy

noise = 0.002
det = hp.detector_grid((20, 20), 0.1)
det = hp.core.update_metadata(det, medium_index=1.33, illum_wavelen=0.66,
                              illum_polarization=(1, 0), noise_sd=noise)
truth = dict(r=0.5, x=1.0, y=1.1, z=10.0, alpha=0.8)
clean = calc_holo(det, Sphere(n=1.59, r=0.5, center=(1.0, 1.1, 10.0)), scaling=0.8)
rng = np.random.default_rng(1)
data = clean + rng.normal(0, noise, clean.shape)
data.attrs = clean.attrs

sph = Sphere(n=1.59, r=prior.Uniform(0.3, 0.8, guess=0.5),
             center=[prior.Uniform(0, 2, guess=1.0), prior.Uniform(0, 2.5, guess=1.1),
                     prior.Uniform(5, 15, guess=10.)])
model = AlphaModel(sph, alpha=prior.Uniform(0.5, 1, guess=0.8))

r_nmp = hp.fit(data, model, strategy=NmpfitStrategy())
r_sci = hp.fit(data, model, strategy=LeastSquaresScipyStrategy())

# independent 1-sigma errors: covariance = inv(J^T J), J = d(model/noise)/d(parameter)
names = model._parameter_names
best = [r_sci.parameters[k] for k in names]
def fwd(p):
    return model.forward(p, data).values.ravel() / noise
J = []
for i, p in enumerate(best):
    h = 1e-6 * abs(p)
    up = list(best); up[i] = p + h
    dn = list(best); dn[i] = p - h
    J.append((fwd(up) - fwd(dn)) / (2 * h))
J = np.array(J).T
expected = np.sqrt(np.diag(np.linalg.inv(J.T @ J)))

print("best fit agrees between strategies:",
      max(abs(r_nmp.parameters[k] - r_sci.parameters[k]) for k in names))
print("%-10s %12s %12s %12s %10s" % ('parameter', 'expected', 'nmpfit', 'scipy', 'scipy/exp'))
ratios = []
for k, e, a, b in zip(names, expected, r_nmp.intervals, r_sci.intervals):
    ratios.append(b.plus / e)
    print("%-10s %12.4e %12.4e %12.4e %10.3e" % (k, e, a.plus, b.plus, b.plus / e))
print("noise_sd =", noise)
bad = all(abs(q / noise - 1) < 0.05 for q in ratios)
if bad:
    print("VIOLATION: scipy strategy's uncertainties = noise_sd x (correct 1-sigma uncertainties)")
sys.exit(1 if bad else 0)
