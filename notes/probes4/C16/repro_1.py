# update_metadata / calc_holo with a per-channel DICTIONARY crash on a multi-channel
# image that carries any scalar (0-d) coordinate, e.g. one z-slice picked with
# .isel(z=0) / .sel(z=...): dict_to_array sorts *every* coordinate with
# sorted(list(coord.values)), and list() of a 0-d array raises
# "TypeError: iteration over a 0-d array".
import sys, os; sys.path.insert(0, os.getcwd())
import warnings; warnings.simplefilter('ignore')
import numpy as np
import holopy as hp
from holopy.core.metadata import data_grid, update_metadata
print(hp.__file__)

chans = ['red', 'green']
wl = {'green': 0.5, 'red': 0.66}
stack = data_grid(np.zeros((3, 6, 7, 2)), spacing=0.1, z=[0., 1., 2.],
                  extra_dims={'illumination': chans})
full = update_metadata(stack, illum_wavelen=wl)          # works
print('full stack ok  :', full.illum_wavelen.values, list(full.illum_wavelen.illumination.values))

one = stack.sel(z=1.)            # dims (x, y, illumination); z is now a scalar coordinate
print('slice dims/coords:', one.dims, list(one.coords))
bad = False
try:
    out = update_metadata(one, illum_wavelen=wl)
    print('slice ok       :', out.illum_wavelen.values)
except Exception as e:
    bad = True
    print('slice FAILED   :', type(e).__name__, e)
# the same slice with the scalar coordinate dropped works, so the dictionary itself is fine
ok = update_metadata(stack.sel(z=1., drop=True), illum_wavelen=wl)
print('slice, z dropped:', ok.illum_wavelen.values)
sys.exit(1 if bad else 0)
