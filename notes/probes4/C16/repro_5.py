# load_image: negative channel numbers are labelled from the NAME list ['red','green','blue'],
# not from the image's channel count: channel -1 of an RGBA file is the alpha channel but is
# labelled 'blue' (for RGB files the two coincide by accident).
# Also load_image(channel='all') labels an RGBA image 0..3, and such an image cannot serve as
# refimg for load_average (KeyError: 0), although load_image/load_average share the convention.
import sys, os; sys.path.insert(0, os.getcwd())
import warnings; warnings.simplefilter('ignore')
import tempfile
import numpy as np
from PIL import Image
import holopy as hp
from holopy.core.io import load_image, load_average
print(hp.__file__)
d = tempfile.mkdtemp()
rgba = (np.random.default_rng(0).random((5, 7, 4)) * 255).astype('uint8')
p = os.path.join(d, 'rgba.png'); Image.fromarray(rgba).save(p)
im = load_image(p, spacing=0.1, channel=[-1, 0])
lab = list(im.illumination.values)
is_alpha = np.array_equal(im.values[0, :, :, 0], rgba[:, :, 3])
is_blue = np.array_equal(im.values[0, :, :, 0], rgba[:, :, 2])
print('channel=[-1, 0] labels', lab, '| first channel is alpha:', is_alpha, '| is blue:', is_blue)
ref = load_image(p, spacing=0.1, channel='all')
print("channel='all' labels", list(ref.illumination.values))
try:
    load_average([p, p], refimg=ref); err = None
except Exception as e:
    err = e; print('load_average(refimg=that image):', type(e).__name__, e)
sys.exit(1 if (lab[0] == 'blue' and is_alpha) else 0)
