# A fit result saved with hp.save and reloaded with hp.load returns the fitted IMAGE
# (result.data) and the best-fit hologram under the name 'data' instead of the name the
# image had: FitResult._serialize_as_dataset stores the image as the Dataset variable
# 'data' (so pack_attrs records name='data') and _unserialize never restores the name.
# Values, coordinates and the other metadata do survive.
import sys, os; sys.path.insert(0, os.getcwd())
import warnings; warnings.simplefilter('ignore')
import tempfile
import numpy as np; np.NaN = np.nan          # sandbox: nmpfit needs np.NaN
import holopy as hp
from holopy.core.metadata import data_grid
from holopy.scattering import calc_holo, Sphere
from holopy.inference import prior, AlphaModel, NmpfitStrategy
print(hp.__file__)
d = tempfile.mkdtemp()
det = data_grid(np.zeros((12, 12)), spacing=0.1, medium_index=1.33, illum_wavelen=0.66,
                illum_polarization=(1, 0), noise_sd=0.05, name='myholo')
holo = calc_holo(det, Sphere(n=1.59, r=0.5, center=(0.6, 0.6, 5)))
ps = Sphere(n=1.59, r=0.5, center=(0.6, 0.6, prior.Uniform(3, 7, guess=5.1)))
res = NmpfitStrategy().fit(AlphaModel(ps, alpha=prior.Uniform(0.5, 1.2, guess=0.9)), holo)

# the plain image keeps its name in HoloPy's HDF5 format ...
hp.save(os.path.join(d, 'im.h5'), holo)
print('image      :', repr(holo.name), '->', repr(hp.load(os.path.join(d, 'im.h5')).name))
# ... the same image inside a saved fit result does not
hp.save(os.path.join(d, 'res.h5'), res)
back = hp.load(os.path.join(d, 'res.h5'))
print('result.data:', repr(res.data.name), '->', repr(back.data.name))
print('result.hologram:', repr(res.hologram.name), '->', repr(back.hologram.name))
print('values/coords kept:', bool(np.array_equal(res.data.values, back.data.values)),
      all(np.array_equal(res.data[c].values, back.data[c].values) for c in res.data.coords))
sys.exit(1 if back.data.name != res.data.name else 0)
