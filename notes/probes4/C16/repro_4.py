# TIFF export/import keeps only the pixel SPACING of the coordinate axes:
#  (a) a cropped / shifted image (hp.core.process.subimage) comes back with x and y starting at 0,
#  (b) the z position of the plane comes back as 0,
#  (c) an illumination axis of length 1 is dropped altogether (while the labelled
#      per-channel metadata that refers to it is kept).
# The HDF5 path keeps all of these.
import sys, os; sys.path.insert(0, os.getcwd())
import warnings; warnings.simplefilter('ignore')
import tempfile
import numpy as np
import holopy as hp
from holopy.core.metadata import data_grid
from holopy.core.process import subimage
print(hp.__file__)
d = tempfile.mkdtemp()
rng = np.random.default_rng(0)
base = data_grid(rng.random((8, 10)), spacing=(0.1, 0.25), medium_index=1.33,
                 illum_wavelen=0.66, illum_polarization=(1, 0), noise_sd=0.05, name='foo')
bad = False
crop = subimage(base, [4, 5], [4, 6])
for ext in ['.h5', '.tif']:
    p = os.path.join(d, 'crop' + ext); hp.save(p, crop); b = hp.load(p)
    same = np.allclose(b.x, crop.x) and np.allclose(b.y, crop.y)
    print('(a) crop', ext, 'x', crop.x.values[[0, -1]], '->', b.x.values[[0, -1]], ' y', crop.y.values[[0, -1]], '->', b.y.values[[0, -1]], 'kept:', same)
    bad |= not same
zim = base.assign_coords(z=[5.0])
for ext in ['.h5', '.tif']:
    p = os.path.join(d, 'z' + ext); hp.save(p, zim); b = hp.load(p)
    same = np.allclose(b.z, zim.z)
    print('(b) z   ', ext, zim.z.values, '->', b.z.values, 'kept:', same)
    bad |= not same
one = data_grid(rng.random((8, 10, 1)), spacing=0.1, illum_wavelen={'red': 0.66}, name='one',
                extra_dims={'illumination': ['red']})
for ext in ['.h5', '.tif']:
    p = os.path.join(d, 'one' + ext); hp.save(p, one); b = hp.load(p)
    same = b.dims == one.dims
    print('(c) 1-ch', ext, one.dims, '->', b.dims, '| illum_wavelen dims', b.illum_wavelen.dims, 'kept:', same)
    bad |= not same
sys.exit(1 if bad else 0)
