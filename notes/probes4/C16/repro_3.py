# hp.save(<name with an image extension other than .tif/.tiff>, image) silently writes an
# HDF5 file under that name, although the docstring of save() says: "Will save objects as
# yaml text ... unless outf is a filename with an image extension, in which case it will
# save an image".  hp.save_image() with the same name does write a PNG/JPEG/BMP.
import sys, os; sys.path.insert(0, os.getcwd())
import warnings; warnings.simplefilter('ignore')
import tempfile
import numpy as np
import holopy as hp
from holopy.core.metadata import data_grid
print(hp.__file__)
d = tempfile.mkdtemp()
im = data_grid(np.random.default_rng(0).random((6, 8)), spacing=(0.1, 0.3), medium_index=1.33, name='a')
bad = False
for ext, magic in [('.png', b'\x89PNG'), ('.jpg', b'\xff\xd8'), ('.bmp', b'BM'), ('.Tif', b'II*')]:
    p = os.path.join(d, 'holo' + ext)
    hp.save(p, im)
    head = open(p, 'rb').read(8)
    p2 = os.path.join(d, 'holo2' + ext)
    hp.save_image(p2, im)
    head2 = open(p2, 'rb').read(8)
    isimg = head.startswith(magic)
    print(ext, 'hp.save wrote', head, '| hp.save_image wrote', head2, '| image file:', isimg)
    if not isimg:
        bad = True
        try:
            hp.load_image(p, spacing=0.1)
        except Exception as e:
            print('    load_image on it:', type(e).__name__, str(e)[:80])
sys.exit(1 if bad else 0)
