"""repro_1: Tmatrix hands Euler angles / detector angles to the compiled code
without bringing them into the range the Fortran accepts (alpha, phi in
[0, 360], beta, theta in [0, 180] degrees).  Outside that range Mishchenko's
AMPL executes a bare `STOP`, which terminates the whole Python interpreter:
no exception, no message, exit status 0.  Equivalent angles inside the range
(gamma = 2*pi - 0.3 instead of -0.3) work.

Run from the checkout root:  /venv/bin/python /tmp/probe4_out/C04/repro_1.py
exit 1 = violation present.
"""
import sys, os
sys.path.insert(0, os.getcwd())
import subprocess

CHILD = r'''
import sys, os; sys.path.insert(0, os.getcwd())
import warnings; warnings.filterwarnings('ignore')
import numpy as np
import holopy as hp
from holopy.scattering import Spheroid, Cylinder, Tmatrix, calc_holo, calc_scat_matrix
case = sys.argv[1]
det = hp.detector_grid(shape=(4, 5), spacing=(0.3, 0.23))
kw = dict(medium_index=1.33, illum_wavelen=0.66, illum_polarization=(1, 0))
def spd(rot):
    return Spheroid(n=1.59, r=(0.3, 0.5), rotation=rot, center=(0.5, 0.4, 7))
if case == 'ref':        # gamma = 2 pi - 0.3 : the same orientation as -0.3
    r = calc_holo(det, spd((0, 0.5, 2 * np.pi - 0.3)), **kw).values
elif case == 'neg_gamma':
    r = calc_holo(det, spd((0, 0.5, -0.3)), **kw).values
elif case == 'neg_beta':
    r = calc_holo(det, spd((0, -0.5, 0)), **kw).values
elif case == 'neg_phi':  # a far-field detector at azimuth -0.5 rad
    pts = hp.detector_points(theta=np.array([0.1, 0.5]), phi=np.array([0.3, -0.5]))
    r = calc_scat_matrix(pts, spd((0, 0.5, 0.3)), medium_index=1.33,
                         illum_wavelen=0.66, theory=Tmatrix()).values
elif case == 'fit':      # default model: unbounded priors on the Euler angles
    np.NaN = np.nan      # (sandbox numpy 2.x, needed by nmpfit)
    big = hp.detector_grid(shape=(20, 20), spacing=0.15)
    true = Spheroid(n=1.59, r=(0.3, 0.5), rotation=(0, 0.0, 0.3), center=(1.5, 1.4, 8))
    data = calc_holo(big, true, **kw)
    data.attrs['noise_sd'] = 0.01
    guess = Spheroid(n=1.59, r=(0.3, 0.5), rotation=(0, 0.05, 0.3), center=(1.5, 1.4, 8))
    res = hp.fit(data, guess, parameters=['rotation'])
    r = np.array(list(res.parameters.values()))
print('DONE', case, np.abs(r).ravel()[:2], flush=True)
'''

bad = 0
for case in ['ref', 'neg_gamma', 'neg_beta', 'neg_phi', 'fit']:
    p = subprocess.run([sys.executable, '-c', CHILD, case], cwd=os.getcwd(),
                       capture_output=True, text=True)
    finished = 'DONE' in p.stdout
    print('%-10s returncode=%s finished=%s stdout=%r stderr_tail=%r' % (
        case, p.returncode, finished, p.stdout.strip()[-70:],
        p.stderr.strip()[-120:]))
    if case == 'ref' and not finished:
        print('reference case did not run: environment problem')
        sys.exit(2)
    if case != 'ref' and not finished and 'Error' not in p.stderr:
        bad += 1

if bad:
    print('VIOLATION: %d legitimate angle inputs killed the interpreter '
          'silently (Fortran STOP, no Python exception)' % bad)
    sys.exit(1)
print('no violation')
sys.exit(0)
