"""repro_2: calc_scat_matrix on a Cartesian detector_points() detector returns
a result without the x, y, z coordinates of the points (only the derived
r, theta, phi survive), while calc_field / calc_holo / calc_intensity on the
same detector keep them (ImageFormation._pack_field_into_xarray was repaired
to keep the per-point coordinates, its twin
ImageFormation._pack_scattering_matrix_into_xarray was not).

Run from the checkout root:  /venv/bin/python /tmp/probe4_out/C04/repro_2.py
exit 1 = violation present.
"""
import sys, os
sys.path.insert(0, os.getcwd())
import warnings
warnings.filterwarnings('ignore')
import numpy as np
import holopy as hp
from holopy.scattering import Sphere, calc_field, calc_scat_matrix

print('holopy from', hp.__file__)
sph = Sphere(n=1.59, r=0.5, center=(0.3, 0.2, 5))
pts = hp.detector_points(x=np.array([0.1, 0.5, -2.]),
                         y=np.array([0.3, -0.5, 1.]),
                         z=np.array([0., 0.1, -0.3]))
fld = calc_field(pts, sph, medium_index=1.33, illum_wavelen=0.66,
                 illum_polarization=(1, 0))
smat = calc_scat_matrix(pts, sph, medium_index=1.33, illum_wavelen=0.66)
print('detector coords      :', sorted(pts.coords))
print('calc_field coords    :', sorted(fld.coords))
print('calc_scat_matrix coords:', sorted(smat.coords))

field_keeps = all(k in fld.coords and np.array_equal(fld[k].values, pts[k].values)
                  for k in 'xyz')
smat_keeps = all(k in smat.coords for k in 'xyz')

# for comparison: a grid detector keeps x, y, z in both
grid = hp.detector_grid(shape=(3, 2), spacing=0.1)
sg = calc_scat_matrix(grid, sph, medium_index=1.33, illum_wavelen=0.66)
print('grid: calc_scat_matrix coords:', sorted(sg.coords))

if field_keeps and not smat_keeps:
    print('VIOLATION: the scattering matrices of a Cartesian point detector '
          'no longer say at which (x, y, z) they were computed')
    sys.exit(1)
print('no violation')
sys.exit(0)
