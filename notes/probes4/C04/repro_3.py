"""repro_3: MieLens.raw_fields (and AberratedMieLens.raw_fields) rotate the
azimuths of the caller's `positions` array IN PLACE by the polarisation angle
(`phi -= pol_angle; phi %= 2 pi` act on a row view of the argument).  Calling
the public method twice with the same array therefore gives two different
fields for any polarisation that is not along x; Lens(Mie).raw_fields, which
computes the same quantity, leaves its argument alone and is repeatable.

Run from the checkout root:  /venv/bin/python /tmp/probe4_out/C04/repro_3.py
exit 1 = violation present.
"""
import sys, os
sys.path.insert(0, os.getcwd())
import warnings
warnings.filterwarnings('ignore')
import numpy as np
import holopy as hp
from holopy.core.metadata import to_vector
from holopy.scattering import Sphere, Mie, MieLens
from holopy.scattering.theory import Lens, AberratedMieLens

print('holopy from', hp.__file__)
acc = {'interpolate_integrals': False}   # sandbox numpy 2.x has no ndarray.ptp
sph = Sphere(n=1.59, r=0.5, center=(0, 0, 0))
n_med = 1.33
k = 2 * np.pi * n_med / 0.66
# (k rho, phi, k z) of three detector points, as ImageFormation hands them over
pos0 = np.array([[1.0, 3.0, 7.0], [0.3, 2.0, 5.0], [10., 10., 10.]])
pol = to_vector((0.6, 0.8))

bad = 0
for theory in [MieLens(0.8, acc), AberratedMieLens(0.3, 0.8, acc),
               Lens(0.8, Mie(), 50, 50)]:
    pos = pos0.copy()
    first = theory.raw_fields(pos, sph, k, n_med, pol)
    modified = not np.array_equal(pos, pos0)
    second = theory.raw_fields(pos, sph, k, n_med, pol)
    diff = np.abs(second - first).max() / np.abs(first).max()
    print('%-17s argument modified: %-5s  phi after call: %s  '
          'second call differs by %.3g' % (
              type(theory).__name__, modified, np.round(pos[1], 4), diff))
    if modified or diff > 1e-12:
        bad += 1

if bad:
    print('VIOLATION: %d theories changed the positions they were given; a '
          'repeated call returns another field' % bad)
    sys.exit(1)
print('no violation')
sys.exit(0)
