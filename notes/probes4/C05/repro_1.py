"""C05 / propagation: a hologram that is mirror-symmetric about both in-plane
axes (sphere at the centre of the detector, x-polarised light) is reconstructed
by hp.propagate into a field that is NOT mirror-symmetric when the number of
pixels is even; with an odd number of pixels the symmetry is exact.

Root cause: holopy/core/process/fourier.py ft_coord() labels the fftshift-ed
spectrum with np.linspace(-1/(2 dx), +1/(2 dx), N) instead of the true DFT
frequencies fftshift(fftfreq(N, dx)); the transfer function of
holopy/propagation/convolution_propagation.py trans_func() is evaluated on
those labels.  For even N the label of the DC bin is +0.5/((N-1) dx), not 0,
so G is not even in the true frequency and acts like a tilted kernel.
"""
import sys, os; sys.path.insert(0, os.getcwd())
import warnings; warnings.filterwarnings('ignore')
import numpy as np
import xarray as xr
# sandbox work-around allowed by the task: Dataset.update returns None here
_u = xr.Dataset.update
def _upd(self, *a, **k):
    _u(self, *a, **k)
    return self
xr.Dataset.update = _upd
import holopy as hp
from holopy.scattering import calc_holo, Sphere
from holopy.core.process import fourier
import holopy.propagation.convolution_propagation as cp

print('holopy from', hp.__file__)
wl, nm, sp, d = 0.66, 1.33, 0.1, 8.0

def asym(N):
    det = hp.detector_grid(N, sp)
    c = float(det.x.mean())
    holo = calc_holo(det, Sphere(n=1.59, r=0.5, center=(c, c, d)), nm, wl, (1, 0))
    hv = holo.values.squeeze()
    hsym = max(np.abs(hv - hv[::-1]).max(), np.abs(hv - hv[:, ::-1]).max())
    rec = hp.propagate(holo, d)
    v = np.abs(rec.values.squeeze())
    rsym = max(np.abs(v - v[::-1]).max(), np.abs(v - v[:, ::-1]).max()) / v.max()
    w = (v - np.median(v)) ** 2
    cx = float((w.sum(1) * det.x.values).sum() / w.sum())
    return hsym, rsym, cx - c

bad = False
for N in (64, 65):
    hsym, rsym, shift = asym(N)
    print('N=%d: hologram asymmetry %.1e, |reconstruction| asymmetry %.1e, '
          'centroid offset from the sphere %.3f (pixel %.2f)' % (N, hsym, rsym, shift, sp))
    if hsym < 1e-9 and rsym > 1e-6:
        bad = True

# the same call with the true DFT frequencies is symmetric
good = lambda c: np.fft.fftshift(np.fft.fftfreq(len(c), fourier.get_spacing(c)))
old = (fourier.ft_coord, cp.ft_coord)
fourier.ft_coord = cp.ft_coord = good
hsym, rsym, shift = asym(64)
fourier.ft_coord, cp.ft_coord = old
print('N=64 with fftshift(fftfreq(N, dx)) in place of ft_coord: asymmetry %.1e, '
      'centroid offset %.3f' % (rsym, shift))
print('VIOLATION' if bad else 'ok')
sys.exit(1 if bad else 0)
