"""C05 (incidental, image cropping = whole-pixel shift of the detector):
holopy.core.process.subimage

(a) pairs the elements of `center` / `shape` with the array's axes by position
    (zip(center, shape)) but then applies extent[0] to 'x' and extent[1] to 'y'
    whatever the axis order.  Every image HoloPy loads is (z, x, y), and the
    docstring asks for a centre with "the same number of elements as the arr
    has dimensions": subimage(img, (0, 20, 15), 10) therefore crops x around
    the z entry (0) and y around the x entry (20).
(b) does not check the window against the image: a window that starts left of
    pixel 0 becomes slice(-2, 8), i.e. an empty selection, returned silently.
"""
import sys, os; sys.path.insert(0, os.getcwd())
import warnings; warnings.filterwarnings('ignore')
import numpy as np
import holopy as hp
from holopy.core.process import subimage
print('holopy from', hp.__file__)

img = hp.detector_grid((40, 30), (0.1, 0.12))      # dims (z, x, y) like a loaded image
img.values[:] = np.arange(40 * 30).reshape(1, 40, 30)
want = img.isel(x=slice(15, 25), y=slice(10, 20))

two = subimage(img, (20, 15), 10)
three = subimage(img, (0, 20, 15), 10)
edge = subimage(img, (3, 15), 10)
print('dims', img.dims)
print('centre (20, 15)    -> shape', two.shape, 'equals the expected crop:', two.equals(want) or np.array_equal(two.values, want.values))
print('centre (0, 20, 15) -> shape', three.shape, ' x:', three.x.values, ' y range:', three.y.values[[0, -1]] if three.y.size else None)
print('centre (3, 15), window leaves the image -> shape', edge.shape, '(no error)')
bad = (three.shape != want.shape or not np.array_equal(three.values, want.values)) or edge.size == 0
print('VIOLATION' if bad else 'ok')
sys.exit(1 if bad else 0)
