"""C05 / MieLens.raw_fields shifts the caller's azimuths in place.

MieLens.raw_fields(positions, ...) unpacks `rho, phi, z = positions` and then
does `phi -= pol_angle; phi %= 2*pi` (holopy/scattering/theory/mielens.py,
lines 89-93).  `phi` is a view of row 1 of the caller's array, so after the call
the caller's detector azimuths have been rotated by minus the polarisation
angle.  Calling the theory again with the same array (what any wrapper theory or
user code that evaluates several scatterers / polarisations on one set of
points does) silently returns the field for a detector rotated by -pol_angle,
-2*pol_angle, ...  Lens.raw_fields and Mie.raw_fields leave the array alone.
"""
import sys, os; sys.path.insert(0, os.getcwd())
import warnings; warnings.filterwarnings('ignore')
import numpy as np
import holopy as hp
from holopy.core.metadata import to_vector
from holopy.scattering import Sphere, MieLens, Mie
from holopy.scattering.theory import Lens
print('holopy from', hp.__file__)

k = 2 * np.pi * 1.33 / 0.66
sph = Sphere(n=1.59, r=0.5, center=(0, 0, 5.))
pol = to_vector((np.cos(0.6), np.sin(0.6)))          # oblique polarisation
rng = np.random.default_rng(0)
krho = k * rng.uniform(0.2, 3, 6)
phi = rng.uniform(0, 2 * np.pi, 6)
kz = np.full(6, k * 5.)

bad = False
for theory in (MieLens(0.8, {'interpolate_integrals': False}), Lens(0.8, Mie(), 40, 60)):
    positions = np.array([krho, phi, kz])
    before = positions.copy()
    f1 = theory.raw_fields(positions, sph, k, 1.33, pol)
    changed = np.abs(positions - before).max()
    f2 = theory.raw_fields(positions, sph, k, 1.33, pol)
    diff = np.abs(f1 - f2).max() / np.abs(f1).max()
    print('%-8s caller\'s positions changed by %.3g (azimuth row: %s); '
          'second identical call differs by %.2e'
          % (type(theory).__name__, changed,
             np.array2string((positions[1] - before[1]), precision=3), diff))
    if changed > 0 or diff > 1e-9:
        bad = True
print('VIOLATION' if bad else 'ok')
sys.exit(1 if bad else 0)
