import sys, os; sys.path.insert(0, os.getcwd())
import numpy as np, warnings
warnings.simplefilter('ignore')
import holopy as hp
from holopy.scattering import Spheroid, calc_field, calc_holo
from holopy.scattering.theory import Tmatrix, Lens
from holopy.core.metadata import detector_points
a=np.deg2rad(35.)
def pts(a):
    x0=np.array([1.0,2.5,-1.5,0.3]); y0=np.array([0.5,-1.0,2.0,-2.2])
    x=5+x0*np.cos(a)-y0*np.sin(a); y=5+x0*np.sin(a)+y0*np.cos(a)
    return detector_points(x=x,y=y,z=0.)
def run(theory,a):
    # particle axis tilted by beta=0.6 from z, azimuth alpha
    s=Spheroid(n=1.5,r=(0.4,0.7),rotation=(0.,0.6,0.3+a),center=(5,5,6))
    pol=(np.cos(a),np.sin(a))
    return calc_holo(pts(a),s,medium_index=1.33,illum_wavelen=0.66,illum_polarization=pol,theory=theory).values.ravel()
for name,th in (('Lens(Tmatrix)',Lens(0.8,Tmatrix())),):
    h0=run(th,0.); h1=run(th,a)
    print(name,'max |h(rot)-h| =',np.abs(h1-h0).max(),' values',np.round(h0,4),np.round(h1,4))
