"""C07 repro 4: bg_correct says it pairs the images pixel by pixel so that a
cropped hologram can be divided by a background of the same shape and pixel
size, but it compares the pixel sizes with exact floating point equality.
The spacing of a crop, np.diff(x)[0] = (i+1)*dx - i*dx, differs from dx in the
last bit for almost every dx that is not a power of two, so the crop is
refused with 'must have the same shape and spacing'.
Run from the checkout root."""
import sys, os; sys.path.insert(0, os.getcwd())
import warnings; warnings.simplefilter('ignore')
import numpy as np
import holopy as hp
from holopy.core.metadata import data_grid, get_spacing
from holopy.core.process import bg_correct, subimage
from holopy.core.errors import BadImage

print('holopy from', hp.__file__)
rng = np.random.default_rng(0)
refused = 0; tried = 0
for dx in (0.1, 0.0851, 0.3, 0.25):
    big = data_grid(rng.random((40, 40)) + 0.5, spacing=dx)
    bg = data_grid(rng.random((10, 10)) + 0.5, spacing=dx)   # same shape, same pixel size
    for centre in ((7, 9), (20, 20), (31, 12)):
        crop = subimage(big, centre, 10)
        tried += 1
        try:
            out = bg_correct(crop, bg)
            ok = np.allclose(out.values, crop.values / bg.values)
            print('dx=%-6g crop at %-8s accepted, quotient right: %s' % (dx, centre, ok))
        except BadImage as e:
            refused += 1
            print('dx=%-6g crop at %-8s REFUSED: %s   (spacings %r vs %r)' % (
                dx, centre, e, list(get_spacing(crop)), list(get_spacing(bg))))
print('%d of %d crops refused' % (refused, tried))
if refused:
    print('VIOLATION: equal pixel sizes compared with ==')
    sys.exit(1)
print('ok'); sys.exit(0)
