"""C07 side finding (outside the anchored modules; met while feeding cropped
images to propagation): holopy.core.process.fourier.ft_coord labels the
fft-shifted frequency axis with np.linspace(-1/(2 dx), 1/(2 dx), N), i.e. with
both end points, whereas bin j of an N point transform is the frequency
(j - N//2) / (N dx).  hp.propagate evaluates its transfer function on these
labels, so every Fourier component is advanced with the phase of a different
frequency.  A uniform image (only the zero-frequency bin) must come back
unchanged except for the plane-wave phase exp(-2 pi i d / lambda); with an even
N it is given the phase of the frequency 1 / (2 dx (N-1)) instead, and the
error depends on the size of the image, so a crop does not propagate like the
image it was cut from even for a uniform field.
Run from the checkout root."""
import sys, os; sys.path.insert(0, os.getcwd())
import warnings; warnings.simplefilter('ignore')
import numpy as np, xarray as xr
_update = xr.Dataset.update                     # sandbox: newer xarray returns None
def update(self, *a, **k):
    r = _update(self, *a, **k)
    return self if r is None else r
xr.Dataset.update = update
import holopy as hp
from holopy.core.metadata import data_grid
from holopy.core.process.fourier import ft_coord

print('holopy from', hp.__file__)
dx, lam, d = 0.1, 0.5, 7.0
print('ft_coord for N=8      :', ft_coord(np.arange(8) * dx).round(3))
print('fft bins for N=8      :', np.fft.fftshift(np.fft.fftfreq(8, dx)).round(3))
bad = False
for N in (16, 17, 64, 256):
    x = np.arange(N) * dx
    for jbin in (0, 2):
        fx = jbin / (N * dx)                     # exactly on a bin: one Fourier component
        field = np.exp(2j * np.pi * fx * x)[:, None] * np.ones((1, N))
        img = data_grid(field, spacing=dx, medium_index=1.0, illum_wavelen=lam)
        out = hp.propagate(img, d).values.squeeze()
        ratio = out / field                      # must be one number of modulus 1
        expected = np.exp(-2j * np.pi * d / lam * np.sqrt(1 - (lam * fx)**2))
        err = np.angle(ratio[0, 0] / expected)
        print('N=%3d bin %d: spread %.1e, phase error of the component %+.4f rad'
              % (N, jbin, np.abs(ratio - ratio[0, 0]).max(), err))
        if abs(err) > 1e-6:
            bad = True
if bad:
    print('VIOLATION: transfer function evaluated at the wrong frequencies')
    sys.exit(1)
print('ok'); sys.exit(0)
