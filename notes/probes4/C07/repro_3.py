"""C07 repro 3: holopy.core.process.subimage returns the wrong pixels, silently,
(a) when centre / shape have one entry per dimension of the image, which is
    what the docstring asks for ("should have the same number of elements as
    the arr has dimensions") and what the assertion len(shape) in (2, arr.ndim)
    accepts: the entries are paired with (x, y) by position, so the entry meant
    for z is used for x;
(b) when the requested region sticks out of the image on the low side: the
    negative start of the slice counts from the far end, and the result is an
    empty image or a strip from the wrong place (no error).
Run from the checkout root."""
import sys, os; sys.path.insert(0, os.getcwd())
import warnings; warnings.simplefilter('ignore')
import numpy as np
import holopy as hp
from holopy.core.metadata import data_grid
from holopy.core.process import subimage

print('holopy from', hp.__file__)
img = data_grid(np.arange(100 * 80, dtype=float).reshape(100, 80), spacing=0.1)
print('image dims', img.dims, img.shape)
bad = False
good = subimage(img, (50, 40), 20)
print('2-element centre, int shape      ->', good.shape,
      'x from', good.x.values[0].round(2), 'y from', good.y.values[0].round(2))
a = subimage(img, (0, 50, 40), 20)            # one entry per dimension (z, x, y)
print('centre (z, x, y) = (0, 50, 40)     ->', a.shape)
b = subimage(img, (50, 40), (1, 20, 30))      # shape with one entry per dimension
print('shape (z, x, y) = (1, 20, 30)      ->', b.shape, '(wanted (1, 20, 30))')
if a.shape != (1, 20, 20) or b.shape != (1, 20, 30):
    bad = True
c = subimage(img, (5, 40), 20)                # region x = -5 .. 15
print('centre 5, shape 20 (over the edge) ->', c.shape)
small = data_grid(np.arange(12 * 12, dtype=float).reshape(12, 12), spacing=0.1)
d = subimage(small, (4, 6), (20, 4))          # x = -6 .. 14 of a 12 pixel axis
print('12 px axis, centre 4, shape 20     ->', d.shape, 'rows', (d.x.values / 0.1).round().astype(int))
if c.size == 0 or (d.shape[1] not in (0, 12)):
    bad = True
if bad:
    print('VIOLATION: subimage silently returns an empty / misplaced region')
    sys.exit(1)
print('ok'); sys.exit(0)
