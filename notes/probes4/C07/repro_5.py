"""C07 repro 5: make_subset_data on flat data that carry no record of the axes
(flat(image), which is what LeastSquaresScipyStrategy fits and stores, or any
stacked array whose attrs were dropped on the way) records
original_dims = {'flat': [(x, y, z), ...]} - the pixels it was given, not the
axes of the image - although the x, y, z levels are there to be read.
FitResult.forward then fails on the missing 'x'.
Run from the checkout root."""
import sys, os; sys.path.insert(0, os.getcwd())
import warnings; warnings.simplefilter('ignore')
import numpy as np
import holopy as hp
from holopy.core.metadata import data_grid, flat, make_subset_data
from holopy.scattering import Sphere
from holopy.inference import AlphaModel, NmpfitStrategy, prior
from holopy.inference.result import FitResult, UncertainValue

print('holopy from', hp.__file__)
img = data_grid(np.random.rand(6, 4), spacing=0.1, medium_index=1.33,
                illum_wavelen=0.66, illum_polarization=(1, 0), noise_sd=0.1)
ref = make_subset_data(img, 5, seed=0)
print('subset of the image       : original_dims keys', list(ref.original_dims))
fl = flat(img)
sub = make_subset_data(fl, 5, seed=0)
print('subset of flat(image)     : original_dims keys', list(sub.original_dims))
bad = list(sub.original_dims) != list(ref.original_dims)
model = AlphaModel(Sphere(n=1.59, r=prior.Uniform(0.3, 0.7), center=(0.2, 0.2, 5)),
                   alpha=1, medium_index=1.33, illum_wavelen=0.66,
                   illum_polarization=(1, 0), noise_sd=0.1)
res = FitResult(sub, model, NmpfitStrategy(), 0, {'intervals': [UncertainValue(0.5, 0.1, name='r')]})
try:
    h = res.hologram
    print('FitResult.hologram', h.shape)
except Exception as e:
    print('FitResult.hologram fails:', type(e).__name__, e)
    bad = True
if bad:
    print("VIOLATION: the subset does not remember the image's axes")
    sys.exit(1)
print('ok'); sys.exit(0)
