"""C07 repro 1: a hologram computed on a detector that is not at z = 0 uses a
reference wave without the phase the incident wave has at that height.

Moving the whole set-up (particle and detector plane) along the optical axis
changes the hologram, although every relative position is unchanged; the
scattered intensity (no reference wave) is unchanged as it should be.
Run from the checkout root."""
import sys, os; sys.path.insert(0, os.getcwd())
import warnings; warnings.simplefilter('ignore')
import numpy as np
import holopy as hp
from holopy.scattering import Sphere, calc_holo, calc_field, calc_intensity, Mie
from holopy.core.metadata import detector_grid, detector_points

print('holopy from', hp.__file__)
n_med, wl, pol = 1.33, 0.66, (1, 0)
k = 2 * np.pi * n_med / wl
bad = False
for zd in (0.1, -1.0, 2.5):
    # (a) detector plane at height zd, particle at 7
    det_a = detector_grid((8, 8), 0.3).assign_coords(z=[zd])
    sph_a = Sphere(n=1.59, r=0.5, center=(1.2, 1.2, 7.0))
    # (b) the same set-up described with the detector plane at 0
    det_b = detector_grid((8, 8), 0.3)
    sph_b = Sphere(n=1.59, r=0.5, center=(1.2, 1.2, 7.0 - zd))
    ha = calc_holo(det_a, sph_a, n_med, wl, pol, theory=Mie())
    hb = calc_holo(det_b, sph_b, n_med, wl, pol, theory=Mie())
    ia = calc_intensity(det_a, sph_a, n_med, wl, pol, theory=Mie())
    ib = calc_intensity(det_b, sph_b, n_med, wl, pol, theory=Mie())
    dh = float(np.abs(ha.values - hb.values).max())
    di = float(np.abs(ia.values - ib.values).max())
    # what the hologram at height zd should be: the reference (incident) wave
    # has the phase exp(-1j k zd) there, in the convention of
    # ImageFormation._get_field_from (phase = exp(-1j k z_particle))
    ea = calc_field(det_a, sph_a, n_med, wl, pol, theory=Mie())
    ref = np.array([1, 0, 0]) * np.exp(-1j * k * zd)
    tot = ea.transpose('x', 'y', 'z', 'vector').values + ref
    fixed = (np.abs(tot[..., :2])**2).sum(-1)
    df = float(np.abs(fixed - hb.values).max())
    print('detector z = %5.2f: |holo(a) - holo(b)| = %.3g (fringe contrast %.3g),'
          ' |intensity(a) - intensity(b)| = %.1e, with reference phase: %.1e'
          % (zd, dh, float(hb.max() - hb.min()), di, df))
    if dh > 1e-6 and di < 1e-9:
        bad = True
# the documented point detector with z = -1 (tutorial) shows the same
pts = detector_points(x=[0, 1, 0, 1, 2], y=[0, 0, 1, 1, 1], z=-1)
p0 = detector_points(x=[0, 1, 0, 1, 2], y=[0, 0, 1, 1, 1], z=0)
a = calc_holo(pts, Sphere(n=1.59, r=0.5, center=(0.5, 0.5, 5)), n_med, wl, pol)
b = calc_holo(p0, Sphere(n=1.59, r=0.5, center=(0.5, 0.5, 6)), n_med, wl, pol)
print('tutorial points z=-1 :', a.values.round(4), 'same set-up, z=0 :', b.values.round(4))
if bad:
    print('VIOLATION: hologram depends on where z = 0 is put')
    sys.exit(1)
print('ok')
sys.exit(0)
