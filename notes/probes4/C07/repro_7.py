"""Side observation met while following make_subset_data into the samplers (not
a clause of C07): EmceeStrategy.sample() stores the initial walker positions
it draws for the model in self.walker_initial_pos, so the strategy object
carries them into the next call: a second sample() with the same strategy on
another model / other data starts from the positions drawn for the first
model (or fails on their shape).  The assignment happens before emcee is
needed, so it can be seen without emcee installed.
Run from the checkout root."""
import sys, os; sys.path.insert(0, os.getcwd())
import warnings; warnings.simplefilter('ignore')
import numpy as np
import holopy as hp
from holopy.scattering import Sphere
from holopy.core.metadata import detector_grid, update_metadata
from holopy.inference import prior, AlphaModel, EmceeStrategy

print('holopy from', hp.__file__)
det = update_metadata(detector_grid(6, 0.2), 1.33, 0.66, (1, 0), 0.1)
m1 = AlphaModel(Sphere(n=1.5, r=prior.Uniform(0.3, 0.6),
                       center=(0.5, 0.5, prior.Uniform(3, 6))), alpha=1)
m2 = AlphaModel(Sphere(n=prior.Uniform(1.4, 1.6), r=prior.Uniform(1.0, 2.0),
                       center=(0.5, 0.5, prior.Uniform(10, 20))),
                alpha=prior.Uniform(0.5, 1))
st = EmceeStrategy(nwalkers=6, nsamples=3, npixels=10, parallel=None, seed=1)
print('before:', st.walker_initial_pos)
for m in (m1, m2):
    try:
        st.sample(m, det)
    except Exception as e:          # emcee missing in the sandbox / shape error with emcee
        print('sample ->', type(e).__name__)
    print('walker_initial_pos now has shape', np.shape(st.walker_initial_pos),
          'model has', len(m._parameters), 'parameters')
if st.walker_initial_pos is not None and np.shape(st.walker_initial_pos)[1] != len(m2._parameters):
    print('VIOLATION: the strategy kept the starting positions of the first model')
    sys.exit(1)
print('ok'); sys.exit(0)
