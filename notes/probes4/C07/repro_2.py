"""C07 repro 2: detector points given in polar form (r, theta, phi) and the
same points given in Cartesian form give different values when a composite
scatterer is computed by superposition (theory=Mie on Spheres): every sphere
is put at the origin of the polar coordinates, so the interference between
the spheres disappears. Multisphere (which takes the polar coordinates
relative to the centre of the cluster, as documented) agrees between the two
forms, and agrees with Mie on the Cartesian form.
Run from the checkout root."""
import sys, os; sys.path.insert(0, os.getcwd())
import warnings; warnings.simplefilter('ignore')
import numpy as np
import holopy as hp
from holopy.scattering import Sphere, Spheres, calc_intensity, calc_field, Mie, Multisphere
from holopy.core.metadata import detector_points

print('holopy from', hp.__file__)
kw = dict(medium_index=1.33, illum_wavelen=0.66, illum_polarization=(1, 0))
cluster = Spheres([Sphere(n=1.4, r=0.15, center=(0, 0, 10)),
                   Sphere(n=1.4, r=0.15, center=(3.0, 0, 10))])
c = cluster.center
th = np.linspace(0.05, 0.6, 8); ph = np.zeros(8); r = np.full(8, 500.0)
polar = detector_points(r=r, theta=th, phi=ph)
# the same places: polar coordinates are relative to the scatterer, theta
# from the direction of propagation (which is -z of the detector frame)
cart = detector_points(x=c[0] + r*np.sin(th)*np.cos(ph),
                       y=c[1] + r*np.sin(th)*np.sin(ph),
                       z=c[2] - r*np.cos(th))
res = {}
for name, theory in (('Mie', Mie()), ('Multisphere', Multisphere())):
    for form, det in (('polar', polar), ('cartesian', cart)):
        i = calc_intensity(det, cluster, theory=theory, **kw).values
        res[name, form] = i / i[0]
        print('%-11s %-9s' % (name, form), np.round(i / i[0], 3))
ms = np.abs(res['Multisphere', 'polar'] - res['Multisphere', 'cartesian']).max()
mie = np.abs(res['Mie', 'polar'] - res['Mie', 'cartesian']).max()
cross = np.abs(res['Mie', 'cartesian'] - res['Multisphere', 'cartesian']).max()
print('Multisphere polar vs cartesian: %.2e   Mie polar vs cartesian: %.2e   '
      'Mie vs Multisphere (cartesian): %.2e' % (ms, mie, cross))
# the single sphere is not affected
one = Sphere(n=1.4, r=0.15, center=tuple(c))
a = calc_field(polar, one, theory=Mie(), **kw).values
b = calc_field(cart, one, theory=Mie(), **kw).values
print('single sphere polar vs cartesian: %.1e' % (np.abs(a - b).max() / np.abs(b).max()))
if mie > 0.1 and ms < 1e-6:
    print('VIOLATION: superposition ignores where the spheres are when the '
          'detector is given in polar coordinates')
    sys.exit(1)
print('ok'); sys.exit(0)
