"""load_average(paths, refimg=ref, spacing=s): the docstring says spacing is
'used preferentially over refimg value if both are provided'.  When s differs
from the reference's pixel size the result keeps the reference's pixel size
(the argument is ignored for the coordinates) AND its pixel values are wrong:
the averaged frames are resampled with repeated rows/columns."""
import sys, os; sys.path.insert(0, os.getcwd())
import warnings; warnings.simplefilter('ignore')
import tempfile
import numpy as np
from PIL import Image
import holopy as hp
from holopy.core.io import load_average, load_image
from holopy.core.metadata import get_spacing

rng = np.random.default_rng(0)
d = tempfile.mkdtemp()
frames, paths = [], []
for k in range(4):
    a = rng.integers(1, 250, (30, 40)).astype(np.uint8)
    frames.append(a.astype(float))
    paths.append(os.path.join(d, 'bg%d.tif' % k))
    Image.fromarray(a).save(paths[-1])
mean = np.mean(frames, axis=0)

ref = load_image(paths[0], spacing=0.1, medium_index=1.33, illum_wavelen=0.66,
                 illum_polarization=(1, 0))
ok = load_average(paths, refimg=ref)
print('refimg only     : spacing', get_spacing(ok), 'equals batch mean:',
      np.allclose(ok.values[0], mean))
av = load_average(paths, refimg=ref, spacing=0.5)
print('refimg + spacing=0.5: spacing of result', get_spacing(av),
      '(asked for 0.5)  shape', av.shape)
print('equals batch mean:', np.allclose(av.values[0], mean))
print('result[:4,:4]=\n', av.values[0][:4, :4], '\nbatch mean[:4,:4]=\n', mean[:4, :4])
bad = (not np.allclose(av.values[0], mean)) or (not np.allclose(get_spacing(av), 0.5))
sys.exit(1 if bad else 0)
