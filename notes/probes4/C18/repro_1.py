"""bg_correct refuses a raw/background pair of identical shape and pixel size
when the two were cropped at different positions (which the function's own
comment says it supports), because the pixel sizes are compared with exact
floating-point equality."""
import sys, os; sys.path.insert(0, os.getcwd())
import warnings; warnings.simplefilter('ignore')
import numpy as np
import holopy as hp
from holopy.core.metadata import data_grid, get_spacing
from holopy.core.process import subimage, bg_correct

rng = np.random.default_rng(0)
holo = data_grid(rng.uniform(1, 2, (100, 100)), spacing=0.1, medium_index=1.33,
                 illum_wavelen=0.66, illum_polarization=(1, 0))
bgim = data_grid(rng.uniform(5, 6, (100, 100)), spacing=0.1)

raw = subimage(holo, (65, 30), 40)     # a 40x40 crop around the particle
bg = subimage(bgim, (50, 50), 40)      # a 40x40 crop of the background elsewhere
print('shapes', raw.shape, bg.shape)
print('spacings', get_spacing(raw).tolist(), get_spacing(bg).tolist())
bad = 0
try:
    res = bg_correct(raw, bg)
    ok = np.allclose(res.values, raw.values / bg.values) and \
        np.array_equal(res.x.values, raw.x.values)
    print('bg_correct returned; pixelwise quotient with raw coordinates:', ok)
    bad = 0 if ok else 1
except Exception as e:
    print('bg_correct raised:', repr(e))
    bad = 1
# how often it happens
n = r = 0
for cx in range(20, 81, 5):
    for cy in range(20, 81, 7):
        n += 1
        try:
            bg_correct(subimage(holo, (cx, cy), 40), bg)
        except Exception:
            r += 1
print('refused %d of %d crop positions (same shape, same pixel size)' % (r, n))
sys.exit(1 if (bad or r) else 0)
