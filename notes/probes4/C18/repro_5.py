"""save_image(name.tif, im, scaling=(lo, hi)) followed by hp.load(name.tif):
the reader undoes the scaling with the min/max of the stored pixels instead of
the full range of the file format, so unless the image happens to span exactly
[lo, hi] the loaded values are stretched to fill [lo, hi] - silently wrong."""
import sys, os; sys.path.insert(0, os.getcwd())
import warnings; warnings.simplefilter('ignore')
import tempfile
import numpy as np
import holopy as hp
from holopy.core.metadata import data_grid
from holopy.core.io import save_image

rng = np.random.default_rng(0)
im = data_grid(rng.uniform(0.5, 1.5, (8, 10)), spacing=0.1, medium_index=1.33,
               illum_wavelen=0.66, illum_polarization=(1, 0))
d = tempfile.mkdtemp()
bad = 0
for kw in (dict(), dict(scaling=(0, 2)), dict(scaling=(0, 2), depth=16)):
    p = os.path.join(d, 'im.tif')
    save_image(p, im, **kw)
    back = hp.load(p)
    err = float(np.abs(back.values - im.values).max())
    print(kw, 'original range [%.3f, %.3f]' % (im.min(), im.max()),
          'loaded range [%.3f, %.3f]' % (back.min(), back.max()),
          'max abs error %.4f' % err)
    if err > 0.01:
        bad = 1
sys.exit(bad)
