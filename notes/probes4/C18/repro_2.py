"""center_find / make_center_priors on the multi-channel hologram that
calc_holo itself returns (dims illumination, x, y, z) silently give a wrong
centre; the same data laid out as load_image does (z, x, y, illumination)
gives the right one."""
import sys, os; sys.path.insert(0, os.getcwd())
import warnings; warnings.simplefilter('ignore')
import numpy as np
import holopy as hp
from holopy.core.metadata import detector_grid
from holopy.core.process import center_find
from holopy.core.prior import make_center_priors
from holopy.scattering import Sphere, calc_holo

sp = 0.1
det = detector_grid((120, 100), sp, extra_dims={'illumination': ['red', 'green']})
sph = Sphere(n=1.59, r=0.5, center=(7.3, 4.1, 10))
holo = calc_holo(det, sph, medium_index=1.33,
                 illum_wavelen={'red': 0.66, 'green': 0.52},
                 illum_polarization=(1, 0))
true = np.array([7.3, 4.1]) / sp
c = center_find(holo)
pri = make_center_priors(holo)
c2 = center_find(holo.transpose('z', 'x', 'y', 'illumination'))
print('dims returned by calc_holo:', holo.dims)
print('true centre (pixels):', true)
print('center_find(calc_holo output):', c)
print('make_center_priors guesses:', [float(p.guess) for p in pri[:2]], '(true 7.3, 4.1)')
print('center_find(same data as z,x,y,illumination):', c2)
bad = np.abs(np.array(c) - true).max() > 1
sys.exit(1 if bad else 0)
