"""bg_correct with a raw image and a background whose colour-channel labels
differ (same shape, same pixel grid) silently returns an image with fewer
channels - or with no pixels at all - instead of (raw-df)/(bg-df) or an error."""
import sys, os; sys.path.insert(0, os.getcwd())
import warnings; warnings.simplefilter('ignore')
import numpy as np
import holopy as hp
from holopy.core.metadata import data_grid
from holopy.core.process import bg_correct

rng = np.random.default_rng(0)
def img(labels, lo, hi):
    return data_grid(rng.uniform(lo, hi, (6, 8, len(labels))), spacing=0.1,
                     extra_dims={'illumination': labels})
raw = img(['red', 'green'], 1, 2)
bad = 0
for labels in (['red', 'blue'], [0, 1]):
    bg = img(labels, 5, 6)
    try:
        res = bg_correct(raw, bg)
        print('raw channels', list(raw.illumination.values), 'bg channels', labels,
              '-> result shape', res.shape, 'channels', list(res.illumination.values),
              'size', res.size)
        if res.shape != raw.shape:
            bad = 1
    except Exception as e:
        print('bg channels', labels, 'raised', repr(e))
sys.exit(bad)
