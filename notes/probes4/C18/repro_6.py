"""Accumulator.push increments its counter before it touches the data, so a
push that raises (a frame of another size) still counts: the mean and standard
deviation of the frames that were accepted afterwards are silently wrong."""
import sys, os; sys.path.insert(0, os.getcwd())
import warnings; warnings.simplefilter('ignore')
import numpy as np
from holopy.core.io.io import Accumulator

rng = np.random.default_rng(0)
good = [rng.uniform(1, 2, (4, 5)) for _ in range(3)]
acc = Accumulator()
acc.push(good[0])
try:
    acc.push(np.ones((3, 3)))          # a frame of the wrong size: rejected
except Exception as e:
    print('bad frame rejected with', type(e).__name__)
acc.push(good[1]); acc.push(good[2])
print('frames counted', acc._n, '(3 were accepted)')
merr = np.abs(acc.mean() - np.mean(good, axis=0)).max()
serr = np.abs(acc.std() - np.std(good, axis=0)).max()
print('max |mean - batch mean| =', merr, '  max |std - batch std| =', serr)
sys.exit(1 if (merr > 1e-12 or serr > 1e-12) else 0)
