"""C14 repro 1: a prior object used both in the scatterer and in another section
of a Model (optics / model parameters / theory) is NOT tied: the derived prior in
the scatterer no longer follows the base prior used as medium_index.

Run from the checkout root:  /venv/bin/python /tmp/probe4_out/C14/repro_1.py
"""
import sys, os; sys.path.insert(0, os.getcwd())
import numpy as np
from holopy.core.prior import Uniform
from holopy.core.mapping import Mapper
from holopy.scattering import Sphere
from holopy.inference import AlphaModel

medium = Uniform(1.30, 1.36, name='medium')
ratio = 1.2
# sphere index expressed relative to the (unknown) medium index
sphere = Sphere(n=medium * ratio, r=0.5, center=[5, 5, Uniform(5, 15, name='z')])
model = AlphaModel(sphere, alpha=1, noise_sd=0.1, medium_index=medium,
                   illum_wavelen=0.66, illum_polarization=(1, 0))
print('parameter names :', model._parameter_names)

bad = False
# (a) one prior object -> one parameter is the documented way of tying
n_medium_pars = sum(p == medium or p == medium.renamed('medium') for p in model._parameters)
if n_medium_pars != 1:
    print('VIOLATION: the single prior `medium` appears as %d independent '
          'parameters' % n_medium_pars)
    bad = True

# (b) the derived prior must equal op(base value): n_sphere == ratio * medium_index
pars = dict(model.initial_guess)
for name in pars:
    if name.startswith('medium'):
        pars[name] = 1.31 if name == 'medium' else 1.35
n_sphere = model.scatterer_from_parameters(pars).n
n_medium = model._find_optics(model.ensure_parameters_are_listlike(pars), None)['medium_index']
print('sphere n = %r, medium_index = %r, ratio = %r (expected %r)'
      % (n_sphere, n_medium, n_sphere / n_medium, ratio))
if not np.isclose(n_sphere / n_medium, ratio):
    print('VIOLATION: derived prior medium*1.2 in the scatterer does not follow '
          'the parameter that sets medium_index')
    bad = True

# (c) the prior density of `medium` is counted twice in lnprior
lp = model.lnprior(model.initial_guess)
expected = sum(p.lnprob(p.guess) for p in [medium, sphere.center[2]])
print('lnprior(initial guess) = %r, expected with one `medium` = %r' % (lp, expected))
if not np.isclose(lp, expected):
    bad = True

# control: the same object used twice inside the scatterer IS tied
m = Mapper(); m.convert_to_map(Sphere(n=medium * ratio, r=medium, center=[1, 1, 1]).parameters)
print('control (both uses inside the scatterer):', m.parameter_names)
shared = Uniform(0.5, 1.0, name='shared')
m2 = AlphaModel(Sphere(n=1.5, r=0.5, center=[1, 1, 5]), alpha=shared, noise_sd=shared,
                medium_index=1.33, illum_wavelen=0.66, illum_polarization=(1, 0))
print('control (used as alpha and as noise_sd, no scatterer involved):', m2._parameter_names)
sys.exit(1 if bad else 0)
