"""C14 repro 6: Model.scatterer (and every read_map of a map with prior values)
rebuilds a ComplexPrior as a plain TransformedPrior(complex, ...): lnprob/prob,
.real/.imag are gone and a model built from model.scatterer names the same
parameters 'n.0', 'n.1' instead of 'n.real', 'n.imag'.

Run from the checkout root:  /venv/bin/python /tmp/probe4_out/C14/repro_6.py
"""
import sys, os; sys.path.insert(0, os.getcwd())
from holopy.core.prior import Uniform, Gaussian, ComplexPrior
from holopy.scattering import Sphere
from holopy.inference import AlphaModel

kw = dict(alpha=1, noise_sd=0.1, medium_index=1.33, illum_wavelen=0.66,
          illum_polarization=(1, 0))
n = ComplexPrior(Gaussian(1.58, 0.02), Uniform(0, 0.1))
sphere = Sphere(n=n, r=0.5, center=[1, 1, 5])
model = AlphaModel(sphere, **kw)
back = model.scatterer
print('original n        :', type(sphere.n).__name__, ' lnprob(1.58+0.05j) =', sphere.n.lnprob(1.58 + 0.05j))
print('model.scatterer.n :', type(back.n).__name__)
bad = False
try:
    print('   lnprob =', back.n.lnprob(1.58 + 0.05j))
except NotImplementedError as e:
    print('   lnprob raises NotImplementedError:', e); bad = True
names1, names2 = model._parameter_names, AlphaModel(back, **kw)._parameter_names
print('names from original scatterer :', names1)
print('names from model.scatterer    :', names2)
bad |= names1 != names2
sys.exit(1 if bad else 0)
