"""C14 repro 3: Scatterer.from_parameters with a partial (or empty) dictionary
silently unties priors: every key that is not supplied is filled from a *separate*
deep copy of the scatterer's parameters, so one prior object used under two keys
(or in two spheres of a Spheres) comes back as unrelated objects and a derived
prior (q*10) no longer shares its base with q.

Run from the checkout root:  /venv/bin/python /tmp/probe4_out/C14/repro_3.py
"""
import sys, os; sys.path.insert(0, os.getcwd())
from holopy.core.prior import Uniform, Gaussian
from holopy.core.mapping import Mapper
from holopy.scattering import Sphere, Spheres

def names(s):
    m = Mapper(); m.convert_to_map(s.parameters); return m.parameter_names

q = Uniform(0.4, 0.6)
sphere = Sphere(n=1.5, r=q, center=[q * 10, 5, q * 20])       # one free parameter
n = Gaussian(1.58, 0.02)
cluster = Spheres([Sphere(n=n, r=0.5, center=[0, 0, 5]),
                   Sphere(n=n, r=0.5, center=[0, 3, 5])])      # one free parameter
bad = False
for label, s, new in [('Sphere', sphere, {'n': 1.6}), ('Sphere', sphere, {}),
                      ('Spheres', cluster, {'0:r': 0.7}), ('Spheres', cluster, {})]:
    full = dict(s.parameters); full.update(new)
    a, b, c = names(s), names(s.from_parameters(new)), names(s.from_parameters(full))
    print('%-8s original %s | from_parameters(%r) %s | same values given in full %s'
          % (label, a, new, b, c))
    if len(b) != len(a):
        bad = True
if bad:
    print('VIOLATION: a partial from_parameters changes the number of free '
          'parameters (ties and derived-prior bases are lost), the full one does not')
sys.exit(1 if bad else 0)
