"""C14 repro 5: "combining with unsupported types raises" holds for the operators
(`prior ** 'a'`, `prior + 'a'`, `prior * None` raise TypeError) but not for the
NumPy-function spelling of the same operations: every ufunc outside
{add, subtract, multiply, true_divide, negative} goes straight to
TransformedPrior without looking at the operands, so np.power(prior, 'a'),
np.power(prior, None), np.maximum(prior, 'a'), np.hypot(prior, None) are accepted
silently and only fail later, when .guess / .sample() is evaluated inside a fit.

Run from the checkout root:  /venv/bin/python /tmp/probe4_out/C14/repro_5.py
"""
import sys, os; sys.path.insert(0, os.getcwd())
import numpy as np
from holopy.core.prior import Uniform, TransformedPrior

u = Uniform(1, 2)
def outcome(f):
    try:
        r = f()
    except TypeError as e:
        return 'raises TypeError'
    if isinstance(r, TransformedPrior):
        try:
            r.guess
            return 'accepted, guess ok'
        except Exception as e:
            return 'ACCEPTED silently (guess later raises %s)' % type(e).__name__
    return repr(r)

pairs = [("u ** 'a'", lambda: u ** 'a', "np.power(u, 'a')", lambda: np.power(u, 'a')),
         ("u ** None", lambda: u ** None, "np.power(u, None)", lambda: np.power(u, None)),
         ("'a' ** u", lambda: 'a' ** u, "np.power('a', u)", lambda: np.power('a', u)),
         ("u + 'a'", lambda: u + 'a', "np.maximum(u, 'a')", lambda: np.maximum(u, 'a')),
         ("u * None", lambda: u * None, "np.hypot(u, None)", lambda: np.hypot(u, None))]
bad = False
for l1, f1, l2, f2 in pairs:
    o1, o2 = outcome(f1), outcome(f2)
    print('%-10s %-18s | %-18s %s' % (l1, o1, l2, o2))
    bad |= o2.startswith('ACCEPTED')
sys.exit(1 if bad else 0)
