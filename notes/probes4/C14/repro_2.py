"""C14 repro 2: saving and loading an object in which one prior object is used in
several places (the documented way of tying parameters, and what every derived
prior such as `z + 1.2` relies on) silently unties them: each occurrence comes
back as a separate prior object, so a model built from the reloaded scatterer has
more free parameters and the derived prior no longer follows its base.

Run from the checkout root:  /venv/bin/python /tmp/probe4_out/C14/repro_2.py
"""
import sys, os, io; sys.path.insert(0, os.getcwd())
import numpy as np
import holopy as hp
from holopy.core.prior import Uniform, Gaussian
from holopy.core.io import save, load
from holopy.scattering import Sphere, Spheres
from holopy.inference import AlphaModel

n = Gaussian(1.58, 0.02)
z = Uniform(5, 15)
spheres = Spheres([Sphere(n=n, r=0.5, center=[5, 5, z]),
                   Sphere(n=n, r=0.6, center=[5, 6, z + 1.2])])
buf = io.BytesIO(); save(buf, spheres); buf.seek(0)
reloaded = load(buf)

def model_of(s):
    return AlphaModel(s, alpha=1, noise_sd=0.1, medium_index=1.33,
                      illum_wavelen=0.66, illum_polarization=(1, 0))
before, after = model_of(spheres), model_of(reloaded)
print('equal by ==            :', reloaded == spheres)
print('parameters before save :', before._parameter_names)
print('parameters after load  :', after._parameter_names)
print('same object before     :', spheres.scatterers[0].n is spheres.scatterers[1].n,
      spheres.scatterers[1].center[2].base_prior[0] is spheres.scatterers[0].center[2])
print('same object after      :', reloaded.scatterers[0].n is reloaded.scatterers[1].n,
      reloaded.scatterers[1].center[2].base_prior[0] is reloaded.scatterers[0].center[2])
bad = len(after._parameters) != len(before._parameters)
if bad:
    print('VIOLATION: %d parameters became %d after a save/load round trip; the '
          'derived prior z+1.2 of sphere 1 is detached from z of sphere 0'
          % (len(before._parameters), len(after._parameters)))
sys.exit(1 if bad else 0)
