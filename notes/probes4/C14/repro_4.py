"""C14 repro 4: prior.make_center_priors returns silently wrong x/y priors for a
hologram whose dimensions are not ordered (x, y, <extra>): e.g. the two-colour
hologram that calc_holo itself returns (dims illumination, x, y, z), or an image
transposed to (y, x).  The Gaussians come back many sigma away from the particle.

Run from the checkout root:  /venv/bin/python /tmp/probe4_out/C14/repro_4.py
"""
import sys, os; sys.path.insert(0, os.getcwd())
import numpy as np, xarray as xr
from holopy.core.prior import make_center_priors
from holopy.core.metadata import detector_grid
from holopy.scattering import Sphere, calc_holo

truth = (4.0, 6.0)
sphere = Sphere(n=1.59, r=0.5, center=truth + (12,))
colours = ['red', 'green']
det = detector_grid(100, 0.1, extra_dims={'illumination': colours})
wl = xr.DataArray([0.66, 0.52], dims='illumination', coords={'illumination': colours})
holo = calc_holo(det, sphere, medium_index=1.33, illum_wavelen=wl,
                 illum_polarization=(1, 0))
mono = holo.sel(illumination='red')

def report(label, im):
    px, py, pz = make_center_priors(im)
    nsig = max(abs(px.mu - truth[0]) / px.sd, abs(py.mu - truth[1]) / py.sd)
    print('%-34s dims=%-28s x = %.3f +- %.2f, y = %.3f +- %.2f  (truth %s; %.0f sigma off)'
          % (label, im.dims, px.mu, px.sd, py.mu, py.sd, truth, nsig))
    return nsig

ok = report('one colour (x, y, z)', mono)
bad1 = report('two colours, as calc_holo returns', holo)
bad2 = report('same data, detector dim order', holo.transpose(*det.dims))
bad3 = report('one colour transposed to (y, x)', mono.isel(z=0).transpose('y', 'x'))
violation = ok < 3 and (bad1 > 5 or bad3 > 5)
if violation:
    print('VIOLATION: the same hologram gives centre priors that exclude the true '
          'centre depending only on the order of the labelled dimensions')
sys.exit(1 if violation else 0)
