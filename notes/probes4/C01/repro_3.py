"""C01 / finding 3 (metadata): calc_scat_matrix replaces the detector's
illum_polarization by the boolean False in the metadata of its result.

interface.calc_scat_matrix calls prep_schema(..., illum_polarization=False);
the sentinel False (meaning "no polarisation needed") is handed on to
update_metadata, where `updated()` only filters None, so
attrs['illum_polarization'] = False overwrites the polarisation recorded on the
detector.  The result of calc_scat_matrix then "carries" a polarisation of
False although the detector said (1, 0) and nothing else was passed.  (With two
wavelengths, which the docstring advertises, the same sentinel makes prep_schema
fail with AttributeError: 'bool' object has no attribute 'dims'.)
"""
import sys, os; sys.path.insert(0, os.getcwd())
import warnings; warnings.filterwarnings('ignore')
import numpy as np
import holopy as hp
from holopy.core.metadata import update_metadata
from holopy.scattering import calc_scat_matrix, calc_field, Sphere

det = update_metadata(hp.detector_grid((3, 3), 0.4), medium_index=1.33,
                      illum_wavelen=0.66, illum_polarization=(1, 0))
s = Sphere(n=1.59, r=0.5, center=(0.3, 0.2, 5))
print("holopy:", hp.__file__)
print("detector polarisation     :", det.attrs['illum_polarization'].values)
f = calc_field(det, s)
print("calc_field result         :", f.attrs['illum_polarization'].values)
m = calc_scat_matrix(det, s)
pol = m.attrs['illum_polarization']
print("calc_scat_matrix result   :", repr(pol) if not hasattr(pol, 'values')
      else pol.values)
print("other metadata kept       :", m.attrs['medium_index'],
      m.attrs['illum_wavelen'])
bad = pol is False
try:
    calc_scat_matrix(det, s, illum_wavelen=[0.66, 0.52])
    print("two wavelengths: ok")
except AttributeError as e:
    print("two wavelengths (documented) ->", repr(e))
if bad:
    print("VIOLATION: the detector's polarisation was overwritten by False "
          "in the result's metadata")
    sys.exit(1)
print("no violation")
sys.exit(0)
