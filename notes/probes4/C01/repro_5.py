"""C01 / finding 5 (coordinates): a multi-channel result does not lie on the
detector's `illumination` coordinate: the channels come back in the key order
of the illum_wavelen dictionary, not in the order of the detector.

dict_to_array() checks the keys against the detector's labels after SORTING
both, but builds the DataArray in the dictionary's own order;
ImageFormation._calculate_multiple_color_scattered_field then loops over
schema.illum_wavelen.illumination and concatenates in that order, and
finalize()/copy_metadata(do_coords=False) never puts the result back on the
detector's illumination axis.  Labels are right, positions are not: anything
that uses .values / positional indexing against the data (np.asarray(holo) -
np.asarray(data), hp.show of channel 0, saving to a stack ...) mixes channels.
"""
import sys, os; sys.path.insert(0, os.getcwd())
import warnings
import numpy as np
import holopy as hp
warnings.filterwarnings('ignore')
from holopy.scattering import calc_holo, Sphere

det = hp.detector_grid((4, 3), 0.1, extra_dims={'illumination': ['red', 'green']})
s = Sphere(n=1.59, r=0.5, center=(0.2, 0.1, 5))
pol = (1, 0)
h_a = calc_holo(det, s, 1.33, {'red': 0.66, 'green': 0.52}, pol)
h_b = calc_holo(det, s, 1.33, {'green': 0.52, 'red': 0.66}, pol)   # same optics
print("holopy:", hp.__file__)
print("detector illumination :", list(det.illumination.values))
print("result (red first)    :", list(h_a.illumination.values))
print("result (green first)  :", list(h_b.illumination.values))
same_labelled = bool(np.allclose(h_a.sel(illumination='red'),
                                 h_b.sel(illumination='red')))
same_positional = bool(np.allclose(h_a.transpose(*h_b.dims).values, h_b.values))
print("equal by label:", same_labelled, "  equal as arrays:", same_positional)
if list(h_b.illumination.values) != list(det.illumination.values):
    print("VIOLATION: identical arguments (dict key order apart) give arrays "
          "whose channel axis is ordered differently from the detector's")
    sys.exit(1)
print("no violation")
sys.exit(0)
