"""C01 / finding 2: Tmatrix computes a Cylinder that is (3/2)^(2/3) = 1.31x too
large in every dimension (volume 2.25x too large).

Tmatrix._parse_args:   axi = (3/2)**iscyl*(rz*rxy**2)**(1/3.)
AXI (with RAT=1) is the equal-volume-sphere radius.  For a cylinder of radius
rxy and half-height rz,  r_ev**3 = (3/2) rxy**2 rz, so the factor 3/2 belongs
INSIDE the cube root:  axi = ((3/2)**iscyl * rz*rxy**2)**(1/3.)
(the Fortran, RSP3, reconstructs H = REV*(2/(3 EPS^2))**(1/3)).

Check in the Rayleigh-Gans limit (tiny particle, index close to the medium):
the scattered amplitude is proportional to the particle volume whatever its
shape, so a cylinder and a sphere of EQUAL VOLUME must scatter alike.  The
library gives a ratio of 2.25 = (3/2)^2, i.e. Cylinder(h, d) is computed as
Cylinder(1.31 h, 1.31 d).  Spheres and spheroids pass the same test.
"""
import sys, os; sys.path.insert(0, os.getcwd())
import warnings; warnings.filterwarnings('ignore')
import numpy as np
import holopy as hp
from holopy.scattering import calc_field, Sphere, Cylinder, Spheroid, Mie, Tmatrix

det = hp.detector_grid((3, 3), (0.5, 0.5))
h = d = 0.06                       # microns: k*a ~ 0.4, Rayleigh regime
volume = np.pi * (d / 2)**2 * h
r_ev = (3 * volume / (4 * np.pi))**(1 / 3.)
c = (0.5, 0.5, 10)
optics = dict(medium_index=1.33, illum_wavelen=0.66, illum_polarization=(1, 0))
amp = lambda f: float(abs(f.sel(vector='x')).max())

a_cyl = amp(calc_field(det, Cylinder(n=1.35, h=h, d=d, center=c),
                       theory=Tmatrix(), **optics))
a_sph = amp(calc_field(det, Sphere(n=1.35, r=r_ev, center=c),
                       theory=Mie(), **optics))
a_sph_tm = amp(calc_field(det, Sphere(n=1.35, r=r_ev, center=c),
                          theory=Tmatrix(), **optics))
a_spheroid = amp(calc_field(det, Spheroid(n=1.35, r=(r_ev, r_ev * 1.0001),
                                          center=c),
                            theory=Tmatrix(), **optics))
print("holopy:", hp.__file__)
print("equal-volume sphere, Mie      :", a_sph)
print("equal-volume sphere, Tmatrix  :", a_sph_tm)
print("equal-volume spheroid, Tmatrix:", a_spheroid)
print("cylinder h=d, Tmatrix         :", a_cyl)
ratio = a_cyl / a_sph
print("cylinder / sphere amplitude ratio = %.4f  (expected ~1; (3/2)^2 = 2.25)"
      % ratio)
if abs(ratio - 2.25) < 0.05:
    print("VIOLATION: the T-matrix cylinder has 2.25x the requested volume "
          "(equal-volume radius multiplied by 3/2 instead of (3/2)^(1/3)).")
    sys.exit(1)
if abs(ratio - 1) > 0.1:
    print("VIOLATION (other): cylinder amplitude inconsistent with volume")
    sys.exit(1)
print("no violation")
sys.exit(0)
