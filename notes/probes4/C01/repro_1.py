"""C01 / finding 1: Tmatrix silently computes only the CORE of a LayeredSphere.

Tmatrix.can_handle() accepts every Sphere, including layered ones.
LayeredSphere keeps n and r as numpy arrays; Tmatrix._parse_args hands those
arrays to the f2py routine `ampld`, whose scalar arguments silently take the
first element.  calc_holo / calc_field / calc_intensity therefore return,
without any warning, the hologram of a homogeneous sphere made of the core
alone (radius t[0], index n[0]).  The same happens for a LayeredSphere inside
a Spheres/Scatterers superposition and through Lens(Tmatrix()).
(Sphere(n=[..], r=[..]) with plain lists raises a TypeError instead, and
Multisphere raises TheoryNotCompatibleError for layered spheres.)
"""
import sys, os; sys.path.insert(0, os.getcwd())
import warnings; warnings.filterwarnings('ignore')
import numpy as np
import holopy as hp
from holopy.scattering import calc_holo, Sphere, LayeredSphere, Mie, Tmatrix

det = hp.detector_grid((6, 5), (0.1, 0.13))
center = (0.3, 0.2, 5)
coated = LayeredSphere(n=[1.59, 1.45 + 0.02j], t=[0.3, 0.2], center=center)
core_only = Sphere(n=1.59, r=0.3, center=center)
optics = dict(medium_index=1.33, illum_wavelen=0.66, illum_polarization=(1, 0))

try:
    h_tm = calc_holo(det, coated, theory=Tmatrix(), **optics)
except Exception as e:
    print("Tmatrix refused the layered sphere:", repr(e)[:120])
    print("no violation")
    sys.exit(0)

h_core = calc_holo(det, core_only, theory=Tmatrix(), **optics)
h_mie = calc_holo(det, coated, theory=Mie(), **optics)   # exact layered solution
d_core = float(abs(h_tm - h_core).max())
d_mie = float(abs(h_tm - h_mie).max())
print("holopy:", hp.__file__)
print("max |Tmatrix(coated) - Tmatrix(core alone)| =", d_core)
print("max |Tmatrix(coated) - Mie(coated)|         =", d_mie)
if d_core < 1e-12 and d_mie > 1e-2:
    print("VIOLATION: Tmatrix returned the hologram of the bare core for a "
          "coated sphere, silently (shell ignored).")
    sys.exit(1)
print("no violation")
sys.exit(0)
