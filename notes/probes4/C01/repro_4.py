"""C01 / finding 4: with its DEFAULT options Multisphere returns transverse
(x, y) fields that are wrong by O(cluster size / distance), because it drops
the field component that is radial about the CLUSTER CENTRE.

Multisphere(compute_escat_radial=False) (the default) evaluates the
cluster-centred expansion and discards E_r.  The docstring calls this "a good
approximation for large kr, since the radial component falls off as 1/kr^2".
That is only true for a scatterer sitting at the expansion centre.  The field of
a sphere displaced by d from the centroid is transverse to ITS OWN radius, so
about the centroid it has a radial part of relative size ~ d/z, which is not
small for holography (z ~ 10 um, d ~ 1 um) and which contributes to E_x, E_y.

Test: sphere + a "ghost" sphere with the index of the medium (scatters
nothing; it only moves the centroid).  The exact answer is the Mie field of
the real sphere alone.  (a) A displacement along z is used to isolate the cause
(there the separate, already known, defect of the radial routine - m = 0
skipped - plays no role): with compute_escat_radial=True the answer is right to
1e-4, with the default it is ~80x worse.  (b) For a sideways displacement (an
ordinary dimer geometry) the default is off by ~5% in (Ex, Ey) and in the
hologram fringes, independent of the index contrast, so it is not multiple
scattering.
"""
import sys, os; sys.path.insert(0, os.getcwd())
import warnings
import numpy as np
import holopy as hp
warnings.filterwarnings('ignore')
from holopy.scattering import calc_field, calc_holo, Sphere, Spheres, Mie, Multisphere

det = hp.detector_grid((8, 8), 0.4)
optics = dict(medium_index=1.33, illum_wavelen=0.66, illum_polarization=(1, 0))
real = Sphere(n=1.45, r=0.2, center=(1, 0.3, 8))
exact = calc_field(det, real, theory=Mie(), **optics)
h_exact = calc_holo(det, real, theory=Mie(), **optics)


def relerr(f):
    xy = ['x', 'y']
    return float(abs(f.sel(vector=xy) - exact.sel(vector=xy)).max()
                 / abs(exact.sel(vector=xy)).max())


print("holopy:", hp.__file__)
# (a) ghost displaced along z: isolates the cause
pair_z = Spheres([real, Sphere(n=1.33 + 1e-9, r=0.2, center=(1, 0.3, 12))])
ez_def = relerr(calc_field(det, pair_z, theory=Multisphere(), **optics))
ez_rad = relerr(calc_field(
    det, pair_z, theory=Multisphere(compute_escat_radial=True), **optics))
print("(a) ghost 4 um further along z")
print("    rel. error of (Ex, Ey), default                  : %.3g" % ez_def)
print("    rel. error of (Ex, Ey), compute_escat_radial=True: %.3g" % ez_rad)
# (b) ghost displaced sideways (an ordinary dimer geometry), default options
pair_xy = Spheres([real, Sphere(n=1.33 + 1e-9, r=0.2, center=(2.2, 2.7, 8))])
exy_def = relerr(calc_field(det, pair_xy, theory=Multisphere(), **optics))
h_ms = calc_holo(det, pair_xy, theory=Multisphere(), **optics)
eh = float(abs(h_ms - h_exact).max() / abs(h_exact - 1).max())
print("(b) ghost 2.7 um to the side, same z")
print("    rel. error of (Ex, Ey), default                  : %.3g" % exy_def)
print("    hologram: max|MS - exact| / max|exact - 1|       : %.3g" % eh)
if exy_def > 0.03 and ez_def > 20 * ez_rad:
    print("VIOLATION: the default Multisphere field of a sphere that is not "
          "at the centroid is off by %.1f%% in the transverse components "
          "(hologram fringes by %.1f%%); keeping the cluster-radial part "
          "removes the error in case (a)" % (100 * exy_def, 100 * eh))
    sys.exit(1)
print("no violation")
sys.exit(0)
