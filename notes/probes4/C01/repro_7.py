"""C01 / observation 7 (low confidence): AberratedMieLens evaluates the list of
spherical-aberration coefficients in the LEGENDRE basis, while the docstring
defines them as the coefficients of a power series ("the coefficients of
aberrations in ascending order (3rd, 5th, 7th, ...)", each of the form of a pure
power of (cos(theta) - 1)).

mielensfunctions.AberratedMieLensCalculator._calculate_aberrated_phase:
    coeffs_high_to_low = np.reshape(self.spherical_aberration, -1)
    phase = x**2 * legval(x, coeffs_high_to_low)        # x = cos(theta) - 1
legval(x, [c0, c1, c2]) = c0 + c1 x + c2 (3 x^2 - 1)/2, so a pure "7th order"
coefficient c2 also changes the 3rd-order term by -c2/2.  One and two
coefficients are unaffected (P0 = 1, P1 = x).  Expected from the documentation:
    phase = x**2 * polyval(x, coeffs)   (numpy.polynomial.polynomial.polyval)
"""
import sys, os; sys.path.insert(0, os.getcwd())
import warnings
import numpy as np
import holopy as hp
warnings.filterwarnings('ignore')
from holopy.scattering import calc_holo, Sphere
from holopy.scattering.theory import AberratedMieLens

det = hp.detector_grid((6, 6), 0.2)
s = Sphere(n=1.59, r=0.5, center=(0.5, 0.5, 3))
kw = {'interpolate_integrals': False}
c = 4.0
def holo(coeffs):
    return calc_holo(det, s, 1.33, 0.66, (1, 0),
                     theory=AberratedMieLens(coeffs, 0.9, kw)).values
# compare the pupil phase of a pure "7th order" coefficient with both bases
from holopy.scattering.theory.mielensfunctions import AberratedMieLensCalculator
calc = AberratedMieLensCalculator(
    spherical_aberration=[0.0, 0.0, c], particle_kz=10., index_ratio=1.2,
    size_parameter=5., lens_angle=0.9, interpolate_integrals=False)
x = calc._pupil_x_squared
got = calc._calculate_aberrated_phase()
power = x**2 * (c * x**2)
legendre = x**2 * (c * (3 * x**2 - 1) / 2)
print("holopy:", hp.__file__)
print("max|phase - power series|    =", float(np.abs(got - power).max()))
print("max|phase - Legendre series| =", float(np.abs(got - legendre).max()))
h_3rd = holo([-c / 2])      # a pure 3rd-order aberration of -c/2
h_none = holo([0.0])
print("hologram change caused by the leaked 3rd-order part alone: %.3g" %
      float(np.abs(h_3rd - h_none).max()))
if np.abs(got - legendre).max() < 1e-12 and np.abs(got - power).max() > 1e-3:
    print("VIOLATION (vs. the documentation): the third coefficient is "
          "applied as c*P2(x), which contains a 3rd-order term -c/2")
    sys.exit(1)
print("no violation")
sys.exit(0)
