"""C01 / finding 6 (state between calls): every MieLens / AberratedMieLens made
with the default calculator_accuracy_kwargs shares ONE dictionary (mutable
default argument stored by reference), so adjusting the accuracy settings of one
theory object silently changes the values computed with every other, and every
future, default-constructed MieLens in the process.

mielens.py:  def __init__(self, lens_angle=1.0, calculator_accuracy_kwargs={}):
                 self.calculator_accuracy_kwargs = calculator_accuracy_kwargs
should copy:     self.calculator_accuracy_kwargs = dict(calculator_accuracy_kwargs)
"""
import sys, os; sys.path.insert(0, os.getcwd())
import warnings
import numpy as np
import holopy as hp
warnings.filterwarnings('ignore')
from holopy.scattering import calc_holo, Sphere, MieLens

det = hp.detector_grid((6, 6), 0.2)
s = Sphere(n=1.59, r=0.5, center=(0.5, 0.5, 3))
args = (det, s, 1.33, 0.66, (1, 0))
print("holopy:", hp.__file__)
fine = MieLens(0.9, {'interpolate_integrals': False})       # explicit: private
before = calc_holo(*args, theory=fine).values

coarse = MieLens(0.9)                   # default kwargs
coarse.calculator_accuracy_kwargs['interpolate_integrals'] = False
coarse.calculator_accuracy_kwargs['quad_npts'] = 4          # only for `coarse`
other = MieLens(0.9)                    # a new, untouched, default theory
print("kwargs of a brand-new MieLens():", other.calculator_accuracy_kwargs)
shared = other.calculator_accuracy_kwargs is coarse.calculator_accuracy_kwargs
after = calc_holo(*args, theory=other).values
diff = float(np.abs(after - before).max())
print("same dict object:", shared, "  max change in hologram: %.3g" % diff)
# leave the class as we found it
coarse.calculator_accuracy_kwargs.clear()
if shared and diff > 1e-6:
    print("VIOLATION: settings changed on one MieLens leak into another one")
    sys.exit(1)
print("no violation")
sys.exit(0)
