"""C08 / finding 2 (minor, helper level): mielensfunctions.j2 is documented as
"a fast J_2(x)" but returns 0 for every negative argument (J_2 is even),
because the argument is clipped to [1e-15, inf) to dodge the 0/0 at x = 0.
MieLensCalculator.calculate_scattered_field therefore silently drops the
I_2 (cos 2phi / sin 2phi) term when it is handed a signed radial coordinate
(e.g. a line cut x in [-a, a] with phi = 0), instead of raising or using |x|.
Not reachable through calc_field (rho >= 0 there).
"""
import sys, os; sys.path.insert(0, os.getcwd())
import numpy as np
from scipy.special import jv
from holopy.scattering.theory.mielensfunctions import j2, MieLensCalculator
x = np.array([-5.0, -3.0, -0.5, 0.0, 0.5, 3.0, 5.0])
print('x      ', x)
print('j2(x)  ', j2(x).round(6))
print('J_2(x) ', jv(2, x).round(6))
bad = not np.allclose(j2(x), jv(2, x), atol=1e-12)
c = MieLensCalculator(particle_kz=10., index_ratio=1.2, size_parameter=5., lens_angle=0.8,
                      interpolate_integrals=False)
r = np.array([3.0])
ex_p, ey_p = c.calculate_scattered_field(r, np.array([np.pi / 4]))       # point (rho=3, phi=45deg)
ex_m, ey_m = c.calculate_scattered_field(-r, np.array([np.pi / 4 + np.pi]))  # same point written as rho=-3, phi=225deg
print('same point, rho>0:', ex_p, ey_p)
print('same point, rho<0:', ex_m, ey_m)
bad = bad or not np.allclose(ey_p, ey_m)
print('VIOLATION' if bad else 'ok')
sys.exit(1 if bad else 0)
