"""C08 / finding 1: the lens theories (MieLens, AberratedMieLens, Lens(Mie)) return
the COMPLEX CONJUGATE of the scattered field in holopy's (Bohren & Huffman,
exp(-i w t)) convention that every other theory (Mie, Multisphere, Tmatrix...)
and hp.propagate use.  calc_holo with a real polarisation cannot see it
(|E + ref|^2 is the same for E and conj(E)), calc_field can.

Three independent checks:
 (a) far from focus and well inside the aperture cone the lens field must tend
     to the plain Mie field; it tends to conj(Mie field) instead;
 (b) hp.propagate brings the Mie field of a sphere at z=+10 to a focus at
     d=+10; the MieLens / Lens field focuses at d=-10 (as if the sphere
     were on the other side of the detector);
 (c) an in-focus non-absorbing sphere with n > n_medium is a phase-delaying
     object: E_total = 1 + i*delta, so Im(E_scat) > 0 for exp(-iwt); the lens
     theories give Im(E_scat) < 0.
"""
import sys, os; sys.path.insert(0, os.getcwd())
import warnings; warnings.filterwarnings('ignore')
import numpy as np, xarray as xr
np.NaN = np.nan
_upd = xr.Dataset.update
def _update(self, *a, **k):          # sandbox xarray: Dataset.update returns None
    _upd(self, *a, **k); return self
xr.Dataset.update = _update
import holopy as hp
from holopy.scattering import calc_holo, calc_field, Sphere, Mie, MieLens, AberratedMieLens
from holopy.scattering.theory import Lens
print(hp.__file__)

nm, wl = 1.33, 0.66
k = 2 * np.pi * nm / wl
acc = {'interpolate_integrals': True, 'quad_npts': 400}
theories = [('MieLens', MieLens(1.3, acc)),
            ('AberratedMieLens(0)', AberratedMieLens(0.0, 1.3, acc)),
            ('Lens(Mie)', Lens(1.3, Mie(), 200, 120))]
bad = False

# (a) far from focus, inside the cone
det = hp.detector_grid(shape=(31, 31), spacing=0.25)
s = Sphere(n=1.59 + 0.05j, r=0.6, center=(3.75, 3.75, 25.0))
fm = calc_field(det, s, nm, wl, (0.6, 0.8), theory=Mie(False, False))
for name, th in theories:
    fl = calc_field(det, s, nm, wl, (0.6, 0.8), theory=th)
    a = fm.sel(vector=['x', 'y']).values; b = fl.sel(vector=['x', 'y']).values
    d_same = abs(b - a).max() / abs(a).max()
    d_conj = abs(b - np.conj(a)).max() / abs(a).max()
    print('(a) %-20s |E_lens - E_mie|/max = %.3f   |E_lens - conj(E_mie)|/max = %.3f'
          % (name, d_same, d_conj))
    if d_conj < 0.15 and d_same > 1.0:
        bad = True

# (b) numerical refocusing with hp.propagate
det = hp.detector_grid(shape=(128, 128), spacing=0.1)
s = Sphere(n=1.59, r=0.5, center=(6.4, 6.4, 10.0))
for name, th in [('Mie', Mie(False, False)), ('MieLens', MieLens(1.2, {'interpolate_integrals': True})),
                 ('Lens(Mie)', Lens(1.2, Mie(), 60, 60))]:
    f = calc_field(det, s, nm, wl, (1, 0), theory=th).sel(vector='x')
    f = f.drop_vars('vector')
    peak = {}
    for d in (10.0, -10.0):
        p = hp.propagate(f, d, medium_index=nm, illum_wavelen=wl)
        peak[d] = float(abs(p).max())
    print('(b) %-10s max|E| on detector %.3f ; after propagate(+10): %.3f ; after propagate(-10): %.3f'
          % (name, float(abs(f).max()), peak[10.0], peak[-10.0]))
    if name != 'Mie' and peak[-10.0] > 3 * peak[10.0]:
        bad = True

# (c) in-focus phase object
pt = hp.detector_points(x=np.array([0.0]), y=np.array([0.0]), z=0.0)
s = Sphere(n=1.45, r=0.3 / k, center=(0, 0, 0))
for name, th in theories:
    e = complex(calc_field(pt, s, nm, wl, (1, 0), theory=th).values[0][0])
    print('(c) %-20s in-focus E_scat,x = %+.3e %+.3ej  (phase-delaying object needs Im > 0)'
          % (name, e.real, e.imag))
    if e.imag < 0:
        bad = True

# (d) a real-valued consequence: detector plane not at z = 0.  The common phase
# exp(-i k z_det) multiplies E for Mie but conj(E) for the lens theories, so
# the holograms (which agree at z_det = 0) move in opposite directions.
xs = np.linspace(-1.5, 1.5, 13)
for zd in (0.0, 0.124):   # 0.124 = a quarter wavelength in the medium
    pts = hp.detector_points(x=xs, y=0 * xs, z=zd)
    s = Sphere(n=1.59, r=0.5, center=(0.0, 0.0, 15.0 + zd))   # same distance to the detector
    hm = calc_holo(pts, s, nm, wl, (1, 0), theory=Mie(False, False)).values
    hl = calc_holo(pts, s, nm, wl, (1, 0), theory=MieLens(1.2, acc)).values
    hL = calc_holo(pts, s, nm, wl, (1, 0), theory=Lens(1.2, Mie(), 200, 100)).values
    c1 = np.corrcoef(hm, hl)[0, 1]; c2 = np.corrcoef(hm, hL)[0, 1]
    print('(d) z_det = %.3f: correlation of Mie hologram with MieLens %.3f, with Lens(Mie) %.3f ; centre pixel Mie %.3f MieLens %.3f'
          % (zd, c1, c2, hm[6], hl[6]))
    if zd != 0 and c1 < 0.8:
        bad = True

print('VIOLATION: lens-theory fields are conjugated' if bad else 'ok')
sys.exit(1 if bad else 0)
