"""C20 repro 2: Spheres built from a one-shot iterable (generator / map object) of
overlapping Sphere objects.  The constructor's type-check loop consumes the
iterable, the exhausted iterator is then stored as .scatterers, so the cluster is
silently empty: no OverlapWarning, overlaps == [], largest_overlap() == 0."""
import sys, os; sys.path.insert(0, os.getcwd())
import warnings
import numpy as np
import holopy
from holopy.scattering import Sphere, Spheres
from holopy.scattering.errors import OverlapWarning
print(holopy.__file__)
centers = [(0, 0, 0), (.6, 0, 0), (5, 0, 0)]          # first two overlap by 0.4
def build(arg):
    with warnings.catch_warnings(record=True) as w:
        warnings.simplefilter('always')
        sc = Spheres(arg)
    return sc, sum(issubclass(x.category, OverlapWarning) for x in w)
ref, nref = build([Sphere(n=1.5, r=.5, center=c) for c in centers])
print('list     : warnings', nref, 'overlaps', ref.overlaps, 'largest', ref.largest_overlap())
bad = False
for name, arg in (('generator', (Sphere(n=1.5, r=.5, center=c) for c in centers)),
                  ('map', map(lambda c: Sphere(n=1.5, r=.5, center=c), centers))):
    sc, nw = build(arg)
    print('%-9s: warnings' % name, nw, 'overlaps', sc.overlaps, 'largest', sc.largest_overlap(),
          'members seen', len(list(sc.scatterers)))
    if nw != nref or sc.overlaps != ref.overlaps or sc.largest_overlap() != ref.largest_overlap():
        bad = True
print('VIOLATION' if bad else 'ok')
sys.exit(1 if bad else 0)
