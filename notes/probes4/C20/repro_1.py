"""C20 repro 1: Scatterer.bounds / voxelate of a Scatterer built from an indicator
function (the construction shown in docs/source/tutorial/dda_tutorial.rst) leave
out part of the shape: find_bounds only probes the three coordinate axes through
the centre.  Shown for (a) the tutorial's own dumbbell (union of two spheres) and
(b) a CONVEX ellipsoid whose long axis is tilted 45 degrees in the x-y plane."""
import sys, os; sys.path.insert(0, os.getcwd())
import numpy as np
import holopy
from holopy.scattering import Scatterer, Sphere
print(holopy.__file__)
rng = np.random.default_rng(0)
fail = False

def check(name, scat, analytic_volume, inside, cloud):
    global fail
    b = np.array(scat.bounds, dtype=float)
    ins = cloud[inside(cloud)]
    assert (scat.contains(ins)).all()          # containment itself is right
    outside_box = ((ins < b[:, 0]) | (ins > b[:, 1])).any(axis=1)
    print(name, 'bounds', np.round(b, 4).tolist())
    print('  true extent of interior points', np.round(ins.min(0), 3), np.round(ins.max(0), 3))
    print('  interior points outside the reported box: %d of %d' % (outside_box.sum(), len(ins)))
    for sp in (.05, .025, .0125):
        vol = (scat.voxelate(sp) != 0).sum() * sp**3
        print('  voxel volume at spacing %g: %.4f   (analytic %.4f)' % (sp, vol, analytic_volume))
    if outside_box.any() or abs(vol - analytic_volume) > 0.05 * analytic_volume:
        fail = True

# (a) verbatim from the DDA tutorial
s1 = Sphere(r=.5, center=(0, -.4, 0))
s2 = Sphere(r=.5, center=(0, .4, 0))
dumbbell = Scatterer(lambda point: np.logical_or(s1.contains(point), s2.contains(point)), 1.59, (5, 5, 5))
d, R = .8, .5
lens = np.pi * (2*R - d)**2 * (d*d + 4*d*R) / (12*d)
cloud = rng.uniform(-1, 1, (20000, 3)) + 5
check('dumbbell', dumbbell, 2 * 4/3*np.pi*R**3 - lens,
      lambda p: s1.contains(p - 5) | s2.contains(p - 5), cloud)

# (b) convex: ellipsoid with semi-axes (1, .2, .2), long axis along (1,1,0)/sqrt2
c, s = np.cos(np.pi/4), np.sin(np.pi/4)
Rm = np.array([[c, -s, 0], [s, c, 0], [0, 0, 1]])
axes = np.array([1., .2, .2])
ind = lambda p: ((np.asarray(p) @ Rm / axes)**2).sum(-1) < 1
ell = Scatterer(ind, 1.59, (0, 0, 0))
cloud = rng.uniform(-1, 1, (20000, 3))
check('tilted convex ellipsoid', ell, 4/3*np.pi*axes.prod(), ind, cloud)

print('VIOLATION' if fail else 'ok')
sys.exit(1 if fail else 0)
