"""C20 repro 3 (minor): a CSG scatterer accepts an index-less, purely geometric
operand (the usage the DDA tutorial recommends) only in FIRST position.  The
symmetric operations Union/Intersection are accepted in one operand order and
rejected in the other, and Difference(body_with_n, cutter_without_n) -- the natural
way to cut a shape -- is rejected with 'must not have different indicies'."""
import sys, os; sys.path.insert(0, os.getcwd())
import numpy as np
import holopy
from holopy.scattering.scatterer import Sphere, Ellipsoid, Union, Difference, Intersection
from holopy.scattering.errors import InvalidScatterer
print(holopy.__file__)
body = Sphere(n=1.59, r=.5, center=(0, 0, 0))
cutter = Ellipsoid(r=(.3, .4, .5), center=(.4, 0, 0))          # geometry only, n=None
pts = np.random.default_rng(0).uniform(-1, 1, (2000, 3))
bad = False
for cls in (Union, Intersection, Difference):
    res = {}
    for order, (a, b) in (('geom first', (cutter, body)), ('geom second', (body, cutter))):
        try:
            u = cls(a, b)
            res[order] = 'accepted, n=%r, %d points inside' % (u.n, u.contains(pts).sum())
        except InvalidScatterer as e:
            res[order] = 'REJECTED: ' + str(e).splitlines()[-1]
    print(cls.__name__, res)
    if ('REJECTED' in res['geom first']) != ('REJECTED' in res['geom second']):
        bad = True
print('VIOLATION' if bad else 'ok')
sys.exit(1 if bad else 0)
