"""C12 repro 4 (low severity): per-channel noise is not applied channel by
channel in the normalisation of the Gaussian log-likelihood.  Model._lnlike
uses  N * mean(log(noise_sd))  over ALL entries of the noise array, whereas the
residuals are divided by the noise entry of their own channel (label
alignment).  As soon as the labelled noise array does not have exactly the
channels of the data (one channel picked out of a two-colour image, or a
calibration array that lists more channels than were recorded) lnlike is not
the Gaussian log-density of the residuals any more.  With the channel picked
by a scalar .sel() the hologram of the other channel is even compared with
the data of the selected one.

Run from the checkout root:  /venv/bin/python /tmp/probe4_out/C12/repro_4.py
"""
import sys, os; sys.path.insert(0, os.getcwd())
import warnings; warnings.filterwarnings('ignore')
import numpy as np
import holopy as hp
from holopy.scattering import Sphere, calc_holo
from holopy.inference import prior, AlphaModel
from holopy.core.metadata import detector_grid, update_metadata

print('holopy from', hp.__file__)
wl = {'red': 0.66, 'green': 0.52}
pol = {'red': (1, 0), 'green': (0, 1)}
noise = {'red': 0.05, 'green': 0.02}
det2 = detector_grid((6, 5), (0.1, 0.15),
                     extra_dims={'illumination': ['red', 'green']})
det2 = update_metadata(det2, medium_index=1.33, illum_wavelen=wl,
                       illum_polarization=pol, noise_sd=noise)
truth = Sphere(n=1.59, r=0.5, center=(0.3, 0.4, 5))
rng = np.random.default_rng(3)
data = calc_holo(det2, truth, scaling=0.8)
data = data + 0.03 * rng.standard_normal(data.shape)
data.attrs = dict(det2.attrs)

model = AlphaModel(Sphere(n=prior.Uniform(1.5, 1.7), r=0.5,
                          center=[0.3, 0.4, prior.Uniform(4, 6)]), alpha=0.8)
pars = [1.57, 5.1]


def gaussian_logpdf(channel, image):
    single = detector_grid((6, 5), (0.1, 0.15))
    holo = calc_holo(single, Sphere(n=pars[0], r=0.5, center=(0.3, 0.4, pars[1])),
                     medium_index=1.33, illum_wavelen=wl[channel],
                     illum_polarization=pol[channel], scaling=0.8)
    res = ((holo - image) / noise[channel]).values
    n = res.size
    return (-n / 2 * np.log(2 * np.pi) - n * np.log(noise[channel])
            - 0.5 * (res**2).sum())


full_expected = (gaussian_logpdf('red', data.sel(illumination='red', drop=True))
                 + gaussian_logpdf('green', data.sel(illumination='green', drop=True)))
print('two channels : lnlike', model.lnlike(pars, data), ' expected', full_expected)

red_expected = gaussian_logpdf('red', data.sel(illumination='red', drop=True))
red_kept = data.sel(illumination=['red'])          # keeps a length-1 axis
got_kept = model.lnlike(pars, red_kept)
print('red only, axis kept   : lnlike', got_kept, ' expected', red_expected)
red_scalar = data.sel(illumination='red')          # scalar coordinate
got_scalar = model.lnlike(pars, red_scalar)
print('red only, scalar .sel : lnlike', got_scalar, ' expected', red_expected,
      ' forward dims', model.forward(pars, red_scalar).dims)

violated = (abs(model.lnlike(pars, data) - full_expected) < 1e-6
            and (abs(got_kept - red_expected) > 1e-6
                 or abs(got_scalar - red_expected) > 1e-6))
print('VIOLATION' if violated else 'ok')
sys.exit(1 if violated else 0)
