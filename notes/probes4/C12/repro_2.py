"""C12 repro 2: a prior object used both inside the scatterer and in another
section of the model (optics / theory / alpha) is not recognised as one tied
parameter.  The model silently gets two independent parameters, the prior is
counted twice in lnprior, and the forward hologram is computed with values
that no longer obey the relation the user wrote down.  The same sharing
between two non-scatterer sections (e.g. alpha and lens_angle) IS recognised.

Run from the checkout root:  /venv/bin/python /tmp/probe4_out/C12/repro_2.py
"""
import sys, os; sys.path.insert(0, os.getcwd())
import warnings; warnings.filterwarnings('ignore')
import numpy as np
import holopy as hp
from holopy.scattering import Sphere, MieLens
from holopy.inference import prior, AlphaModel

print('holopy from', hp.__file__)
U = prior.Uniform

# sphere index defined as a fixed contrast above the (unknown) medium index
n_medium = U(1.30, 1.40, name='n_medium')
sphere = Sphere(n=n_medium + 0.25, r=0.5, center=[0.3, 0.4, U(3, 8, name='z')])
model = AlphaModel(sphere, alpha=1.0, medium_index=n_medium, noise_sd=0.05,
                   illum_wavelen=0.66, illum_polarization=(1, 0))
print('parameter names:', model._parameter_names)
print('expected       : one parameter for n_medium plus z (2 parameters)')

violated = False
if len(model._parameters) != 2:
    violated = True
    pars = [p.guess for p in model._parameters]
    pars[0] = 1.31       # first copy  -> used for the sphere index
    pars[-1] = 1.39      # second copy -> used for the medium index
    d = dict(zip(model._parameter_names, pars))
    scat = model.scatterer_from_parameters(d)
    optics = model._find_optics(pars, None)
    print('values', d)
    print('sphere n =', scat.n, ' medium_index =', optics['medium_index'],
          ' -> contrast', scat.n - optics['medium_index'], '(should be 0.25)')
    print('lnprior  =', model.lnprior(d),
          ' single-parameter value would be',
          np.log(1 / 0.1) + np.log(1 / 5))

# for comparison: sharing between two non-scatterer sections is detected
a = U(0.5, 1.0)
m2 = AlphaModel(Sphere(n=1.5, r=0.5, center=[0, 0, U(3, 8)]), alpha=a,
                theory=MieLens(lens_angle=a))
print('alpha & lens_angle sharing one prior ->', m2._parameter_names)
# and sharing between the scatterer and alpha is not
m3 = AlphaModel(Sphere(n=1.5, r=a, center=[0, 0, U(3, 8)]), alpha=a)
print('sphere r & alpha sharing one prior  ->', m3._parameter_names)
if len(m3._parameters) != 2:
    violated = True

print('VIOLATION' if violated else 'ok')
sys.exit(1 if violated else 0)
