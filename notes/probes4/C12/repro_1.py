"""C12 repro 1: hp.fit with the default NmpfitStrategy does not maximise the
documented posterior (prior x Gaussian likelihood) when a non-uniform prior is
present: the prior term enters the least-squares cost with half its weight
(a Gaussian prior acts as if its sd were sqrt(2) times larger).

Run from the checkout root:  /venv/bin/python /tmp/probe4_out/C12/repro_1.py
"""
import sys, os; sys.path.insert(0, os.getcwd())
import warnings; warnings.filterwarnings('ignore')
import numpy as np
np.NaN = np.nan          # sandbox numpy 2.x work-around needed by nmpfit
import holopy as hp
from holopy.scattering import Sphere
from holopy.inference import prior, ExactModel, NmpfitStrategy
from holopy.core.metadata import detector_grid, update_metadata
from scipy.optimize import minimize_scalar

print('holopy from', hp.__file__)
sigma = 0.5
det = detector_grid((4, 4), 0.1)
det = update_metadata(det, medium_index=1.33, illum_wavelen=0.66,
                      illum_polarization=(1, 0), noise_sd=sigma)
rng = np.random.default_rng(1)
data = det + 2.0 + sigma * rng.standard_normal(det.shape)
data.attrs = dict(det.attrs)


def constant_image(detector, scatterer, **kw):
    # forward model that is linear in the single free parameter, so that the
    # maximum of the posterior is known in closed form
    return detector * 0 + scatterer.r


mu, sd = 1.0, 0.1
model = ExactModel(Sphere(n=1.5, r=prior.Gaussian(mu, sd), center=(0, 0, 1)),
                   calc_func=constant_image)
result = hp.fit(data, model, strategy=NmpfitStrategy())
p_fit = result.parameters['r']

N = data.size
p_map = (data.values.sum() / sigma**2 + mu / sd**2) / (N / sigma**2 + 1 / sd**2)
p_half = ((data.values.sum() / sigma**2 + mu / (2 * sd**2))
          / (N / sigma**2 + 1 / (2 * sd**2)))
numeric = minimize_scalar(lambda p: -model.lnposterior([p], data),
                          bracket=(0.5, 2.5), tol=1e-12).x
print('analytic maximum of model.lnposterior        :', p_map)
print('numerical maximum of model.lnposterior       :', numeric)
print('value returned by hp.fit (NmpfitStrategy)    :', p_fit)
print('maximum if the prior sd were sqrt(2) larger  :', p_half)
print('lnposterior at the fit  :', model.lnposterior([p_fit], data))
print('lnposterior at the MAP  :', model.lnposterior([p_map], data))
violated = abs(p_fit - p_map) > 1e-3 and abs(p_fit - p_half) < 1e-5
print('VIOLATION' if violated else 'ok')
sys.exit(1 if violated else 0)
