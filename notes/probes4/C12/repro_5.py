"""C12 side finding (state carried between calls): EmceeStrategy.sample stores
the walker start positions it drew from the FIRST model's priors on the
strategy object (self.walker_initial_pos) and silently reuses them for every
later call, also for a different model whose priors live somewhere else.
(CmaStrategy.fit does the same with self.walker_initial_pos and self.popsize.)

emcee itself is not installed in the sandbox, so holopy.inference.emcee.
sample_emcee is replaced by a recorder that only notes the start positions it
is handed (it is the last step of EmceeStrategy.sample and does not influence
which positions are passed).

Run from the checkout root:  /venv/bin/python /tmp/probe4_out/C12/repro_5.py
"""
import sys, os; sys.path.insert(0, os.getcwd())
import warnings; warnings.filterwarnings('ignore')
import numpy as np
import holopy as hp
import holopy.inference.emcee as hemcee
from holopy.scattering import Sphere
from holopy.inference import prior, AlphaModel, EmceeStrategy
from holopy.core.metadata import detector_grid, update_metadata

print('holopy from', hp.__file__)
received = []


class Stop(Exception):
    pass


def recorder(model, data, nwalkers, nsamples, walker_initial_pos, **kw):
    received.append(np.array(walker_initial_pos))
    raise Stop()


hemcee.sample_emcee = recorder

det = detector_grid((4, 4), 0.1)
data = update_metadata(det + 1.0, medium_index=1.33, illum_wavelen=0.66,
                       illum_polarization=(1, 0), noise_sd=0.05)
model_a = AlphaModel(Sphere(n=1.5, r=0.5,
                            center=[0.2, 0.2, prior.Uniform(4, 6)]), alpha=1)
model_b = AlphaModel(Sphere(n=1.5, r=0.5,
                            center=[0.2, 0.2, prior.Uniform(40, 60)]), alpha=1)
strategy = EmceeStrategy(nwalkers=6, nsamples=2, parallel=None)
for model in (model_a, model_b):
    try:
        hp.sample(data, model, strategy)
    except Stop:
        pass
za, zb = received[0][:, 0], received[1][:, 0]
print('start z for model_a (prior 4..6)  :', np.round(za, 2))
print('start z for model_b (prior 40..60):', np.round(zb, 2))
violated = bool(np.all((zb < 40) | (zb > 60)))
print('VIOLATION: second model started from the first model\'s draws'
      if violated else 'ok')
sys.exit(1 if violated else 0)
