"""C12 repro 3: Model.lnposterior / Model.forward on a Spheroid (or Cylinder)
whose rotation prior admits a negative angle terminates the whole Python
process, silently and with exit status 0, instead of returning
lnprior + lnlike (or -inf).  The compiled T-matrix code executes a Fortran
STOP for beta (rotation[1]) outside [0, 180] deg or alpha (rotation[2])
outside [0, 360] deg; holopy passes the angles on unnormalised and never
raises the TmatrixFailure that AlphaModel._forward is written to catch.

The calculation is run in a child process so that this script survives.
Run from the checkout root:  /venv/bin/python /tmp/probe4_out/C12/repro_3.py
"""
import sys, os, subprocess, textwrap

child = textwrap.dedent('''
    import sys, os; sys.path.insert(0, os.getcwd())
    import warnings; warnings.filterwarnings('ignore')
    import numpy as np
    import holopy as hp
    from holopy.scattering import Spheroid, calc_holo
    from holopy.inference import prior, AlphaModel
    from holopy.core.metadata import detector_grid, update_metadata
    beta = float(sys.argv[1])
    det = detector_grid((5, 4), 0.1)
    det = update_metadata(det, medium_index=1.33, illum_wavelen=0.66,
                          illum_polarization=(1, 0), noise_sd=0.05)
    data = det + 1.0
    data.attrs = dict(det.attrs)
    # tilt of the symmetry axis known to be small, of either sign
    tilt = prior.Gaussian(0.0, 0.3, name='tilt')
    model = AlphaModel(
        Spheroid(n=1.55, r=(0.3, 0.5), rotation=(0, tilt, 0),
                 center=(0.3, 0.4, prior.Uniform(3, 8, name='z'))),
        alpha=0.8)
    pars = {'tilt': beta, 'z': 5.2}
    print('lnprior', model.lnprior(pars), flush=True)
    print('lnposterior', model.lnposterior(pars, data), flush=True)
    print('FINISHED', flush=True)
''')

violated = False
for beta in (0.3, -0.3):
    proc = subprocess.run([sys.executable, '-c', child, str(beta)],
                          capture_output=True, text=True, cwd=os.getcwd())
    finished = 'FINISHED' in proc.stdout
    print('tilt = %+.1f rad: child exit status %d, finished normally: %s'
          % (beta, proc.returncode, finished))
    print('    stdout:', proc.stdout.strip().replace('\n', ' | '))
    if proc.stderr.strip():
        print('    stderr:', proc.stderr.strip()[-300:])
    if not finished and proc.returncode == 0:
        violated = True

print('VIOLATION: the interpreter was terminated silently (exit status 0) '
      'inside lnposterior' if violated else 'ok')
sys.exit(1 if violated else 0)
