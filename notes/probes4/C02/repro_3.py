"""C02 repro 3: a sphere described by layer thicknesses is not interchangeable
with the same sphere described by outer radii: LayeredSphere.num_domains raises
(ValueError: truth value of an array ...) where Sphere.num_domains returns the
number of layers; scatterer.csg (Union / Difference / Intersection) reads it.

Sphere.num_domains (sphere.py:81) tests `if self.n:`; LayeredSphere.__init__
stores n as a numpy array (ensure_array), whose truth value is ambiguous.
"""
import sys, os; sys.path.insert(0, os.getcwd())
import warnings
warnings.simplefilter('ignore')
import holopy
from holopy.scattering import Sphere, LayeredSphere
from holopy.scattering.scatterer.csg import Union

print('holopy from', holopy.__file__)
c = (0.0, 0.0, 5.0)
by_radius = Sphere(n=[1.59, 1.45], r=[0.3, 0.5], center=c)
by_thickness = LayeredSphere(n=[1.59, 1.45], t=[0.3, 0.2], center=c)
other = Sphere(n=1.5, r=0.2, center=(1.0, 0.0, 5.0))
bad = False
print('Sphere(r=[..]).num_domains        =', by_radius.num_domains)
try:
    print('LayeredSphere(t=[..]).num_domains =', by_thickness.num_domains)
except Exception as e:
    print('LayeredSphere(t=[..]).num_domains raised', repr(e)[:110])
    bad = True
for name, s in (('Sphere', by_radius), ('LayeredSphere', by_thickness)):
    try:
        Union(s, other)
        print('Union(%s, sphere): built' % name)
    except Exception as e:
        print('Union(%s, sphere): %s' % (name, repr(e)[:110]))
if bad:
    print('VIOLATION: thickness and outer-radius descriptions are not '
          'equivalent for num_domains')
    sys.exit(1)
print('no violation')
sys.exit(0)
