"""C02 repro 4: the lens theory built on the pure-Python Mie series (MieLens)
announces that it can handle a layered sphere (can_handle -> True) and then dies
inside numpy with an unrelated TypeError; Lens(theory=Mie()) computes the same
image without trouble.

mielens.py:68  can_handle returns isinstance(scatterer, Sphere); it should also
require a scalar n and r (as Tmatrix.can_handle now does), since
MieLensCalculator / MieScatteringMatrix only know a homogeneous sphere.
"""
import sys, os; sys.path.insert(0, os.getcwd())
import warnings
import numpy as np
warnings.simplefilter('ignore')
import holopy
from holopy.core import detector_grid
from holopy.scattering import Sphere, LayeredSphere, Mie, MieLens, calc_field
from holopy.scattering.theory import Lens

print('holopy from', holopy.__file__)
det = detector_grid(shape=(4, 3), spacing=(0.2, 0.3))
c = (0.3, 0.2, 4.0)
kw = {'interpolate_integrals': False}     # sandbox numpy has no ndarray.ptp
mielens = MieLens(0.8, calculator_accuracy_kwargs=kw)
simple = Sphere(n=1.59, r=0.5, center=c)
bad = False
ref = calc_field(det, simple, 1.33, 0.66, (1, 0), theory=mielens).values
for name, s in (('Sphere(n=[n, n], r=[.2, .5])',
                 Sphere(n=[1.59, 1.59], r=[0.2, 0.5], center=c)),
                ('LayeredSphere(n=[n, n], t=[.2, .3])',
                 LayeredSphere(n=[1.59, 1.59], t=[0.2, 0.3], center=c))):
    print(name, ': MieLens.can_handle ->', mielens.can_handle(s))
    f_lens = calc_field(det, s, 1.33, 0.66, (1, 0),
                        theory=Lens(0.8, Mie())).values
    print('   Lens(Mie) vs MieLens of the equivalent simple sphere: %.2e'
          % (np.abs(f_lens - ref).max() / np.abs(ref).max()))
    try:
        f = calc_field(det, s, 1.33, 0.66, (1, 0), theory=mielens).values
        print('   MieLens computed; diff to simple sphere %.2e'
              % (np.abs(f - ref).max() / np.abs(ref).max()))
    except Exception as e:
        print('   MieLens raised', repr(e)[:100])
        if mielens.can_handle(s) and not type(e).__name__.startswith(
                ('TheoryNotCompatible', 'InvalidScatterer')):
            bad = True
if bad:
    print('VIOLATION: can_handle is True but the calculation fails with an '
          'unrelated TypeError')
    sys.exit(1)
print('no violation')
sys.exit(0)
