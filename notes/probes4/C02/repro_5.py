"""C02 repro 5 (anchored file mielensfunctions.py, outside the C02 statement):
AberratedMieLensCalculator builds the aberration phase with Legendre
polynomials (numpy legval) although the docstring (and docs/users/theories.rst)
define the k-th coefficient as the amplitude of a pure power of
(cos(theta) - 1).  With three or more coefficients a 7th-order-only aberration
[0, 0, c] leaks -c/2 into the 3rd order.
"""
import sys, os; sys.path.insert(0, os.getcwd())
import warnings
import numpy as np
warnings.simplefilter('ignore')
import holopy
from holopy.scattering.theory.mielensfunctions import (
    AberratedMieLensCalculator)

print('holopy from', holopy.__file__)
kw = dict(particle_kz=10., index_ratio=1.2, size_parameter=5., lens_angle=0.9,
          interpolate_integrals=False)
bad = False
for ab in ([3.0], [0., 3.0], [0., 0., 3.0]):
    calc = AberratedMieLensCalculator(spherical_aberration=ab, **kw)
    x = calc._quad_pts - 1                      # cos(theta) - 1
    phase = calc._calculate_aberrated_phase()
    k = len(ab) - 1
    power = 3.0 * x**(2 + k)
    ok = np.allclose(phase, power)
    print(ab, 'phase is a pure power of (cos theta - 1):', ok,
          '| max |phase| %.4f, pure power %.4f'
          % (np.abs(phase).max(), np.abs(power).max()))
    if not ok:
        leak = np.allclose(phase, 3.0 * x**2 * (1.5 * x**2 - 0.5))
        print('    equals c x^2 P_2(x) = c (1.5 x^4 - 0.5 x^2):', leak)
        bad = True
if bad:
    print('VIOLATION: higher-order coefficient changes the lower orders')
    sys.exit(1)
print('no violation')
sys.exit(0)
