"""C02 repro 1: Multisphere drops a resonant Mie order of a single sphere.

scsmfo_min.for:mie1 leaves its series at the FIRST order whose contribution to
Q_ext is below qeps1 (default 1e-5).  The Mie series is not monotone: a narrow
morphology-dependent resonance sits at an order n with x < n < m x, i.e. after
the non-resonant terms have already decayed below 1e-5.  The loop exits before
it gets there, the resonant coefficient (|b_17| = 0.92 here) is returned as 0,
and the one-sphere Multisphere field / scattering matrix / cross sections are
off by 20 % from Mie and from the textbook series.
"""
import sys, os; sys.path.insert(0, os.getcwd())
import warnings
import numpy as np
from scipy.special import spherical_jn as jn, spherical_yn as yn

warnings.simplefilter('ignore')
import holopy
from holopy.core import detector_points
from holopy.scattering import (Sphere, Spheres, Mie, Multisphere,
                               calc_scat_matrix, calc_cross_sections)
from holopy.scattering.theory.mie_f import scsmfo_min

print('holopy from', holopy.__file__)


def textbook_S(m, x, theta, nmax):
    n = np.arange(1, nmax + 1)
    mx = m * x
    psi = lambda z: z * jn(n, z)
    dpsi = lambda z: z * jn(n, z, True) + jn(n, z)
    xi = lambda z: z * (jn(n, z) + 1j * yn(n, z))
    dxi = lambda z: (z * (jn(n, z, True) + 1j * yn(n, z, True))
                     + jn(n, z) + 1j * yn(n, z))
    a = ((m * psi(mx) * dpsi(x) - psi(x) * dpsi(mx)) /
         (m * psi(mx) * dxi(x) - xi(x) * dpsi(mx)))
    b = ((psi(mx) * dpsi(x) - m * psi(x) * dpsi(mx)) /
         (psi(mx) * dxi(x) - m * xi(x) * dpsi(mx)))
    out = []
    for t in theta:
        mu = np.cos(t)
        pi = np.zeros(nmax + 1); tau = np.zeros(nmax + 1)
        pi[1] = 1; tau[1] = mu
        for k in range(2, nmax + 1):
            pi[k] = (2*k-1)/(k-1)*mu*pi[k-1] - k/(k-1)*pi[k-2]
            tau[k] = k*mu*pi[k] - (k+1)*pi[k-1]
        f = (2*n+1)/(n*(n+1))
        out.append([(f*(a*pi[1:] + b*tau[1:])).sum(),
                    (f*(a*tau[1:] + b*pi[1:])).sum()])
    return np.array(out), a, b


bad = False
# medium index 1, wavelength 2 pi  ->  k = 1, size parameter = radius
cases = [(10.983806104225545, 1.9478102502879338),   # b_17 resonance
         (5.382957460353264, 2.529774362157566)]     # a_9 resonance
theta = np.linspace(0, np.pi, 19)
det = detector_points(theta=theta, phi=0.3 + 0 * theta)
for x, m in cases:
    sph = Sphere(n=m, r=x, center=(0, 0, 0))
    S_ref, a, b = textbook_S(m, x, theta, int(x + 4.05 * x**(1/3) + 2) + 3)
    S_mie = calc_scat_matrix(det, sph, 1.0, 2 * np.pi, theory=Mie()).values
    S_ms = calc_scat_matrix(det, Spheres([sph]), 1.0, 2 * np.pi,
                            theory=Multisphere()).values
    S_ms8 = calc_scat_matrix(det, Spheres([sph]), 1.0, 2 * np.pi,
                             theory=Multisphere(qeps1=1e-8)).values
    scale = np.abs(S_ref).max()
    e_mie = max(np.abs(S_mie[:, 1, 1] - S_ref[:, 0]).max(),
                np.abs(S_mie[:, 0, 0] - S_ref[:, 1]).max()) / scale
    e_ms = max(np.abs(S_ms[:, 1, 1] - S_ref[:, 0]).max(),
               np.abs(S_ms[:, 0, 0] - S_ref[:, 1]).max()) / scale
    e_ms8 = max(np.abs(S_ms8[:, 1, 1] - S_ref[:, 0]).max(),
                np.abs(S_ms8[:, 0, 0] - S_ref[:, 1]).max()) / scale
    # what the single-sphere routine of the multisphere code returns
    an = np.zeros((2, 32), dtype=complex, order='F')
    scsmfo_min.mie1(x, m, 0.0, 0, 1e-5, 0., 0., an)
    last = int(np.max(np.nonzero(np.abs(an).max(axis=0))[0])) + 1
    nres = int(np.argmax(np.where(np.arange(1, len(a) + 1) > last,
                                  np.maximum(abs(a), abs(b)), 0))) + 1
    c_mie = calc_cross_sections(sph, 1.0, 2 * np.pi, (1, 0), theory=Mie())
    c_ms = calc_cross_sections(sph, 1.0, 2 * np.pi, (1, 0),
                               theory=Multisphere())
    print('x = %.6f  m = %.6f' % (x, m))
    print('  rel. error of S1,S2 vs textbook:  Mie %.1e   Multisphere() %.1e'
          '   Multisphere(qeps1=1e-8) %.1e' % (e_mie, e_ms, e_ms8))
    print('  mie1 stops after order %d; dropped order %d has |a|=%.3f |b|=%.3f'
          % (last, nres, abs(a[nres - 1]), abs(b[nres - 1])))
    print('  C_ext  Mie %.2f   Multisphere %.2f' %
          (float(c_mie.values[2]), float(c_ms.values[2])))
    if e_ms > 0.05 and e_mie < 1e-6:
        bad = True

if bad:
    print('VIOLATION: one-sphere Multisphere disagrees with Mie and the '
          'textbook series by > 5 % (resonant order dropped by mie1)')
    sys.exit(1)
print('no violation')
sys.exit(0)
