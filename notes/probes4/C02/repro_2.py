"""C02 repro 2: calc_scat_matrix(LayeredSphere, theory=Tmatrix()) silently
returns the amplitude scattering matrix of the BARE CORE.

The round-4 repair ("Tmatrix computing the bare core of a layered sphere") was
put into Tmatrix.can_handle, which only the field path
(ImageFormation._calculate_single_color_scattered_field) consults.
ImageFormation.calculate_scattering_matrix calls theory.raw_scat_matrs directly,
and Tmatrix._parse_args hands the arrays scatterer.r / scatterer.n of a
LayeredSphere to the compiled routine, which reads their first element only.
"""
import sys, os; sys.path.insert(0, os.getcwd())
import warnings
import numpy as np

warnings.simplefilter('ignore')
import holopy
from holopy.core import detector_points
from holopy.scattering import (Sphere, LayeredSphere, Mie, Tmatrix,
                               calc_scat_matrix)

print('holopy from', holopy.__file__)
theta = np.linspace(0.1, 3.0, 7)
det = detector_points(theta=theta, phi=np.zeros_like(theta))   # azimuth 0
centre = (0, 0, 5.)
layered = LayeredSphere(n=[1.59, 1.40], t=[0.3, 0.3], center=centre)
by_radius = Sphere(n=[1.59, 1.40], r=[0.3, 0.6], center=centre)
core = Sphere(n=1.59, r=0.3, center=centre)

S_mie_layered = calc_scat_matrix(det, layered, 1.33, 0.66, theory=Mie()).values
S_mie_radius = calc_scat_matrix(det, by_radius, 1.33, 0.66, theory=Mie()).values
S_mie_core = calc_scat_matrix(det, core, 1.33, 0.66, theory=Mie()).values
print('Mie: thickness vs outer-radius description differ by',
      np.abs(S_mie_layered - S_mie_radius).max())

try:
    S_tm = calc_scat_matrix(det, layered, 1.33, 0.66, theory=Tmatrix()).values
except Exception as e:
    print('Tmatrix refused the layered sphere:', repr(e)[:120])
    print('no violation')
    sys.exit(0)

scale = np.abs(S_mie_layered).max()
d_layered = np.abs(S_tm - S_mie_layered).max() / scale
d_core = np.abs(S_tm - S_mie_core).max() / np.abs(S_mie_core).max()
print('Tmatrix().can_handle(layered) =', Tmatrix().can_handle(layered))
print('Tmatrix S of the layered sphere vs Mie S of the layered sphere: '
      'rel. diff %.3g' % d_layered)
print('Tmatrix S of the layered sphere vs Mie S of the bare core     : '
      'rel. diff %.3g' % d_core)
if d_layered > 0.05 and d_core < 1e-3:
    print('VIOLATION: a result was returned without any error, and it is the '
          'scattering matrix of the core alone')
    sys.exit(1)
print('no violation')
sys.exit(0)
