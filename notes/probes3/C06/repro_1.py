"""C06 repro 1: a per-channel labelled array (n, r) whose channel labels do not
occur among the calculation's illumination labels is NOT rejected: the lookup
error is swallowed in select_scatterer_by_illumination and the whole array is
handed to the theory, which silently interprets it as a LAYERED sphere."""
import sys, os; sys.path.insert(0, os.getcwd())
import warnings; warnings.filterwarnings('ignore')
import numpy as np, xarray as xr
import holopy as hp
from holopy.scattering import Sphere, calc_field, Mie

det = hp.detector_grid(shape=(5, 4), spacing=0.1)
lab = {'illumination': ['red', 'green']}
n = xr.DataArray([1.59, 1.45], dims='illumination', coords=lab)
r = xr.DataArray([0.5, 0.6], dims='illumination', coords=lab)
s = Sphere(n=n, r=r, center=(0.1, 0.2, 5))
# documented way to ask for two colours on a plain detector: an array of
# wavelengths -> the channels are labelled 0.66 and 0.52, not 'red'/'green'
f = calc_field(det, s, 1.33, np.array([0.66, 0.52]), (1, 0), theory=Mie())
print('channel labels of the result:', f.illumination.values)
two_layer = Sphere(n=(1.59, 1.45), r=(0.5, 0.6), center=(0.1, 0.2, 5))
bad = False
for w, nn, rr in [(0.66, 1.59, 0.5), (0.52, 1.45, 0.6)]:
    intended = calc_field(det, Sphere(n=nn, r=rr, center=(0.1, 0.2, 5)),
                          1.33, w, (1, 0), theory=Mie())
    layered = calc_field(det, two_layer, 1.33, w, (1, 0), theory=Mie())
    d_int = float(abs(f.sel(illumination=w) - intended).max())
    d_lay = float(abs(f.sel(illumination=w) - layered).max())
    print('channel %s: |multi - single-channel| = %.3g ; '
          '|multi - two-LAYER sphere| = %.3g' % (w, d_int, d_lay))
    if d_int > 1e-6 and d_lay < 1e-12:
        bad = True
if bad:
    print('VIOLATION: no error; per-channel arrays silently used as layers')
sys.exit(1 if bad else 0)
