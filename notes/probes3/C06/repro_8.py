"""Incidental (composite.py / spherecluster.py): a cluster keeps the caller's
list object.  add() on one cluster changes the caller's list and every other
cluster built from it, and with it their fields."""
import sys, os; sys.path.insert(0, os.getcwd())
import warnings; warnings.filterwarnings('ignore')
import numpy as np
import holopy as hp
from holopy.scattering import Sphere, Spheres, calc_field, Mie

det = hp.detector_grid(shape=(4, 3), spacing=0.1)
kw = dict(medium_index=1.33, illum_wavelen=0.66, illum_polarization=(1, 0), theory=Mie())
s1 = Sphere(n=1.5, r=0.5, center=(0, 0, 5)); s2 = Sphere(n=1.6, r=0.5, center=(3, 0, 5))
s3 = Sphere(n=1.7, r=0.5, center=(6, 0, 5))
lst = [s1, s2]
A = Spheres(lst); B = Spheres(lst)
before = calc_field(det, B, **kw)
A.add(s3)
after = calc_field(det, B, **kw)
print('caller list length:', len(lst), ' B has', len(B.scatterers), 'spheres')
print('field of B changed by', float(abs(after - before).max()))
bad = len(lst) != 2 or len(B.scatterers) != 2
sys.exit(1 if bad else 0)
