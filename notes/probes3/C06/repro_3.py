"""C06 repro 3: dict_to_array attaches a per-channel dictionary to the FIRST
coordinate of the detector whose sorted values equal the sorted keys.  It walks
z, x, y before 'illumination', so with numeric channel labels (0, 1, ...) and a
pixel spacing of 1 the per-channel values are bound to a spatial axis."""
import sys, os; sys.path.insert(0, os.getcwd())
import warnings; warnings.filterwarnings('ignore')
import numpy as np, xarray as xr
import holopy as hp
from holopy.core.metadata import update_metadata, dict_to_array
from holopy.scattering import Sphere, calc_holo, Mie

det = hp.detector_grid(shape=(2, 5), spacing=1, extra_dims={'illumination': [0, 1]})
d = update_metadata(det, noise_sd={0: 0.1, 1: 0.2})
print('noise_sd dims:', d.noise_sd.dims, '(expected ("illumination",))')
bad = d.noise_sd.dims != ('illumination',)
wl = dict_to_array(det, {0: 0.66, 1: 0.52})
print('illum_wavelen dims:', wl.dims)
try:
    calc_holo(det, Sphere(n=1.59, r=0.5, center=(1, 1, 5)), 1.33,
              {0: 0.66, 1: 0.52}, (1, 0), theory=Mie())
    print('calc_holo ran')
except Exception as e:
    print('calc_holo with per-channel wavelengths fails:', type(e).__name__, e)
    bad = True
# same detector, spacing 0.1: works
det2 = hp.detector_grid(shape=(2, 5), spacing=0.1, extra_dims={'illumination': [0, 1]})
print('with spacing 0.1 noise_sd dims:',
      update_metadata(det2, noise_sd={0: 0.1, 1: 0.2}).noise_sd.dims)
if bad:
    print('VIOLATION: per-channel dictionary bound to a spatial coordinate')
sys.exit(1 if bad else 0)
