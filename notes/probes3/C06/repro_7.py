"""Incidental (composite.py): Scatterers.in_domain numbers the first and the
second component both as domain 1, and index_at uses the domain number as a
list index, so the refractive index inside the FIRST component is reported as
the background (0)."""
import sys, os; sys.path.insert(0, os.getcwd())
import warnings; warnings.filterwarnings('ignore')
import numpy as np
from holopy.scattering import Sphere, Scatterers

s1 = Sphere(n=1.5, r=0.5, center=(0, 0, 5))
s2 = Sphere(n=1.6, r=0.5, center=(3, 0, 5))
s3 = Sphere(n=1.7, r=0.5, center=(6, 0, 5))
C = Scatterers([s1, s2, s3])
dom = C.in_domain(np.array([[0, 0, 5], [3, 0, 5], [6, 0, 5], [10, 0, 0]]))
idx = [C.index_at([0, 0, 5]), C.index_at([3, 0, 5]), C.index_at([6, 0, 5])]
print('domains at the three centres and outside:', dom, '(expected 1 2 3 0)')
print('index at the three centres:', idx, '(expected 1.5 1.6 1.7)')
bad = not np.allclose(np.ravel(idx), [1.5, 1.6, 1.7]) or list(dom) != [1, 2, 3, 0]
sys.exit(1 if bad else 0)
