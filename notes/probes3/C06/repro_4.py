"""C06 repro 4: per-channel noise given to a Model as a plain sequence
(accepted by the constructor, which converts it with ensure_array) is divided
into the residuals by numpy broadcasting against the LAST axis of the hologram
(z, length 1), not against the illumination axis.  The residual array silently
grows to (channels, nx, ny, channels) and the likelihood is wrong."""
import sys, os; sys.path.insert(0, os.getcwd())
import warnings; warnings.filterwarnings('ignore')
import numpy as np, xarray as xr
import holopy as hp
from holopy.scattering import Sphere, calc_holo, Mie
from holopy.inference import AlphaModel, prior

ill = ['red', 'green']
det = hp.detector_grid(shape=(4, 3), spacing=0.1, extra_dims={'illumination': ill})
wl = {'red': 0.66, 'green': 0.52}
data = calc_holo(det, Sphere(n=1.6, r=0.5, center=(0.2, 0.3, 5)), 1.33, wl, (1, 0))
s = Sphere(n=prior.Uniform(1.5, 1.7, guess=1.59), r=0.5, center=(0.2, 0.3, 5))
sds = {'red': 0.1, 'green': 0.3}
kw = dict(alpha=0.9, medium_index=1.33, illum_wavelen=wl,
          illum_polarization=(1, 0), theory=Mie())

def expected(m):
    f = m.forward(m.initial_guess, data)
    tot = 0
    for c in ill:
        res = (f.sel(illumination=c) - data.sel(illumination=c)) / sds[c]
        n = res.size
        tot += (-n / 2 * np.log(2 * np.pi) - n * np.log(sds[c])
                - 0.5 * float((res**2).sum()))
    return tot

m_lab = AlphaModel(s, noise_sd=xr.DataArray(
    [0.1, 0.3], dims='illumination', coords={'illumination': ill}), **kw)
m_seq = AlphaModel(s, noise_sd=[0.1, 0.3], **kw)
e = expected(m_lab)
l_lab = m_lab.lnlike(m_lab.initial_guess, data)
l_seq = m_seq.lnlike(m_seq.initial_guess, data)
res = m_seq._residuals(list(m_seq.initial_guess.values()), data, m_seq.noise_sd)
print('sum of single-channel log-likelihoods :', e)
print('labelled-array noise on the model     :', l_lab)
print('sequence noise [red, green] on model  :', l_seq)
print('shape of residuals with sequence noise:', res.shape, ' data:', data.shape)
bad = abs(l_seq - e) > 1e-8 * abs(e)
if bad:
    print('VIOLATION: silently wrong likelihood (noise broadcast along z)')
sys.exit(1 if bad else 0)
