"""C06 repro 5: per-channel index for ONE LAYER of a layered sphere,
n=[{'red': .., 'green': ..}, 1.45].  The model layer (Mapper) accepts this and
names the parameters n.0.red / n.0.green, but select_scatterer_by_illumination
only looks at top-level parameter values, so the dictionary reaches the Mie
code and the calculation dies with an unrelated TypeError.  The equivalent
n={'red': [.., 1.45], 'green': [.., 1.45]} works."""
import sys, os; sys.path.insert(0, os.getcwd())
import warnings; warnings.filterwarnings('ignore')
import numpy as np
import holopy as hp
from holopy.scattering import Sphere, calc_holo, Mie
from holopy.inference import AlphaModel, prior

ill = ['red', 'green']
det = hp.detector_grid(shape=(4, 3), spacing=0.1, extra_dims={'illumination': ill})
wl = {'red': 0.66, 'green': 0.52}
ok = Sphere(n={'red': [1.59, 1.45], 'green': [1.61, 1.45]}, r=[0.3, 0.5], center=(0.2, 0.3, 5))
nested = Sphere(n=[{'red': 1.59, 'green': 1.61}, 1.45], r=[0.3, 0.5], center=(0.2, 0.3, 5))
h_ok = calc_holo(det, ok, 1.33, wl, (1, 0), theory=Mie())
m = AlphaModel(Sphere(n=[{'red': prior.Uniform(1.5, 1.7, guess=1.59),
                          'green': prior.Uniform(1.5, 1.7, guess=1.61)}, 1.45],
                      r=[0.3, 0.5], center=(0.2, 0.3, 5)),
               alpha=1, medium_index=1.33, illum_wavelen=wl,
               illum_polarization=(1, 0), theory=Mie())
print('model accepts the nested form, parameters:', m._parameter_names)
bad = False
for name, call in [('calc_holo', lambda: calc_holo(det, nested, 1.33, wl, (1, 0), theory=Mie())),
                   ('model.forward', lambda: m.forward(m.initial_guess, det))]:
    try:
        h = call()
        d = float(abs(h - h_ok).max())
        print(name, 'ran; difference to dict-of-lists form:', d)
        bad = bad or d > 1e-12
    except Exception as e:
        print(name, 'FAILS:', type(e).__name__, e)
        bad = True
sys.exit(1 if bad else 0)
