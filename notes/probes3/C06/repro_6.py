"""C06 repro 6: the generic container Scatterers (the class that owns
get_component_list, over which the superposition is taken) cannot be used in
any calc_* function: ImageFormation.calculate_scattered_field reads
scatterer.center, which Scatterers does not define."""
import sys, os; sys.path.insert(0, os.getcwd())
import warnings; warnings.filterwarnings('ignore')
import numpy as np
import holopy as hp
from holopy.scattering import Sphere, Spheres, Scatterers, calc_field, Mie
from holopy.scattering.imageformation import ImageFormation
from holopy.scattering.interface import prep_schema

det = hp.detector_grid(shape=(4, 3), spacing=0.1)
a = Sphere(n=1.59, r=0.5, center=(0.2, 0.3, 5))
b = Sphere(n=1.5, r=0.4, center=(2.0, 0.5, 6))
c = Sphere(n=(1.5, 1.4), r=(0.3, 0.4), center=(-2.0, 0.5, 7))
kw = dict(medium_index=1.33, illum_wavelen=0.66, illum_polarization=(1, 0), theory=Mie())
ref = calc_field(det, Spheres([a, b, c]), **kw)
bad = False
try:
    f = calc_field(det, Scatterers([Spheres([a, b]), c]), **kw)
    print('Scatterers ran, diff to Spheres:', float(abs(f - ref).max()))
except Exception as e:
    print('calc_field(Scatterers([Spheres([a, b]), c])) FAILS:', type(e).__name__, e)
    bad = True
# the superposition itself is fine when the check is bypassed
schema = prep_schema(det, 1.33, 0.66, (1, 0))
f = ImageFormation(Mie())._calculate_single_color_scattered_field(
    Scatterers([Spheres([a, b]), c]), schema).unstack('flat')
print('bypassing the centre check, |superposition - Spheres| =',
      float(abs(f - ref).max()))
sys.exit(1 if bad else 0)
