"""C06 repro 2: a labelled polarisation vector whose 'vector' coordinate is not
in the order x, y, z.  The scattered field is computed from the VALUES by
position (values[:2]) while the reference wave in calc_holo is combined BY
LABEL, so the hologram mixes a scattered field for x-polarised light with a
y-polarised reference and equals neither single-polarisation hologram."""
import sys, os; sys.path.insert(0, os.getcwd())
import warnings; warnings.filterwarnings('ignore')
import numpy as np, xarray as xr
import holopy as hp
from holopy.scattering import Sphere, calc_field, calc_holo, Mie

det = hp.detector_grid(shape=(5, 4), spacing=0.1)
s = Sphere(n=1.59, r=0.5, center=(0.1, 0.2, 5))
# y-polarised light, written as a labelled array
pol = xr.DataArray([1., 0., 0.], dims='vector', coords={'vector': ['y', 'x', 'z']})
kw = dict(medium_index=1.33, illum_wavelen=0.66, theory=Mie())
f = calc_field(det, s, illum_polarization=pol, **kw)
fx = calc_field(det, s, illum_polarization=(1, 0), **kw)
fy = calc_field(det, s, illum_polarization=(0, 1), **kw)
print('field: |f - f(y-pol)| = %.3g, |f - f(x-pol)| = %.3g'
      % (float(abs(f - fy).max()), float(abs(f - fx).max())))
h = calc_holo(det, s, illum_polarization=pol, **kw)
hx = calc_holo(det, s, illum_polarization=(1, 0), **kw)
hy = calc_holo(det, s, illum_polarization=(0, 1), **kw)
dx, dy = float(abs(h - hx).max()), float(abs(h - hy).max())
print('hologram: |h - h(y-pol)| = %.3g, |h - h(x-pol)| = %.3g' % (dy, dx))
bad = dy > 1e-6 and dx > 1e-6
if bad:
    print('VIOLATION: hologram is neither the x- nor the y-polarised one '
          '(field by position, reference wave by label)')
elif float(abs(f - fy).max()) > 1e-6:
    bad = True
    print('VIOLATION: labels of the polarisation vector ignored')
sys.exit(1 if bad else 0)
