"""A Model built on a RigidCluster silently ignores the cluster's translation and
rotation: Model.scatterer_from_parameters() returns the *untransformed* spheres
whatever values the 'translation.*' / 'rotation.*' parameters take, so the
containment region (and every hologram computed from the model) does not move
with the parameters that are being fitted."""
import sys, os; sys.path.insert(0, os.getcwd())
import warnings
import numpy as np
np.NaN = np.nan        # sandbox numpy-2 workaround, unrelated
from holopy.scattering.scatterer import Sphere, Spheres, RigidCluster
from holopy.inference import prior, AlphaModel

warnings.simplefilter('ignore')
base = Spheres([Sphere(n=1.5, r=0.5, center=(0, 0, 0)),
                Sphere(n=1.5, r=0.5, center=(1.2, 0, 0))])
rc = RigidCluster(base,
                  translation=(prior.Uniform(0, 10), 5, 10),
                  rotation=(prior.Uniform(0, 3), 0, 0))
model = AlphaModel(rc, alpha=1, noise_sd=0.1, medium_index=1.33,
                   illum_wavelen=0.66, illum_polarization=(1, 0))
print("model parameters:", model._parameter_names)
print("dummy scatterer type kept by the model:", type(model._dummy_scatterer).__name__)

bad = False
for pars in ({'rotation.0': 0.0, 'translation.0': 2.0},
             {'rotation.0': 1.5, 'translation.0': 7.0}):
    got = model.scatterer_from_parameters(pars)
    want = RigidCluster(base, translation=(pars['translation.0'], 5, 10),
                        rotation=(pars['rotation.0'], 0, 0))
    probe = want.centers              # interior points of the wanted cluster
    print(pars)
    print("   model scatterer centres :", np.round(got.centers, 3).tolist())
    print("   expected centres        :", np.round(want.centers, 3).tolist())
    print("   model scatterer contains expected centres:", got.contains(probe).tolist())
    if not np.allclose(got.centers, want.centers) or not got.contains(probe).all():
        bad = True
sys.exit(1 if bad else 0)
