"""RigidCluster (a Spheres subclass) cannot be translated / rotated, and
RigidCluster.add() silently drops the sphere.

Property clause: "translating a scatterer translates its containment region"
and the sphere-collection clauses (members / overlaps) for a public Spheres
subclass defined in the anchored module spherecluster.py.
"""
import sys, os; sys.path.insert(0, os.getcwd())
import warnings
import numpy as np
import holopy
from holopy.scattering.scatterer import Sphere, Spheres, RigidCluster

print(holopy.__file__)
base = Spheres([Sphere(n=1.5, r=0.5, center=(0, 0, 0)),
                Sphere(n=1.5, r=0.5, center=(2, 0, 0))])
rc = RigidCluster(base, translation=(1, 2, 3), rotation=(0.3, 0.2, 0.1))
pts = rc.centers.copy()            # centres are certainly interior points
assert rc.contains(pts).all()

violations = []

# 1. translating: should give a scatterer whose region is shifted
shift = np.array([1.0, -2.0, 0.5])
try:
    moved = rc.translated(shift)
    ok = moved.contains(pts + shift).all() and not moved.contains(pts).any()
    print("translated ->", type(moved).__name__, "region shifted:", ok)
    if not ok:
        violations.append("translated region wrong")
except Exception as e:
    print("rc.translated(shift) raised %s: %s" % (type(e).__name__, e))
    violations.append("translated raises")

# 2. rotating
try:
    rc.rotated(0.1, 0.2, 0.3)
    print("rotated ok")
except Exception as e:
    print("rc.rotated(...) raised %s: %s" % (type(e).__name__, e))
    violations.append("rotated raises")

# 3. add(): accepted without error, but the member vanishes, so the new
#    sphere is neither contained nor reported as overlapping
new = Sphere(n=1.5, r=0.5, center=tuple(rc.centers[0] + [0.2, 0, 0]))
n_before = len(rc.scatterers)
with warnings.catch_warnings():
    warnings.simplefilter('ignore')
    rc.add(new)
n_after = len(rc.scatterers)
print("members before add:", n_before, "after add:", n_after,
      "overlaps:", rc.overlaps, "largest_overlap:", rc.largest_overlap())
if n_after != n_before + 1:
    violations.append("add silently ignored")

print("violations:", violations)
sys.exit(1 if violations else 0)
