"""Spheres built from a one-shot iterable (generator / map / iterator) passes the
member type check, but the check consumes the iterator, so the cluster is
silently empty: overlapping members produce no OverlapWarning, overlaps == [],
largest_overlap() == 0.  (Low severity: the docstring says 'list', but
ensure_listlike() deliberately lets any iterable through.)"""
import sys, os; sys.path.insert(0, os.getcwd())
import warnings
from holopy.scattering.scatterer import Sphere, Spheres
from holopy.scattering.errors import OverlapWarning

members = [Sphere(n=1.5, r=1.0, center=(0, 0, 0)),
           Sphere(n=1.5, r=1.0, center=(1, 0, 0))]      # overlap by 1.0

def build(arg):
    with warnings.catch_warnings(record=True) as w:
        warnings.simplefilter('always')
        c = Spheres(arg, warn=True)
    nwarn = sum(issubclass(x.category, OverlapWarning) for x in w)
    return c, nwarn

ref, ref_warn = build(list(members))
gen, gen_warn = build(s for s in members)
print("list      : overlaps", ref.overlaps, "largest", ref.largest_overlap(), "warnings", ref_warn)
print("generator : overlaps", gen.overlaps, "largest", gen.largest_overlap(), "warnings", gen_warn)
bad = (gen.overlaps != ref.overlaps) or (gen_warn != ref_warn)
sys.exit(1 if bad else 0)
