"""Multisphere cross sections are not covariant under a joint rotation of the
cluster and the polarisation about the optical axis, and violate energy
conservation for oblique polarisation.

Multisphere._calc_cext evaluates the optical theorem with the polarisation
mirrored (angle -gamma) whereas _calc_cscat uses +gamma: for a NON-absorbing
dimer lying at 30 degrees, C_ext != C_scat and C_abs comes out negative /
positive depending on the sign of the polarisation angle; C_ext changes when
cluster and polarisation are rotated together (C_scat does not)."""
import sys, os; sys.path.insert(0, os.getcwd())
import warnings; warnings.filterwarnings('ignore')
import numpy as np
import holopy
from holopy.scattering import calc_cross_sections, Sphere, Spheres, Multisphere
from holopy.scattering.theory.multisphere import _asm_far

print('holopy from', holopy.__file__)
kw = dict(medium_index=1.33, illum_wavelen=0.66)
k = 2 * np.pi * 1.33 / 0.66
th = Multisphere(eps=1e-10, qeps1=1e-9, qeps2=1e-12)
d = 0.45


def dimer(ang):
    c, s = d * np.cos(ang), d * np.sin(ang)
    return Spheres([Sphere(n=1.59, r=0.4, center=(c, s, 5.)),
                    Sphere(n=1.59, r=0.4, center=(-c, -s, 5.))])


bad = False
print('(a) energy conservation, real indices, dimer axis at 30 deg')
for pa in np.deg2rad([0., 30., -30., 60.]):
    pol = (np.cos(pa), np.sin(pa))
    cs = calc_cross_sections(dimer(np.deg2rad(30)), illum_polarization=pol, theory=th, **kw).values
    amn, lmax = th._scsmfo_setup(dimer(np.deg2rad(30)), k, 1.33)
    S = _asm_far(0., 0., amn, lmax)
    cext_noflip = 4 * np.pi / k**2 * np.real(np.array(pol) @ S @ np.array(pol))
    print('  pol %6.1f deg: C_scat %.6f  C_ext %.6f  C_abs %+.6f   | optical theorem without the [1,-1] factors: C_ext %.6f'
          % (np.rad2deg(pa), cs[0], cs[2], cs[1], cext_noflip))
    if abs(cs[1]) > 1e-3 * cs[0]:
        bad = True
print('(b) joint rotation of cluster and polarisation by 40 deg')
a = np.deg2rad(40.)
c0 = calc_cross_sections(dimer(0.2), illum_polarization=(np.cos(0.5), np.sin(0.5)), theory=th, **kw).values
c1 = calc_cross_sections(dimer(0.2 + a), illum_polarization=(np.cos(0.5 + a), np.sin(0.5 + a)), theory=th, **kw).values
print('  before', c0); print('  after ', c1)
if abs(c1[2] - c0[2]) > 1e-4 * c0[2]:
    bad = True
print('VIOLATION: C_ext (and C_abs) of a cluster is computed for the mirrored polarisation' if bad else 'ok')
sys.exit(1 if bad else 0)
