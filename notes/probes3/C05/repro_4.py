"""Lens caches its pupil quadrature in __init__; changing `lens_angle` (or the
quadrature sizes) on an existing Lens object is silently ignored by
calc_holo, although repr() / save() report the new value.  MieLens with the
same edit honours it.  A saved-and-reloaded copy of the edited object
therefore gives a different hologram from the object it was saved from."""
import sys, os; sys.path.insert(0, os.getcwd())
import warnings; warnings.filterwarnings('ignore')
import tempfile
import numpy as np
import holopy
from holopy.scattering import calc_holo, Sphere, Mie, MieLens
from holopy.scattering.theory import Lens
from holopy.core.metadata import detector_grid

print('holopy from', holopy.__file__)
det = detector_grid((6, 6), 0.4)
sph = Sphere(n=1.59, r=0.5, center=(1.0, 1.3, 5.))
H = lambda th: calc_holo(det, sph, medium_index=1.33, illum_wavelen=0.66,
                         illum_polarization=(1, 0), theory=th).values

lens = Lens(0.9, Mie(), 60, 60)
before = H(lens)
lens.lens_angle = 0.4
after = H(lens)
fresh = H(Lens(0.4, Mie(), 60, 60))
print('Lens   : |holo(after edit) - holo(before edit)| = %.3g ; |holo(after edit) - holo(fresh Lens(0.4))| = %.3g'
      % (np.abs(after - before).max(), np.abs(after - fresh).max()))
print('         repr says:', repr(lens)[:30], '...')

ml = MieLens(0.9, {'interpolate_integrals': False})
b = H(ml); ml.lens_angle = 0.4; a = H(ml)
print('MieLens: |holo(after edit) - holo(before edit)| = %.3g (honoured)' % np.abs(a - b).max())

reloaded_diff = None
try:
    with tempfile.TemporaryDirectory() as d:
        fn = os.path.join(d, 'lens.yaml')
        holopy.save(fn, lens)
        lens2 = holopy.load(fn)
    reloaded_diff = np.abs(H(lens2) - after).max()
    print('save/load round trip of the edited Lens changes the hologram by %.3g' % reloaded_diff)
except Exception as e:
    print('(save/load not exercised: %r)' % (e,))

bad = np.abs(after - before).max() == 0 and np.abs(after - fresh).max() > 1e-3
print('VIOLATION: Lens ignores lens_angle changed after construction (stale cached quadrature)' if bad else 'ok')
sys.exit(1 if bad else 0)
