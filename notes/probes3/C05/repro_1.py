"""Lens(Multisphere): the image of a cluster is point-inverted (rotated by 180 deg
about the optical axis) through the cluster centroid.

Two well separated spheres (multiple scattering negligible).  Lens(Mie) images
each sphere at its own position (superposition); Lens(Multisphere) must give
(nearly) the same hologram.  Instead it reproduces the hologram of the cluster
whose spheres have been reflected through the centroid in x, y."""
import sys, os; sys.path.insert(0, os.getcwd())
import warnings; warnings.filterwarnings('ignore')
import numpy as np
import holopy
from holopy.scattering import calc_holo, Sphere, Spheres, Mie, Multisphere
from holopy.scattering.theory import Lens
from holopy.core.metadata import detector_grid

print('holopy from', holopy.__file__)
kw = dict(medium_index=1.33, illum_wavelen=0.66, illum_polarization=(1, 0))
s1 = dict(n=1.59, r=0.5, c=np.array([2.0, 3.0, 10.0]))
s2 = dict(n=1.45, r=0.25, c=np.array([4.5, 4.0, 10.5]))
com = (s1['c'] + s2['c']) / 2


def cluster(invert_xy):
    out = []
    for q in (s1, s2):
        c = q['c'].copy()
        if invert_xy:
            c[:2] = 2 * com[:2] - c[:2]
        out.append(Sphere(n=q['n'], r=q['r'], center=c))
    return Spheres(out)


det = detector_grid((14, 14), 0.5)
H = lambda sc, th: calc_holo(det, sc, theory=th, **kw).values.squeeze()
cc = lambda a, b: np.corrcoef(a.ravel(), b.ravel())[0, 1]

lens_multi_true = H(cluster(False), Lens(1.0, Multisphere()))
lens_mie_true = H(cluster(False), Lens(1.0, Mie()))
lens_mie_inverted = H(cluster(True), Lens(1.0, Mie()))
plain_multi_true = H(cluster(False), Multisphere())
plain_mie_true = H(cluster(False), Mie())

print('no lens : Multisphere vs Mie superposition (same cluster): max diff %.4f corr %.4f'
      % (np.abs(plain_multi_true - plain_mie_true).max(), cc(plain_multi_true, plain_mie_true)))
d_true = np.abs(lens_multi_true - lens_mie_true).max()
d_inv = np.abs(lens_multi_true - lens_mie_inverted).max()
print('lens    : Lens(Multisphere) vs Lens(Mie), same cluster      : max diff %.4f corr %.4f'
      % (d_true, cc(lens_multi_true, lens_mie_true)))
print('lens    : Lens(Multisphere) vs Lens(Mie), xy-INVERTED cluster: max diff %.4f corr %.4f'
      % (d_inv, cc(lens_multi_true, lens_mie_inverted)))

bad = d_true > 0.1 and d_inv < 0.01
print('VIOLATION: Lens(Multisphere) images the cluster rotated by 180 degrees about its centroid'
      if bad else 'ok')
sys.exit(1 if bad else 0)
