"""MieLens.raw_fields / AberratedMieLens.raw_fields modify the caller's
`positions` array in place (phi -= pol_angle; phi %= 2 pi).

Calling the (public) method twice on the same detector positions with an
oblique polarisation therefore returns two different fields: the pattern is
rotated by the polarisation angle once more on every call.  Lens.raw_fields
and Mie.raw_fields leave their argument untouched."""
import sys, os; sys.path.insert(0, os.getcwd())
import warnings; warnings.filterwarnings('ignore')
import numpy as np
import holopy
from holopy.scattering import Sphere, Mie, MieLens
from holopy.scattering.theory import Lens
from holopy.core.metadata import to_vector

print('holopy from', holopy.__file__)
k = 2 * np.pi * 1.33 / 0.66
sph = Sphere(n=1.59, r=0.5, center=(0, 0, 5.))
pol = to_vector((0.6, 0.8))
rng = np.random.default_rng(0)
# cylindrical (k rho, phi, k z) positions relative to the sphere
pos0 = np.array([k * rng.uniform(0.5, 4, 6), rng.uniform(0, 2 * np.pi, 6), np.full(6, k * 5.)])

bad = False
for name, th in [('MieLens', MieLens(0.9, {'interpolate_integrals': False})),
                 ('Lens(Mie)', Lens(0.9, Mie(), 60, 60))]:
    pos = pos0.copy()
    f1 = th.raw_fields(pos, sph, k, 1.33, pol)
    changed = np.abs(pos - pos0).max()
    f2 = th.raw_fields(pos, sph, k, 1.33, pol)
    print('%-10s positions changed by the call: %.3g   |field(call 2) - field(call 1)|max = %.3g'
          % (name, changed, np.abs(f2 - f1).max()))
    if changed > 0 or np.abs(f2 - f1).max() > 1e-9:
        bad = True
print('VIOLATION: raw_fields mutates its positions argument; repeated calls disagree' if bad else 'ok')
sys.exit(1 if bad else 0)
