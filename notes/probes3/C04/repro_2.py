"""C04 repro 2: the bounding box that holopy derives for a scatterer defined by
an indicator function (Scatterer(indicators, n, center)) is searched from a
hard-coded starting length of 1e-9 in factors of 10, 1/2 (at most 10 times)
and 1.1, so bounds / voxelations of the *same* object are different in
different units of length (and blow up for objects smaller than ~1e-12 units).

holopy/scattering/scatterer/scatterer.py:find_bounds (lines 235-270)
used by Indicators.__init__ -> Scatterer.bounds -> Scatterer.voxelate /
voxelate_domains (the discretisation handed to the DDA theory).

Run from the checkout root.  Exit 1 when the violation is present.
"""
import sys, os; sys.path.insert(0, os.getcwd())
import warnings; warnings.filterwarnings('ignore')
import numpy as np
import holopy as hp
from holopy.scattering import Scatterer


def describe(s):
    R = 0.5 * s                      # a sphere of radius 0.5 length units
    sc = Scatterer(lambda p, R=R: (p ** 2).sum(-1) < R ** 2, 1.5, (0, 0, 0))
    bounds = np.array(sc.bounds) / s   # dimensionless
    vox = sc.voxelate_domains(0.1 * s)  # voxel pitch = 0.1 length units
    return bounds[0], vox.shape, int((vox != 0).sum())


ref = describe(1.0)
print('scale 1      : bounds/s = %s, voxel grid %s, %d voxels inside' % ref)
violated = False
for s in [1e-6, 3e-7, 2.54e-2, 7.0, 1e-13]:
    b, shape, n_in = describe(s)
    same = np.allclose(b, ref[0], rtol=1e-9) and shape == ref[1] and n_in == ref[2]
    violated |= not same
    print('scale %-7g: bounds/s = %s, voxel grid %s, %d voxels inside  %s'
          % (s, b, shape, n_in, '' if same else '<-- differs'))
print('bounds / voxelation depend on the unit of length:', violated)
sys.exit(1 if violated else 0)
