"""C04 repro 1: the uniform-spacing check of detector grids uses an ABSOLUTE
tolerance (np.allclose default atol=1e-8) on lengths, so the same (scaled)
input is rejected in one unit system and silently accepted in another.

holopy/core/metadata.py:get_spacing   (lines 213-221)
holopy/core/process/fourier.py:get_spacing (lines 143-147) -> fft, propagate

Run from the checkout root.  Exit 1 when the violation is present.
"""
import sys, os; sys.path.insert(0, os.getcwd())
import warnings; warnings.filterwarnings('ignore')
import numpy as np
import xarray as xr

# sandbox workaround (not a library defect): Dataset.update returns None
_u = xr.Dataset.update
def _upd(self, *a, **k):
    _u(self, *a, **k)
    return self
xr.Dataset.update = _upd

import holopy as hp
from holopy.scattering import Sphere, calc_holo
from holopy.core.metadata import detector_grid, get_spacing
from holopy.propagation import propagate


def attempt(s):
    """All lengths multiplied by s.  The x axis has one pixel pitch that is
    4 % larger than the others (a genuinely non-uniform grid)."""
    det = detector_grid((16, 16), 0.1 * s)
    x = det.x.values.copy()
    x[8:] += 0.004 * s
    det = det.assign_coords(x=x)
    holo = calc_holo(det, Sphere(n=1.59, r=0.5 * s, center=(0.8 * s, 0.8 * s, 5 * s)),
                     medium_index=1.33, illum_wavelen=0.66 * s,
                     illum_polarization=(1, 0))
    out = {}
    for name, func in [('get_spacing', lambda: get_spacing(holo) / s),
                       ('propagate', lambda: propagate(holo, 2 * s).shape)]:
        try:
            out[name] = ('returned', func())
        except ValueError as e:
            out[name] = ('raised', str(e)[:50])
    return out


results = {s: attempt(s) for s in [1.0, 1e3, 1e-6, 1e-9]}
for s, r in results.items():
    print('scale %g:' % s, r)

kinds = {name: {results[s][name][0] for s in results}
         for name in ['get_spacing', 'propagate']}
violated = any(len(k) > 1 for k in kinds.values())
print('behaviour depends on the unit of length:', violated)
sys.exit(1 if violated else 0)
