"""Side observation (NOT a C04 clause): the hologram phase factor
exp(-1j*k*z_particle) in ImageFormation._get_field_from (imageformation.py:130)
ignores the z coordinate of the detector, so moving detector and particle
together along z changes the hologram (only z_particle - z_detector enters
the positions).  Exit 1 when the holograms differ."""
import sys, os; sys.path.insert(0, os.getcwd())
import warnings; warnings.filterwarnings('ignore')
import numpy as np
from holopy.scattering import Sphere, calc_holo, Mie
from holopy.core.metadata import detector_grid

det0 = detector_grid((5, 6), (0.31, 0.17))
det1 = det0.assign_coords(z=[1.5])
h1 = calc_holo(det1, Sphere(n=1.59, r=0.5, center=(1, 1, 7.0)), 1.33, 0.66, (1, 0), theory=Mie())
h0 = calc_holo(det0, Sphere(n=1.59, r=0.5, center=(1, 1, 5.5)), 1.33, 0.66, (1, 0), theory=Mie())
d = float(np.abs(h1.values - h0.values).max() / np.abs(h0.values).max())
print('detector z=1.5, particle z=7.0  vs  detector z=0, particle z=5.5: rel diff %.3g' % d)
sys.exit(1 if d > 1e-9 else 0)
