"""Side observation (NOT a C04 clause): Model(theory='auto') picks the theory from
the all-zero dummy scatterer (holopy/inference/model.py:49-50), so the
separation/radius ratio that _choose_mie_vs_multisphere is meant to look at is
always 0/0 -> Multisphere, while calc_holo(theory='auto') on the same Spheres picks
Mie superposition.  The two 'auto' paths return different holograms.
Exit 1 when they disagree."""
import sys, os; sys.path.insert(0, os.getcwd())
import warnings; warnings.filterwarnings('ignore')
import numpy as np
from holopy.scattering import Sphere, Spheres, calc_holo
from holopy.scattering.interface import determine_default_theory_for
from holopy.core.metadata import detector_grid
from holopy.inference import ExactModel

far = Spheres([Sphere(n=1.59, r=0.3, center=(2, 2, 10)),
               Sphere(n=1.59, r=0.3, center=(14, 2, 10))])   # separation = 40 r
model = ExactModel(far, medium_index=1.33, illum_wavelen=0.66,
                   illum_polarization=(1, 0))
print('calc_holo auto theory :', type(determine_default_theory_for(far)).__name__)
print('Model     auto theory :', type(model.theory).__name__)
det = detector_grid((8, 8), 0.5)
direct = calc_holo(det, far, 1.33, 0.66, (1, 0))
via_model = model.forward({}, det)
d = float(np.abs(via_model.values - direct.values).max() / np.abs(direct.values).max())
print('max relative difference of the two holograms: %.3g' % d)
sys.exit(1 if d > 1e-6 else 0)
