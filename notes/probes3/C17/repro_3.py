"""propagate(..., cfsp=c) with 0 < c < 1: trans_func truncates c to int 0
*after* having decided that cascading is on, divides the distance by 0 and
returns an all-NaN image without any error (non-integer cfsp > 1 is silently
truncated and works)."""
import sys, os; sys.path.insert(0, os.getcwd())
import numpy as np, xarray as xr, warnings
warnings.simplefilter('ignore')
_upd = xr.Dataset.update
def upd(self, other):
    r = _upd(self, other)
    return self if r is None else r
xr.Dataset.update = upd
import holopy as hp
from holopy.core.metadata import data_grid
img = data_grid(np.random.default_rng(0).normal(size=(6, 5)), spacing=0.3,
                medium_index=1.33, illum_wavelen=0.66)
ref = hp.propagate(img, 2.0)
bad = False
for c in (2.7, 0.5):
    r = hp.propagate(img, 2.0, cfsp=c)
    n = int(np.isnan(r.values).sum())
    print("cfsp=%s: NaNs %d/%d, max|diff to cfsp=0| = %s" %
          (c, n, r.size, np.nanmax(np.abs(r.values - ref.values)) if n < r.size else 'n/a'))
    bad |= n > 0
if bad:
    print("VIOLATION: silent all-NaN result")
sys.exit(1 if bad else 0)
