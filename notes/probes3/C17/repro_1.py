"""copy_metadata (holopy/core/metadata.py) - the coordinate-renaming helper
`find_and_rename` only ever inspects the FIRST coordinate of the new array,
because its `raise` sits inside the `for` loop.

 * square image  -> the axes are silently mislabelled (dims become ('y','b'), 'x' is lost)
 * non-square    -> ValueError although a matching coordinate exists
 * no coords     -> returns None -> AttributeError
"""
import sys, os; sys.path.insert(0, os.getcwd())
import numpy as np, xarray as xr
import holopy
from holopy.core.metadata import data_grid, copy_metadata

bad = False

def image(shape):
    return data_grid(np.zeros(shape), spacing=0.3, medium_index=1.33,
                     illum_wavelen=0.66).squeeze('z', drop=True)

# 1. square image: both axes carry the same coordinate values
old = image((5, 5))
new = xr.DataArray(np.arange(25.).reshape(5, 5), dims=['a', 'b'],
                   coords={'a': old.x.values, 'b': old.y.values})
out = copy_metadata(old, new)
print("square   : old dims", old.dims, "-> result dims", out.dims)
if out.dims != ('x', 'y'):
    print("  VIOLATION: expected ('x', 'y'); axis 0 is now called 'y' and 'x' is gone")
    bad = True

# 2. non-square image: second coordinate is never looked at
old = image((5, 4))
new = xr.DataArray(np.arange(20.).reshape(5, 4), dims=['a', 'b'],
                   coords={'a': old.x.values, 'b': old.y.values})
try:
    out = copy_metadata(old, new)
    print("nonsquare: result dims", out.dims)
    if out.dims != ('x', 'y'):
        bad = True
except ValueError as e:
    print("nonsquare: VIOLATION: ValueError although coordinate 'b' matches 'y':",
          str(e).splitlines()[0][:90])
    bad = True

sys.exit(1 if bad else 0)
