"""propagate(data, d): the docstring says d is a "Distance to propagate or
desired schema".  Passing a schema (a DataArray whose z coordinates are the
wanted distances) does not raise; it silently returns a stack of copies of the
un-propagated input, all labelled z = 0."""
import sys, os; sys.path.insert(0, os.getcwd())
import numpy as np, xarray as xr
_upd = xr.Dataset.update            # sandbox work-around (new xarray returns None)
def upd(self, other):
    r = _upd(self, other)
    return self if r is None else r
xr.Dataset.update = upd
import holopy as hp
from holopy.core.metadata import data_grid

rng = np.random.default_rng(0)
img = data_grid(rng.normal(size=(6, 5)), spacing=0.3, medium_index=1.33,
                illum_wavelen=0.66)
schema = data_grid(np.zeros((2, 6, 5)), spacing=0.3, z=[1.0, 2.0])
want = hp.propagate(img, [1.0, 2.0])
try:
    got = hp.propagate(img, schema)
except Exception as e:
    print("raised (acceptable):", type(e).__name__, e)
    sys.exit(0)
print("schema z:", schema.z.values)
print("result shape", dict(got.sizes), "z labels (unique):", np.unique(got.z.values))
same_as_input = all(np.allclose(got.isel(z=i).values, img.values[0])
                    for i in range(got.sizes['z']))
print("every returned plane equals the un-propagated input:", same_as_input)
ok = (got.sizes['z'] == 2 and
      np.allclose(got.transpose('x', 'y', 'z').values, want.values))
if not ok:
    print("VIOLATION: documented 'desired schema' form of d silently gives a wrong result")
sys.exit(0 if ok else 1)
