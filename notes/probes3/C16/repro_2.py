"""load_average with a reference image whose coordinates start below zero:
the crop indices go negative and isel() wraps around, so the returned
average holds pixels from the opposite edge, labelled with refimg's axes.
(A shift of the same size in the other direction raises IndexError.)"""
import sys, os; sys.path.insert(0, os.getcwd())
import warnings, tempfile
warnings.simplefilter('ignore')
import numpy as np
np.NaN = np.nan
import holopy as hp
from holopy.core.io import load_image, load_average
from PIL import Image

d = tempfile.mkdtemp()
rng = np.random.default_rng(1)
stack = rng.integers(1, 255, (4, 10, 10)).astype('uint8')
paths = []
for i, a in enumerate(stack):
    p = os.path.join(d, 'bg%d.tif' % i); Image.fromarray(a).save(p); paths.append(p)
mean = stack.mean(0)

full = load_image(paths[0], spacing=0.1, medium_index=1.33)
ref = full.assign_coords(x=full.x - 0.3)          # origin moved by 3 pixels
try:
    av = load_average(paths, refimg=ref)
except Exception as e:
    print('raised', type(e).__name__, e); sys.exit(0)
rows = [int(np.argmin([np.abs(av.values[0][r] - mean[k]).max() for k in range(10)]))
        for r in range(10)]
print('x axis of the result :', np.round(av.x.values, 2))
print('row r of the result is raw-frame row:', rows)
# rows at x<0 lie outside the frames; they come back filled from the far edge
wrapped = rows[:3] == [7, 8, 9]
print('VIOLATION: rows outside the frames were silently taken from the opposite edge'
      if wrapped else 'ok')
sys.exit(1 if wrapped else 0)
