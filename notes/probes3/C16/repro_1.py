"""load_image / load_average fail with a YAML parser error on an ordinary TIFF
whose ImageDescription tag holds free text written by acquisition software."""
import sys, os; sys.path.insert(0, os.getcwd())
import warnings, tempfile
import numpy as np
np.NaN = np.nan
import holopy as hp
from holopy.core.io import load_image, load_average
from PIL import Image
from PIL.TiffImagePlugin import ImageFileDirectory_v2 as ifd2

d = tempfile.mkdtemp()
arr = np.arange(24, dtype='uint8').reshape(4, 6)
bad = 0
for k, desc in enumerate(["Exposure: 10 ms\nNote: gain: high",   # free text
                          "\tCamera\tiXon",                       # leading tab
                          "@ 25 fps"]):
    p = os.path.join(d, 'frame%d.tif' % k)
    info = ifd2(); info[270] = desc
    Image.fromarray(arr).save(p, tiffinfo=info)
    assert np.array_equal(np.asarray(Image.open(p)), arr)   # a valid image
    for fn, call in [('load_image', lambda: load_image(p, spacing=0.1)),
                     ('load_average', lambda: load_average([p, p], spacing=0.1))]:
        try:
            with warnings.catch_warnings():
                warnings.simplefilter('ignore')
                im = call()
            ok = np.allclose(im.values[0], arr)
            print(fn, repr(desc), '-> loaded, values ok:', ok)
        except Exception as e:
            bad += 1
            print(fn, repr(desc), '-> raised', type(e).__name__, ':',
                  str(e).splitlines()[0])
print('VIOLATION' if bad else 'ok')
sys.exit(1 if bad else 0)
