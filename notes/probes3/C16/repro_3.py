"""Dictionary-valued metadata x image coordinates (dict_to_array looks at every
coordinate of the image, not only at its dimensions of channels):
 (a) an image with a scalar coordinate (e.g. after isel(z=0)) cannot take
     dictionary metadata: TypeError 'iteration over a 0-d array';
 (b) when the channel labels are numbers that coincide with pixel
     coordinates, the per-channel values are attached to x (or z) instead of
     'illumination'."""
import sys, os; sys.path.insert(0, os.getcwd())
import warnings
warnings.simplefilter('ignore')
import numpy as np
np.NaN = np.nan
import holopy as hp
from holopy.core.metadata import data_grid, update_metadata

bad = 0
rng = np.random.default_rng(0)
im = data_grid(rng.random((4, 5, 2)), spacing=0.1,
               extra_dims={'illumination': ['red', 'green']})
wl = {'red': 0.66, 'green': 0.52}
print('(a) full image      ->', update_metadata(im, illum_wavelen=wl).illum_wavelen.dims)
try:
    out = update_metadata(im.isel(z=0), illum_wavelen=wl)
    print('(a) image.isel(z=0) ->', out.illum_wavelen.dims)
except Exception as e:
    bad += 1
    print('(a) image.isel(z=0) -> raised', type(e).__name__, ':', e)

# numeric labels are what load_image gives for files with more than 3 channels
im4 = data_grid(rng.random((4, 6, 4)), spacing=1,
                extra_dims={'illumination': [0, 1, 2, 3]})
out = update_metadata(im4, illum_wavelen={0: .4, 1: .5, 2: .6, 3: .7})
print('(b) per-channel wavelengths attached to dims', out.illum_wavelen.dims)
if out.illum_wavelen.dims != ('illumination',):
    bad += 1
print('VIOLATION' if bad else 'ok')
sys.exit(1 if bad else 0)
