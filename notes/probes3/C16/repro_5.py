"""Array-valued metadata is shared by reference:
 (a) copy_metadata(old, data) gives the new image the very same metadata
     arrays as `old`, so editing the new image's metadata edits the old image;
 (b) update_metadata(a, illum_wavelen=arr) stores `arr` itself, so a later
     change of `arr` changes the image that was returned."""
import sys, os; sys.path.insert(0, os.getcwd())
import warnings
warnings.simplefilter('ignore')
import numpy as np, xarray as xr
np.NaN = np.nan
import holopy as hp
from holopy.core.metadata import data_grid, update_metadata, copy_metadata

bad = 0
old = data_grid(np.ones((4, 5)), spacing=0.1, medium_index=1.33,
                illum_wavelen=0.66, illum_polarization=(1, 0))
new = copy_metadata(old, old * 2)
new.attrs['illum_polarization'][:] = [0, 1, 0]         # edit the NEW image only
print('(a) old.illum_polarization after editing new:', old.illum_polarization.values)
if not np.array_equal(old.illum_polarization.values, [1, 0, 0]):
    bad += 1

cols = ['red', 'green']
im = data_grid(np.ones((4, 5, 2)), spacing=0.1, extra_dims={'illumination': cols})
wl = xr.DataArray([0.66, 0.52], dims='illumination', coords={'illumination': cols})
b = update_metadata(im, illum_wavelen=wl)
wl[0] = 99.
print('(b) b.illum_wavelen after the caller changed its own array:', b.illum_wavelen.values)
if b.illum_wavelen.values[0] != 0.66:
    bad += 1
print('VIOLATION' if bad else 'ok')
sys.exit(1 if bad else 0)
