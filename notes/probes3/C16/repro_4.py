"""load_image on a palette ('P' mode) image returns the palette indices, not
the grey levels / colour channels of the picture."""
import sys, os; sys.path.insert(0, os.getcwd())
import warnings, tempfile
warnings.simplefilter('ignore')
import numpy as np
np.NaN = np.nan
import holopy as hp
from holopy.core.io import load_image
from PIL import Image

d = tempfile.mkdtemp()
grey = (np.arange(48).reshape(6, 8) * 5).astype('uint8')      # true grey levels
pim = Image.fromarray(grey).convert('RGB').quantize(64)        # palette PNG
p = os.path.join(d, 'pal.png'); pim.save(p)
truth = np.asarray(Image.open(p).convert('L')).astype(float)   # what the file shows
print('file mode:', Image.open(p).mode, ' max |shown - original| =', np.abs(truth - grey).max())
im = load_image(p, spacing=0.1)
err = np.abs(im.values[0] - truth).max()
print('max |load_image - grey level shown by the file| =', err)
print('load_image values (first row):', im.values[0][0])
print('true grey levels  (first row):', truth[0])
bad = err > 1
print('VIOLATION' if bad else 'ok')
sys.exit(1 if bad else 0)
