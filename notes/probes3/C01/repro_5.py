"""C01 / finding 5 (minor): calc_scat_matrix writes its internal sentinel
illum_polarization=False into the result's metadata, overwriting the detector's
polarisation; the result cannot be reused as a detector.  Run from the
checkout root."""
import sys, os; sys.path.insert(0, os.getcwd())
import warnings; warnings.simplefilter('ignore')
import numpy as np
from holopy.scattering import calc_scat_matrix, calc_holo, Sphere
from holopy.core.metadata import detector_grid, update_metadata
det = update_metadata(detector_grid((3, 3), 0.2), 1.33, 0.66, (0, 1))
s = Sphere(1.59, 0.5, (0.3, 0.2, 5))
m = calc_scat_matrix(det, s)
print('detector polarisation:', det.attrs['illum_polarization'].values)
print('result   polarisation:', m.attrs['illum_polarization'])
bad = m.attrs['illum_polarization'] is False
try:
    calc_holo(m.isel(E_out=0, E_in=0), s)
    print('result reusable as detector')
except Exception as e:
    print('reusing the result as a detector fails:', type(e).__name__, e)
print('VIOLATION' if bad else 'ok')
sys.exit(1 if bad else 0)
