"""C01 / finding 3: the result's illumination axis follows the insertion order
of the wavelength dict, not the detector's illumination axis: the values are
labelled correctly but are positionally permuted with respect to the detector
(`.values`, `.isel`, positional comparison with the data).  Run from the
checkout root."""
import sys, os; sys.path.insert(0, os.getcwd())
import warnings; warnings.simplefilter('ignore')
import numpy as np
from holopy.scattering import calc_holo, Sphere
from holopy.core.metadata import detector_grid

det = detector_grid((4, 5), 0.1, extra_dims={'illumination': ['red', 'green']})
s = Sphere(n=1.59, r=0.5, center=(0.3, 0.2, 5))
pol = (1, 0)
h1 = calc_holo(det, s, 1.33, {'red': 0.66, 'green': 0.52}, pol)
h2 = calc_holo(det, s, 1.33, {'green': 0.52, 'red': 0.66}, pol)
print('detector:', list(det.illumination.values))
print('result 1:', list(h1.illumination.values))
print('result 2:', list(h2.illumination.values))
same_order = list(h2.illumination.values) == list(det.illumination.values)
posdiff = float(np.abs(h1.transpose('illumination','x','y','z').values -
                       h2.transpose('illumination','x','y','z').values).max())
print('positional difference between the two results:', posdiff)
bad = (not same_order) or posdiff > 1e-12
print('VIOLATION' if bad else 'ok')
sys.exit(1 if bad else 0)
