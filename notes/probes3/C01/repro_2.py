"""C01 / finding 2: the hologram depends on the INSERTION ORDER of a labelled
per-channel dictionary.  Positional wavelengths are attached to the channels in
the order of the polarisation dict (or labelled polarisation array), not in
the order of the detector's illumination axis, so two equal dicts give
different holograms (each channel silently computed with the other channel's
wavelength).  Run from the checkout root."""
import sys, os; sys.path.insert(0, os.getcwd())
import warnings; warnings.simplefilter('ignore')
import numpy as np
from holopy.scattering import calc_holo, Sphere
from holopy.core.metadata import detector_grid

det = detector_grid((4, 5), 0.1, extra_dims={'illumination': ['red', 'green']})
s = Sphere(n=1.59, r=0.5, center=(0.3, 0.2, 5))
wl = np.array([0.66, 0.52])              # red, green: order of det.illumination
pol_a = {'red': (1, 0), 'green': (0, 1)}
pol_b = {'green': (0, 1), 'red': (1, 0)}
assert pol_a == pol_b
ha = calc_holo(det, s, 1.33, wl, pol_a)
hb = calc_holo(det, s, 1.33, wl, pol_b)
print('wavelengths used (a):', dict(zip(ha.illum_wavelen.illumination.values, ha.illum_wavelen.values)))
print('wavelengths used (b):', dict(zip(hb.illum_wavelen.illumination.values, hb.illum_wavelen.values)))
diff = max(float(np.abs(ha.sel(illumination=c) - hb.sel(illumination=c)).max()) for c in ['red', 'green'])
print('max |holo(pol_a) - holo(pol_b)| per channel label =', diff)
single = calc_holo(detector_grid((4, 5), 0.1), s, 1.33, 0.66, (1, 0))
print('red channel of (b) vs single-colour red hologram:',
      float(np.abs(hb.sel(illumination='red').transpose('x','y','z').values - single.transpose('x','y','z').values).max()))
print('VIOLATION' if diff > 1e-9 else 'ok')
sys.exit(1 if diff > 1e-9 else 0)
