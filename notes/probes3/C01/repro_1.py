"""C01 / finding 1: wavelengths given as a plain array on a detector that has a
labelled `illumination` axis -> the result's illumination axis is relabelled
with the wavelength VALUES; the hologram no longer lies on the detector's
coordinates and an AlphaModel residual against the data is EMPTY (constant
likelihood).  Run from the checkout root."""
import sys, os; sys.path.insert(0, os.getcwd())
import warnings; warnings.simplefilter('ignore')
import numpy as np
import holopy as hp
from holopy.scattering import calc_holo, Sphere
from holopy.core.metadata import detector_grid, update_metadata
from holopy.inference import AlphaModel, prior

det = detector_grid((4, 5), 0.1, extra_dims={'illumination': ['red', 'green']})
s = Sphere(n=1.59, r=0.5, center=(0.3, 0.2, 5))
h = calc_holo(det, s, 1.33, np.array([0.66, 0.52]), (1, 0))
print('detector illumination labels:', list(det.illumination.values))
print('result   illumination labels:', list(h.illumination.values))
bad_labels = list(h.illumination.values) != list(det.illumination.values)

# consequence: model with the same (documented) array form of illum_wavelen
data = calc_holo(det, s, 1.33, {'red': 0.66, 'green': 0.52}, (1, 0), scaling=0.8)
data = update_metadata(data, noise_sd=0.01)
m = AlphaModel(Sphere(n=prior.Uniform(1.5, 1.7, 1.59), r=0.5, center=(0.3, 0.2, 5)),
               alpha=0.8, medium_index=1.33, illum_wavelen=[0.66, 0.52],
               illum_polarization=(1, 0))
res = m._residuals([1.59], data, 0.01)
l1, l2 = m.lnlike({'n': 1.59}, data), m.lnlike({'n': 1.69}, data)
print('residual array shape:', res.shape, ' lnlike(n=1.59)=%g lnlike(n=1.69)=%g' % (l1, l2))
bad_fit = res.size == 0 or l1 == l2
print('VIOLATION' if (bad_labels or bad_fit) else 'ok')
sys.exit(1 if (bad_labels or bad_fit) else 0)
