"""C01 / finding 4: Lens(theory=Multisphere()) images a sphere cluster
point-reflected in (x, y) through the cluster centre (i.e. rotated by 180
degrees about the optical axis), while Lens(Mie()) (superposition) and the
lens-free theories put every sphere at its true position.  Run from the
checkout root."""
import sys, os; sys.path.insert(0, os.getcwd())
import warnings; warnings.simplefilter('ignore')
import numpy as np
from holopy.scattering import calc_holo, Sphere, Spheres, Mie, Multisphere
from holopy.scattering.theory import Lens
from holopy.core.metadata import detector_grid

det = detector_grid((8, 8), 0.5)
sa = Sphere(1.59, 0.3, (1.0, 1.5, 4.0))
sb = Sphere(1.45, 0.2, (2.6, 2.4, 4.6))
cl = Spheres([sa, sb])
cen = cl.center
def reflect(s):
    p = np.array(s.center)
    return Sphere(s.n, s.r, (2*cen[0]-p[0], 2*cen[1]-p[1], p[2]))
cl_reflected = Spheres([reflect(sa), reflect(sb)])

LMS = Lens(0.8, Multisphere(), 40, 40)
LMie = Lens(0.8, Mie(), 40, 40)
h_ms = calc_holo(det, cl, 1.33, 0.66, (1, 0), theory=LMS)
h_mie = calc_holo(det, cl, 1.33, 0.66, (1, 0), theory=LMie)
h_mie_ref = calc_holo(det, cl_reflected, 1.33, 0.66, (1, 0), theory=LMie)
contrast = float(h_mie.max() - h_mie.min())
d_true = float(np.abs(h_ms.values - h_mie.values).max())
d_refl = float(np.abs(h_ms.values - h_mie_ref.values).max())
print('hologram contrast                                  :', contrast)
print('Lens(Multisphere) vs Lens(Mie), same cluster        :', d_true)
print('Lens(Multisphere) vs Lens(Mie), xy-reflected cluster:', d_refl)
# sanity: without the lens the two theories agree on the same cluster
d0 = float(np.abs(calc_holo(det, cl, 1.33, 0.66, (1, 0), theory=Multisphere()).values -
                  calc_holo(det, cl, 1.33, 0.66, (1, 0), theory=Mie()).values).max())
print('Multisphere vs Mie without lens, same cluster      :', d0)
bad = d_true > 20 * max(d_refl, 1e-6) and d_true > 0.1 * contrast
print('VIOLATION' if bad else 'ok')
sys.exit(1 if bad else 0)
