"""C01 / finding 6 (minor): a generic `Scatterers` composite cannot be computed
although ImageFormation has a superposition branch for it: Scatterers has no
`center`.  Also copy_metadata(do_coords=True) only ever looks at the FIRST
coordinate of the new array (the `raise` sits inside the loop).  Run from the
checkout root."""
import sys, os; sys.path.insert(0, os.getcwd())
import warnings; warnings.simplefilter('ignore')
import numpy as np, xarray as xr
from holopy.scattering import calc_field, Sphere, Spheroid, Scatterers, Tmatrix
from holopy.core.metadata import detector_grid, copy_metadata
det = detector_grid((3, 3), 0.2)
bad = False
try:
    comp = Scatterers([Sphere(1.59, 0.4, (0.2, 0.3, 5)),
                       Spheroid(1.5, (0.3, 0.5), rotation=(0, 0.4, 0.2), center=(0.6, 0.1, 6))])
    calc_field(det, comp, 1.33, 0.66, (1, 0), theory=Tmatrix())
    print('Scatterers composite computed')
except AttributeError as e:
    print('Scatterers composite:', type(e).__name__, e); bad = True
old = detector_grid((3, 4), (0.1, 0.2))
new = xr.DataArray(np.ones((1, 3, 4)), dims=['a', 'b', 'c'],
                   coords={'a': old.z.values, 'b': old.x.values, 'c': old.y.values})
try:
    r = copy_metadata(old, new); print('copy_metadata renamed dims to', r.dims)
except ValueError as e:
    print('copy_metadata:', str(e).splitlines()[0][:90]); bad = True
print('VIOLATION' if bad else 'ok')
sys.exit(1 if bad else 0)
