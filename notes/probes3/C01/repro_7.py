"""C01 / side finding 7 (solver level): Multisphere(compute_escat_radial=True)
returns a wrong radial field for spheres that are laterally displaced from
the cluster centre (ms_radial_fields skips every m = 0 term).  An
index-matched (invisible) second sphere changes the field of the first one.
Run from the checkout root."""
import sys, os; sys.path.insert(0, os.getcwd())
import warnings; warnings.simplefilter('ignore')
import numpy as np
from holopy.scattering import calc_field, Sphere, Spheres, Mie, Multisphere
from holopy.core.metadata import detector_points
s1 = Sphere(1.59, 0.15, (0., 0., 0.))
R = 20.
out = {}
for name, d in {'axial': (0, 0, 1.5), 'lateral': (1.5, 0, 0)}.items():
    cc = np.array(d) / 2                       # cluster centre
    th = np.array([0.0, 0.3, 0.6, 0.6]); ph = np.array([0., 0., 1.0, 4.0])
    x = cc[0] + R*np.sin(th)*np.cos(ph); y = cc[1] + R*np.sin(th)*np.sin(ph); z = cc[2] - R*np.cos(th)
    det = detector_points(x=x, y=y, z=z)
    ghost = Sphere(1.33000001, 0.15, d)        # index matched: scatters nothing
    f = calc_field(det, Spheres([s1, ghost]), 1.33, 0.66, (1, 0.3),
                   theory=Multisphere(compute_escat_radial=True)).values
    m = calc_field(det, s1, 1.33, 0.66, (1, 0.3), theory=Mie(True)).values
    out[name] = np.abs(f - m).max() / np.abs(m).max()
    print(name, 'offset of the invisible sphere: rel. field difference to Mie =', out[name])
bad = out['lateral'] > 100 * out['axial'] and out['lateral'] > 1e-2
print('VIOLATION' if bad else 'ok')
sys.exit(1 if bad else 0)
