"""Scatterers.in_domain numbers the first and the second member identically
(off-by-one in enumerate over scatterers[1:]) and Scatterers.index_at then
looks a point of the FIRST member up in the SECOND member, returning 0."""
import sys, os; sys.path.insert(0, os.getcwd())
import warnings; warnings.simplefilter('ignore')
import numpy as np
from holopy.scattering import Sphere, Scatterers
members = [Sphere(n=1.1 + 0.1 * i, r=.4, center=(2.0 * i, 0, 0)) for i in range(4)]
comp = Scatterers(list(members))
pts = np.array([[2.0 * i, 0, 0] for i in range(4)])   # the four centres
dom = comp.in_domain(pts)
print('in_domain at the centres of members 0..3:', dom, '(expected four distinct labels)')
idx = [complex(np.ravel(comp.index_at(p))[0]) for p in pts]
print('index_at at the centres:', idx, 'expected', [m.n for m in members])
# same after a rigid translation
t = comp.translated(0, 0, 5)
print('translated composite   :', t.in_domain(pts + [0, 0, 5]))
bad = len(set(dom.tolist())) != 4 or idx[0] != members[0].n
sys.exit(1 if bad else 0)
