"""Scatterer.voxelate(spacing, medium_index) ignores medium_index."""
import sys, os; sys.path.insert(0, os.getcwd())
import numpy as np
from holopy.scattering import Sphere
s = Sphere(n=1.59, r=.5, center=(0, 0, 0))
v = s.voxelate(0.25, medium_index=1.33)
print('values in voxelate(.25, medium_index=1.33):', np.unique(v), ' expected [1.33 1.59]')
sys.exit(1 if 1.33 not in np.unique(v) else 0)
