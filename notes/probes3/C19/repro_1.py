"""Detector points given in spherical coordinates (finite r) are never referred
to the scatterer's centre, whereas the same points given in Cartesian
coordinates are.  The two descriptions of the SAME detector therefore give
different fields as soon as the scatterer (or a cluster member treated by Mie
superposition) is not at the lab origin."""
import sys, os; sys.path.insert(0, os.getcwd())
import warnings; warnings.simplefilter('ignore')
import numpy as np
import holopy
from holopy.scattering import Sphere, Spheres, calc_field, Mie, Multisphere
from holopy.core import detector_points
print(holopy.__file__)

x = np.array([3., -2., 0.5, 4.]); y = np.array([1., 2.5, -3., 0.])
z = np.array([-20., -20., -25., -18.])
# holopy convention (holopy/scattering/tests/test_basics.py::test_detector_points):
# z = +1 <-> theta = 3 pi / 4, i.e. theta is measured from the -z lab axis
r = np.sqrt(x**2 + y**2 + z**2); theta = np.arccos(-z / r)
phi = np.arctan2(y, x) % (2 * np.pi)
pc = detector_points(x=x, y=y, z=z)
ps = detector_points(r=r, theta=theta, phi=phi)

cl = Spheres([Sphere(n=1.59, r=.3, center=(-4, 0, 0)),
              Sphere(n=1.59, r=.3, center=(4, 0, 0))])
cases = [('sphere at origin            ', Sphere(n=1.59, r=.3, center=(0, 0, 0)), Mie()),
         ('sphere at (1,-2,3)          ', Sphere(n=1.59, r=.3, center=(1., -2., 3.)), Mie()),
         ('cluster about origin, Multi ', cl, Multisphere()),
         ('cluster about origin, Mie   ', cl, Mie()),
         ('cluster shifted, Multisphere', cl.translated(1, -2, 3), Multisphere())]
bad = False
for name, sc, th in cases:
    fc = calc_field(pc, sc, 1.33, .66, (1, 0), theory=th).values
    fs = calc_field(ps, sc, 1.33, .66, (1, 0), theory=th).values
    rel = np.abs(fc - fs).max() / np.abs(fc).max()
    print(name, 'max|E_cart - E_sph|/max|E| = %.3g' % rel)
    if 'origin  ' not in name and 'Multi ' not in name and rel > 1e-6:
        bad = True
# the field on spherical points does not depend on where the sphere is (only a global phase)
f0 = calc_field(ps, Sphere(n=1.59, r=.3, center=(0, 0, 0)), 1.33, .66, (1, 0)).values
f1 = calc_field(ps, Sphere(n=1.59, r=.3, center=(1., -2., 3.)), 1.33, .66, (1, 0)).values
print('| |E|(sphere at origin) - |E|(sphere at (1,-2,3)) | on spherical points:',
      np.abs(np.abs(f0) - np.abs(f1)).max())
sys.exit(1 if bad else 0)
