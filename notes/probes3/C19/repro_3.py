"""RigidCluster.add(sphere) is a silent no-op: it appends to the temporary list
returned by the `scatterers` property."""
import sys, os; sys.path.insert(0, os.getcwd())
import warnings; warnings.simplefilter('ignore')
from holopy.scattering import Sphere, Spheres
from holopy.scattering.scatterer import RigidCluster
sp = Spheres([Sphere(n=1.5, r=.3, center=(2.0 * i, 0, 0)) for i in range(3)])
rc = RigidCluster(sp, rotation=(.1, .2, .3), translation=(1, 2, 3))
before = len(rc.scatterers)
rc.add(Sphere(n=1.5, r=.1, center=(0, 9, 0)))
after = len(rc.scatterers)
print('members before add:', before, ' after add:', after, ' in rc.spheres:', len(rc.spheres.scatterers))
ref = Spheres(list(sp.scatterers)); ref.add(Sphere(n=1.5, r=.1, center=(0, 9, 0)))
print('Spheres.add for comparison ->', len(ref.scatterers))
sys.exit(1 if after == before else 0)
