"""JanusSphere_Tapered's DEFAULT rotation is the 2-tuple (0, 0) although the
docstring (and rotation_matrix) want three Euler angles: indicators/in_domain/
voxelate raise TypeError for an object built with default arguments."""
import sys, os; sys.path.insert(0, os.getcwd())
import numpy as np
from holopy.scattering.scatterer import JanusSphere_Tapered
j = JanusSphere_Tapered(n=(1.5, 1.6), r=(.5, .6), center=(0, 0, 0))
print('default rotation:', j.rotation)
try:
    print(j.in_domain(np.array([[0, 0, .55]])))
    sys.exit(0)
except TypeError as e:
    print('TypeError:', e)
    sys.exit(1)
