"""Integer coordinate arrays are squared in their own dtype: with int32 input
(e.g. pixel/nm coordinates) the radius wraps around silently beyond 46340, so
the conversion no longer preserves the distance from the origin."""
import sys, os; sys.path.insert(0, os.getcwd())
import warnings; warnings.simplefilter('ignore')
import numpy as np
from holopy.core.math import find_transformation_function as ftf, cartesian_distance
p = np.array([[70000], [0], [0]], dtype=np.int32)
bad = False
for b in ('spherical', 'cylindrical'):
    out = ftf('cartesian', b)(p)
    ref = ftf('cartesian', b)(p.astype(float))
    print('cartesian->%s int32:' % b, out.ravel(), ' float:', ref.ravel())
    bad |= not np.allclose(out, ref)
d = cartesian_distance(p.ravel())
print('cartesian_distance int32:', d, ' float:', cartesian_distance(p.ravel().astype(float)))
bad |= not np.isclose(d, 70000.)
sys.exit(1 if bad else 0)
