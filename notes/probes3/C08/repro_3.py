"""Minor. Lens advertises `lens_angle` as a fittable theory parameter
(parameter_names = ('lens_angle',), from_parameters) exactly like MieLens,
but a Lens cannot be constructed with a prior for lens_angle because the
quadrature is set up eagerly in __init__."""
import sys, os; sys.path.insert(0, os.getcwd())
import warnings; warnings.filterwarnings('ignore')
import holopy as hp
from holopy.core import prior
from holopy.scattering import Mie, MieLens
from holopy.scattering.theory.lens import Lens

p = prior.Uniform(0.5, 1.2, guess=0.8)
print('holopy from', hp.__file__)
print('MieLens with a prior:', MieLens(p).parameters)
try:
    th = Lens(p, Mie())
    print('Lens with a prior:', th.parameters)
    sys.exit(0)
except Exception as e:
    print('Lens(prior, Mie()) raised %s: %s' % (type(e).__name__, e))
    sys.exit(1)
