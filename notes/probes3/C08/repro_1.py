"""C08 / Lens: the image of a non-axisymmetric scatterer (a sphere cluster
handled by Multisphere) is point-reflected in x-y about the scatterer centre.

Lens(la, Mie()) applied to a cluster (sphere-by-sphere superposition) and
MieLens(la) agree with each other; Lens(la, Multisphere()) on the *same*
cluster does not, but agrees with the superposition result for the cluster
whose two spheres have swapped lateral positions.
The two spheres are small and 3.6 um apart, so multiple scattering is ~1e-4.
"""
import sys, os; sys.path.insert(0, os.getcwd())
import warnings; warnings.filterwarnings('ignore')
import numpy as np
import holopy as hp
from holopy.scattering import calc_field, Sphere, Spheres, Mie, MieLens, Multisphere
from holopy.scattering.theory.lens import Lens


def rel(a, b):
    a = np.asarray(a); b = np.asarray(b)
    return float(np.abs(a - b).max() / np.abs(b).max())


nm, wl, pol, la = 1.33, 0.66, (0.6, 0.8), 0.8
det = hp.detector_grid(shape=(6, 8), spacing=(0.3, 0.21))
cA, cB = (0.5, 0.6, 5.0), (3.5, 2.6, 5.0)
small = dict(n=1.40, r=0.2)
big = dict(n=1.59, r=0.4)
cluster = Spheres([Sphere(center=cA, **small), Sphere(center=cB, **big)])
swapped = Spheres([Sphere(center=cB, **small), Sphere(center=cA, **big)])

args = (nm, wl, pol)
f_lens_ms = calc_field(det, cluster, *args, theory=Lens(la, Multisphere()))
f_lens_mie = calc_field(det, cluster, *args, theory=Lens(la, Mie()))
f_mielens = calc_field(
    det, cluster, *args,
    theory=MieLens(la, {'interpolate_integrals': False}))
f_lens_mie_swapped = calc_field(det, swapped, *args, theory=Lens(la, Mie()))
# sanity: without the lens Multisphere and Mie superposition agree
far = hp.detector_grid(shape=(6, 8), spacing=(0.3, 0.21))
cl_far = Spheres([Sphere(center=cA[:2] + (25.,), **small),
                  Sphere(center=cB[:2] + (25.,), **big)])
nolens = rel(calc_field(far, cl_far, *args, theory=Multisphere()),
             calc_field(far, cl_far, *args, theory=Mie()))

d_ref = rel(f_lens_mie, f_mielens)
d_same = rel(f_lens_ms, f_lens_mie)
d_swap = rel(f_lens_ms, f_lens_mie_swapped)
print('holopy from', hp.__file__)
print('no lens:  Multisphere vs Mie superposition, same cluster : %.2e' % nolens)
print('Lens(Mie) superposition vs MieLens, same cluster          : %.2e' % d_ref)
print('Lens(Multisphere) vs Lens(Mie) superposition, same cluster: %.2e' % d_same)
print('Lens(Multisphere) vs Lens(Mie), spheres swapped in x-y    : %.2e' % d_swap)
violated = d_same > 0.1 and d_swap < 0.01
print('VIOLATION: Lens(Multisphere) image is x-y inverted about the cluster '
      'centre' if violated else 'no violation')
sys.exit(1 if violated else 0)
