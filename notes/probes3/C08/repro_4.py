"""Minor. PiecewiseChebyshevApproximant(function, degree, breakpoints, *args)
documents/accepts extra args for `function` but forwards them positionally to
Chebyshev.interpolate, where they collide with `domain`."""
import sys, os; sys.path.insert(0, os.getcwd())
import numpy as np
import holopy as hp
from holopy.scattering.theory.mielensfunctions import (
    PiecewiseChebyshevApproximant)
print('holopy from', hp.__file__)
try:
    p = PiecewiseChebyshevApproximant(
        lambda x, a: a * np.sin(x), 12, np.array([0., 1., 2.]), 2.0)
    got = p(np.array([0.5, 1.5]))
    ok = np.allclose(got, 2 * np.sin([0.5, 1.5]))
    print('value', got, 'ok' if ok else 'WRONG')
    sys.exit(0 if ok else 1)
except Exception as e:
    print('raised %s: %s' % (type(e).__name__, e))
    sys.exit(1)
