"""C08 / Lens wrapped around Tmatrix: for a plain homogeneous sphere,
Lens(la, Tmatrix()) does not equal Lens(la, Mie()) / MieLens(la).

Cause: Tmatrix.raw_scat_matrs returns amplitude matrices whose incident basis
is the fixed lab (x, y) basis (phi0 = 0) instead of the scattering-plane
(parallel, perpendicular) basis every other theory returns and Lens assumes;
Tmatrix.raw_fields compensates with a `postfactor` rotation that is missing
from raw_scat_matrs.
"""
import sys, os; sys.path.insert(0, os.getcwd())
import warnings; warnings.filterwarnings('ignore')
import numpy as np
import holopy as hp
from holopy.scattering import calc_field, Sphere, Mie, MieLens, Tmatrix
from holopy.scattering.theory.lens import Lens


def rel(a, b):
    a = np.asarray(a); b = np.asarray(b)
    return float(np.abs(a - b).max() / np.abs(b).max())


class TmatrixRotated(Tmatrix):
    """Tmatrix with S expressed in the scattering-plane basis."""
    def raw_scat_matrs(self, scatterer, pos, medium_wavevec, medium_index):
        S = super().raw_scat_matrs(scatterer, pos, medium_wavevec, medium_index)
        out = np.empty_like(S)
        for i, phi in enumerate(pos[2]):
            post = np.array([[np.cos(phi), np.sin(phi)],
                             [-np.sin(phi), np.cos(phi)]])
            out[i] = S[i] @ post
        return out


nm, wl, la = 1.33, 0.66, 0.8
k = 2 * np.pi * nm / wl
sph = Sphere(n=1.59, r=0.5, center=(0.5, 0.6, 5.0))
det = hp.detector_grid(shape=(6, 8), spacing=(0.3, 0.21))
pos = np.array([[0., 0.], [0.3, 0.3], [0.0, 1.0]])   # same theta, phi=0 and 1
S_t = np.array(Tmatrix().raw_scat_matrs(sph, pos, k, nm))
S_m = np.array(Mie().raw_scat_matrs(sph, pos, k, nm))
print('holopy from', hp.__file__)
print('S(theta=.3, phi=0): Tmatrix vs Mie  %.2e' % rel(S_t[0], S_m[0]))
print('S(theta=.3, phi=1): Tmatrix vs Mie  %.2e' % rel(S_t[1], S_m[1]))
bad = []
for pol in [(1, 0), (0.6, 0.8)]:
    ref = calc_field(det, sph, nm, wl, pol, theory=Lens(la, Mie()))
    ml = calc_field(det, sph, nm, wl, pol,
                    theory=MieLens(la, {'interpolate_integrals': False}))
    d_t = rel(calc_field(det, sph, nm, wl, pol, theory=Lens(la, Tmatrix())), ref)
    d_r = rel(calc_field(det, sph, nm, wl, pol,
                         theory=Lens(la, TmatrixRotated())), ref)
    print('pol', pol, ' MieLens vs Lens(Mie) %.1e | Lens(Tmatrix) vs Lens(Mie) '
          '%.2e | with S rotated to scattering plane %.2e'
          % (rel(ml, ref), d_t, d_r))
    bad.append(d_t > 0.1 and d_r < 0.05)
violated = all(bad)
print('VIOLATION: Lens(Tmatrix) for a sphere differs from Lens(Mie)'
      if violated else 'no violation')
sys.exit(1 if violated else 0)
