"""C10 / lens wrapper (holopy/scattering/theory/lens.py): state frozen at construction.
Lens.__init__ pre-computes the pupil quadrature (_theta_pts, _theta_wts, ...) from
lens_angle / quad_npts_*.  The attributes stay public and writable, are what repr, ==,
.parameters and save() report, but raw_fields keeps using the stale quadrature.  So
 - after `lens.lens_angle = 0.5` the object says 0.5 but computes with the old 0.8,
 - it compares equal to Lens(0.5, ...) while returning different fields,
 - save() + load() of the modified object silently changes the numbers it computes.
Run from the checkout root.  Exit 1 when the violation is present."""
import sys, os; sys.path.insert(0, os.getcwd())
import warnings; warnings.filterwarnings('ignore')
import numpy as np, tempfile
import holopy
from holopy.scattering import Sphere, Tmatrix, calc_field
from holopy.scattering.theory import Lens
from holopy.core import detector_grid
from holopy.core.io import save, load
print(holopy.__file__)
det = detector_grid(6, .4)
s = Sphere(n=1.59, r=.5, center=(1.1, 1.3, 5))
kw = dict(medium_index=1.33, illum_wavelen=.66, illum_polarization=(1, 0))
L = Lens(0.8, Tmatrix(), quad_npts_theta=40, quad_npts_phi=40)
f_08 = calc_field(det, s, theory=L, **kw)
L.lens_angle = 0.5
print("after modification:", L, " parameters:", L.parameters)
f_mod = calc_field(det, s, theory=L, **kw)
fresh = Lens(0.5, Tmatrix(), quad_npts_theta=40, quad_npts_phi=40)
f_05 = calc_field(det, s, theory=fresh, **kw)
path = os.path.join(tempfile.mkdtemp(), 'lens.yaml')
save(path, L)
f_loaded = calc_field(det, s, theory=load(path), **kw)
scale = abs(f_05).max().item()
d_old = abs(f_mod - f_08).max().item() / scale
d_new = abs(f_mod - f_05).max().item() / scale
d_rt = abs(f_mod - f_loaded).max().item() / scale
print("modified == Lens(0.5,...):", L == fresh)
print("rel. diff modified vs Lens(0.8) : %.3g" % d_old)
print("rel. diff modified vs Lens(0.5) : %.3g" % d_new)
print("rel. diff modified vs its own save/load round trip : %.3g" % d_rt)
bad = (L == fresh) and d_new > 1e-3
sys.exit(1 if bad else 0)
